#!/bin/bash
# Build the fact exporter and warm the dependency target dirs. Offline; everything stays under /verif.
set -e
cd "$(dirname "$0")"
export CARGO_NET_OFFLINE=true
(cd broodfacts && cargo build --offline 2>&1 | tail -2)
python3 - <<'PY'
import sys
sys.path.insert(0, '/verif')
from vlib import facts
for cfg in ('all', 'default'):
    f, info = facts.extract(cfg)
    print('warm', info)
PY
python3 - <<'PY'
import sys
sys.path.insert(0, '/verif')
from vlib import witness
d, arts = witness._deps('/repo')
print('witness deps', sorted(arts))
PY
python3 -m compileall -q vlib >/dev/null
echo setup ok
