#!/usr/bin/env python3
"""mutest.py <patch.diff> [rule ids...] : apply a patch to a scratch worktree of /repo HEAD, run rules there."""
import sys, os, subprocess, tempfile, shutil
sys.path.insert(0, '/verif')
patch = os.path.abspath(sys.argv[1])
rules = [a for a in sys.argv[2:] if not a.startswith('-')]
if any(a.startswith('--fam=') for a in sys.argv) and not rules:
    rules = ['NONE']
wt = tempfile.mkdtemp(prefix='mutest.', dir='/tmp')
os.rmdir(wt)
subprocess.check_call(['git', '-C', '/repo', 'worktree', 'add', '-q', '--detach', wt, 'HEAD'])
try:
    shutil.copy('/repo/Cargo.lock', os.path.join(wt, 'Cargo.lock'))
    subprocess.check_call(['git', '-C', wt, 'apply', patch])
    from vlib import engine
    import vlib.allrules
    cfgs = ['all'] + (['default'] if '--both' in sys.argv else [])
    ctx = engine.Ctx(wt)
    total = 0
    KNOWN = {k['key'] for k in engine.load_known() if k.get('status') == 'known'}
    for cfg in cfgs:
        for rid in sorted(engine.RULES):
            if rules and rid not in rules:
                continue
            ru = engine.RULES[rid]
            if cfg not in ru.configs:
                continue
            try:
                res = ru.fn(ctx.prog(cfg))
            except Exception as e:
                import traceback; traceback.print_exc()
                print(rid, 'CRASH', e); total += 1
                continue
            if len(res.instances) < ru.floor_for(cfg):
                print('%s [%s] BELOW FLOOR %d<%d' % (rid, cfg, len(res.instances), ru.floor_for(cfg))); total += 1
            for v in res.violations:
                if v.key in KNOWN:
                    continue
                total += 1
                print('!! [%s] %s %s | %s' % (cfg, v.key, v.where.replace(wt + '/', ''), v.msg))
    fams = [a.split('=')[1] for a in sys.argv if a.startswith('--fam=')]
    if fams:
        from vlib import witness, families
        known = {k['key'] for k in engine.load_known() if k.get('status') == 'known'}
        for fam in fams:
            res = witness.FAMILIES[fam].run(ctx, 'thorough' if '--thorough' in sys.argv else 'quick', 0)
            for v in res['violations']:
                if v.key in known:
                    continue
                total += 1
                print('!! [witness] %s | %s' % (v.key, v.msg[:200]))
            print(fam, 'programs', res['programs'])
    print('TOTAL', total)
finally:
    subprocess.call(['git', '-C', '/repo', 'worktree', 'remove', '--force', wt])
    import hashlib
    td = os.path.join('/verif/.cache', 'target-all-' + hashlib.sha1(wt.encode()).hexdigest()[:8])
    shutil.rmtree(td, ignore_errors=True)
    shutil.rmtree(td.replace('target-all-', 'target-default-'), ignore_errors=True)
    shutil.rmtree(td.replace('target-all-', 'target-witness-'), ignore_errors=True)
