#!/usr/bin/env python3
"""Regenerate MANIFEST.json from vlib/props.py (claimed properties) and tools/manifest_static.json."""
import json, os, sys
sys.path.insert(0, '/verif')
from vlib import props, engine
import vlib.allrules
from vlib import witness
static = json.load(open('/verif/tools/manifest_static.json'))
allp = [json.loads(l)['id'] for l in open('/verif/properties.jsonl')]
checks = []
for pid in allp:
    if pid not in props.PROPS:
        continue
    d = props.PROPS[pid]
    rules = sorted(r.id for r in engine.RULES.values() if pid in r.props)
    fams = sorted(f for f, fam in witness.FAMILIES.items() if pid in fam.props)
    checks.append({
        'property_id': pid,
        'quick_cmd': './check %s --tier quick' % pid,
        'thorough_cmd': './check %s --tier thorough' % pid,
        'evidence_file': '/verif/evidence/%s.json' % pid,
        'replay_cmd_template': './check %s --replay {path}' % pid,
        'engine': 'broodfacts+rules' + ('+witness' if fams else ''),
        'level_claimed': {'category': d['level'], 'text': d['explanation'], 'design_ref': 'DESIGN.md §4 ' + pid},
        'level_note': 'Static structural decision of the named clauses only; NOT decided: ' + d['not_decided'] + '. Trusted: ' + '; '.join(d['assumptions']),
        'technique': 'static analysis: MIR/impl-table rules over the resolved program (%s)%s' % (', '.join(rules), ('; compile-pass/compile-fail witness families (%s)' % ', '.join(fams)) if fams else ''),
    })
na = [{'property_id': p, 'reason': static['not_applicable_reasons'].get(p, 'no sound static check built for this property yet; not claimed')} for p in allp if p not in props.PROPS]
m = {
    'version': 1,
    'setup_cmd': static['setup_cmd'],
    'hooks': static['hooks'],
    'engines': static['engines'],
    'checks': checks,
    'notes': static['notes'],
    'not_applicable': na,
}
json.dump(m, open('/verif/MANIFEST.json', 'w'), indent=1)
print('claimed:', [c['property_id'] for c in checks])
print('not claimed:', [n['property_id'] for n in na])
