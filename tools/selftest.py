#!/usr/bin/env python3
"""selftest.py [names...] : benign-variant corpus. Every behaviour-preserving patch in selftest/benign/ is applied
to a scratch worktree of /repo HEAD and ALL property checks are run on it (rules of both tiers, witness
families only with --witness); any VIOLATION is a false alarm of the machinery. Informational tool, not a
registered check."""
import sys, os, json, subprocess, tempfile, shutil, hashlib, glob, re
V = '/verif'
sys.path.insert(0, V)
names = [a for a in sys.argv[1:] if not a.startswith('-')] or sorted(os.path.basename(p)[:-5] for p in glob.glob(V + '/selftest/benign/*.diff'))
results = {}
def one(name):
        wt = tempfile.mkdtemp(prefix='selft.', dir='/tmp')
        os.rmdir(wt)
        subprocess.check_call(['git', '-C', '/repo', 'worktree', 'add', '-q', '--detach', wt, 'HEAD'])
        try:
            shutil.copy('/repo/Cargo.lock', os.path.join(wt, 'Cargo.lock'))
            subprocess.check_call(['git', '-C', wt, 'apply', os.path.join(V, 'selftest', 'benign', name + '.diff')])
            code = '''
    import sys
    sys.path.insert(0, %r)
    from vlib import engine, props
    import vlib.allrules
    ctx = engine.Ctx(%r, 'thorough')
    known = {k['key'] for k in engine.load_known() if k.get('status') == 'known'}
    bad = []
    for cfg in ('all', 'default'):
        for rid in sorted(engine.RULES):
            ru = engine.RULES[rid]
            if cfg not in ru.configs:
                continue
            try:
                res = ru.fn(ctx.prog(cfg))
            except Exception as e:
                bad.append('%%s[%%s] CRASH %%r' %% (rid, cfg, e)); continue
            if len(res.instances) < ru.floor_for(cfg):
                bad.append('%%s[%%s] BELOW FLOOR %%d<%%d' %% (rid, cfg, len(res.instances), ru.floor_for(cfg)))
            for v in res.violations:
                if v.key not in known:
                    bad.append('%%s[%%s] %%s | %%s' %% (rid, cfg, v.key, v.msg[:160]))
    for b in sorted(set(bad)):
        print('FALSE-ALARM', b)
    print('DONE', len(set(bad)))
    ''' % (V, wt)
            p = subprocess.run([sys.executable, '-c', textwrap.dedent(code)], cwd=V, stdout=subprocess.PIPE, stderr=subprocess.STDOUT, text=True)
            out = [l for l in p.stdout.splitlines() if l.startswith(('FALSE-ALARM', 'DONE'))]
            if not any(l.startswith('DONE') for l in out):
                out.append('ERROR ' + p.stdout[-600:])
            results[name] = out
            print(name, '->', out[-1] if out else '?')
            for l in out[:-1]:
                print('    ', l[:300])
        finally:
            subprocess.call(['git', '-C', '/repo', 'worktree', 'remove', '--force', wt])
            h = hashlib.sha1(wt.encode()).hexdigest()[:8]
            for pre in ('target-all-', 'target-default-', 'target-witness-'):
                shutil.rmtree(os.path.join(V, '.cache', pre + h), ignore_errors=True)
from concurrent.futures import ThreadPoolExecutor
import textwrap
with ThreadPoolExecutor(int(os.environ.get('SELFTEST_JOBS', '5'))) as ex:
    list(ex.map(one, names))
if len(sys.argv) > 1:
    try:
        old = json.load(open(V + '/selftest/benign-results.json')); old.update(results); results = old
    except Exception:
        pass
json.dump(results, open(V + '/selftest/benign-results.json', 'w'), indent=1, sort_keys=True)
