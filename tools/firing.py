#!/usr/bin/env python3
"""firing.py [names...] : my own one-edit breaking changes (textual substitutions on /repo HEAD in a scratch
worktree). Each must compile (all features) and be reported by at least one of the rules named for it.
Informational tool (validates rules); results in selftest/firing-results.json."""
import sys, os, json, subprocess, tempfile, shutil, hashlib
V = '/verif'
CORPUS = [
 # (name, file, old, new, expected rules)
 ('F01-clone-from-no-advance-b', 'src/registry/clone/sealed.rs', "                unsafe { components_b.get_unchecked(1..) };\n        }\n", "                unsafe { components_b.get_unchecked(0..) };\n        }\n", ['W2']),
 ('F02-ser-row-no-advance', 'src/registry/serde/ser/sealed.rs', "            )?;\n\n            components =\n                // SAFETY: `components` is guaranteed to have the same number of values as there\n                // set bits in `identifier_iter`. Since a bit must have been set to enter this\n                // block, there must be at least one component column.\n                unsafe { components.get_unchecked(1..) };", "            )?;\n\n            components =\n                // SAFETY: see above.\n                unsafe { components.get_unchecked(0..) };", ['W2']),
 ('F03-par-notcontained-no-advance', 'src/registry/sealed/par_view.rs', "            unsafe {\n                columns = columns.get_unchecked(1..);\n            }\n        }\n        // SAFETY: The remaining components in `columns` are guaranteed to contain raw parts\n        // for valid `Vec<C>`s of length `length` for each of the remaining components\n        // identified by `archetype_identifier`.\n        unsafe { R::par_view(columns, length, archetype_identifier) }", "            unsafe {\n                columns = columns.get_unchecked(0..);\n            }\n        }\n        // SAFETY: see above.\n        unsafe { R::par_view(columns, length, archetype_identifier) }", ['W2']),
 ('F04-reserve-no-writeback', 'src/entity/sealed/storage.rs', "        v.reserve(additional);\n        *component_column = (v.as_mut_ptr().cast::<u8>(), v.capacity());", "        v.reserve(additional);", ['O2']),
 ('F05-remove-fixup-wrong-index', 'src/archetype/mod.rs', "                    *entity_identifiers.last().unwrap_unchecked(),\n                    index,\n                );\n            }\n        }\n        entity_identifiers.swap_remove(index);", "                    *entity_identifiers.last().unwrap_unchecked(),\n                    self.length - 1,\n                );\n            }\n        }\n        entity_identifiers.swap_remove(index);", ['P4']),
 ('F06-allocator-clone-slots-wholesale', 'src/entity/allocator/mod.rs', "        self.slots.clear();\n        self.slots.extend(source.slots.iter().map(|slot|", "        self.slots.clone_from(&source.slots);\n        let _ = (|| source.slots.iter().map(|slot|", ['P8']),
 ('F07-claim-mut-to-immut', 'src/registry/sealed/view.rs', "        (Claim::Mutable, R::claims())\n    }\n\n    fn indices<R_>() -> (usize, V::Indices)", "        (Claim::Immutable, R::claims())\n    }\n\n    fn indices<R_>() -> (usize, V::Indices)", ['T1']),
 ('F08-verifier-mutimmut-passthrough', 'src/system/schedule/claim/verifier.rs', "(MutImmut, P)> for (&'a mut T, U)\nwhere\n    C: Get<&'a T, I>,\n    U: Verifier<'a, R, C, IS, P>,\n{\n    type Decision = decision::Cut;", "(MutImmut, P)> for (&'a mut T, U)\nwhere\n    C: Get<&'a T, I>,\n    U: Verifier<'a, R, C, IS, P>,\n{\n    type Decision = <U as Verifier<'a, R, C, IS, P>>::Decision;", ['T3', 'V-SCHED']),
 ('F09-world-remove-no-len', 'src/world/mod.rs', "\n            self.len -= 1;\n        }\n    }\n\n    /// Removes all entities.", "\n        }\n    }\n\n    /// Removes all entities.", ['P6']),
 ('F10-free-unchecked-no-push', 'src/entity/allocator/mod.rs', "        slot.deactivate();\n        self.free.push_back(identifier.index);", "        slot.deactivate();", ['P2']),
 ('F11-addon-flag-false', 'src/system/schedule/stage.rs', "                        (\n                            true,", "                        (\n                            false,", ['S2']),
 ('F13-ser-by-row-swapped', 'src/archetype/impl_serde.rs', "        let mut tuple = serializer.serialize_tuple(3)?;\n        tuple.serialize_element(&self.0.identifier)?;\n        tuple.serialize_element(&self.0.length)?;\n        tuple.serialize_element(&SerializeRows(self.0))?;", "        let mut tuple = serializer.serialize_tuple(3)?;\n        tuple.serialize_element(&self.0.length)?;\n        tuple.serialize_element(&self.0.identifier)?;\n        tuple.serialize_element(&SerializeRows(self.0))?;", ['X1']),
 ('F15-with-resources-literal', 'src/world/mod.rs', "        Self::from_raw_parts(Archetypes::new(), entity::Allocator::new(), 0, resources)", "        Self { archetypes: Archetypes::new(), entity_allocator: entity::Allocator::new(), len: 0, resources }", ['G3']),
 ('F16-hr-swapped-writer', 'src/archetype/impl_serde.rs', "        if serializer.is_human_readable() {\n            serializer.serialize_newtype_struct(\"Archetype\", &SerializeArchetypeByRow(self))", "        if !serializer.is_human_readable() {\n            serializer.serialize_newtype_struct(\"Archetype\", &SerializeArchetypeByRow(self))", ['X3']),
 ('F18-generation-not-bumped', 'src/entity/allocator/slot.rs', "        self.generation = self.generation.wrapping_add(1);\n        self.location = Some(location);", "        self.location = Some(location);", ['G2']),
 ('F20-push-len-from-capacity', 'src/entity/sealed/storage.rs', "                Vec::<C>::from_raw_parts(component_column.0.cast::<C>(), length, component_column.1)\n            },\n        );\n        v.push(self.0);", "                Vec::<C>::from_raw_parts(component_column.0.cast::<C>(), component_column.1, component_column.1)\n            },\n        );\n        v.push(self.0);", ['W5']),
 ('F21-reserve-second-owner-dropped', 'src/entity/sealed/storage.rs', "                Vec::<C>::from_raw_parts(component_column.0.cast::<C>(), length, component_column.1)\n            },\n        );\n        v.reserve(additional);", "                Vec::<C>::from_raw_parts(component_column.0.cast::<C>(), length, component_column.1)\n            },\n        );\n        let mut v = ManuallyDrop::into_inner(v);\n        v.reserve(additional);", ['O1']),
 ('F22-push-column-as-u64', 'src/entity/sealed/storage.rs', "                Vec::<C>::from_raw_parts(component_column.0.cast::<C>(), length, component_column.1)\n            },\n        );\n        v.reserve(additional);", "                Vec::<u64>::from_raw_parts(component_column.0.cast::<u64>(), length, component_column.1)\n            },\n        );\n        v.reserve(additional);", ['W3']),
 ('F23-archetypes-insert-result-ignored', 'src/archetypes/impl_serde.rs', "                    if let Err(archetype) = archetypes.insert(archetype) {\n                        return Err(de::Error::custom(format_args!(\n                            \"non-unique `Identifier` {:?}, expected {}\",\n                            // SAFETY: This identifier will not outlive the archetype.\n                            unsafe { archetype.identifier() },\n                            (&self as &dyn Expected)\n                        )));\n                    }", "                    let _ = archetypes.insert(archetype);", ['G5ii']),
 ('F24-stage-run-sleeps', 'src/system/schedule/stage.rs', "                        (\n                            true,", "                        (\n                            { core::hint::spin_loop(); core::sync::atomic::fence(core::sync::atomic::Ordering::SeqCst); true },", ['S7']),
 ('F25-cloned-column-dropped', 'src/registry/clone/sealed.rs', "let mut component_vec_b = component_vec_a.clone();", "let mut component_vec_b = (*component_vec_a).clone();", ['O3']),
 ('F19-is-active-no-generation', 'src/entity/allocator/mod.rs', "            if slot.is_active() && slot.generation == identifier.generation {", "            if slot.is_active() {", ['G1']),
]


def main():
    names = [a for a in sys.argv[1:] if not a.startswith('-')]
    results = {}
    for name, path, old, new, rules in CORPUS:
        if names and name not in names:
            continue
        wt = tempfile.mkdtemp(prefix='fire.', dir='/tmp'); os.rmdir(wt)
        subprocess.check_call(['git', '-C', '/repo', 'worktree', 'add', '-q', '--detach', wt, 'HEAD'])
        try:
            shutil.copy('/repo/Cargo.lock', os.path.join(wt, 'Cargo.lock'))
            p = os.path.join(wt, path)
            s = open(p).read()
            if s.count(old) != (2 if name.startswith('F07') else 1):   # F07: &mut C and Option<&mut C> impls share the text; break both
                print(name, 'PATTERN COUNT', s.count(old)); results[name] = 'pattern'; continue
            open(p, 'w').write(s.replace(old, new))
            d = subprocess.check_output(['git', '-C', wt, 'diff'], text=True)
            open(os.path.join(V, 'selftest', 'firing', name + '.diff'), 'w').write(d)
            r = subprocess.run(['cargo', 'check', '--offline', '--all-features', '--lib'], cwd=wt, stdout=subprocess.PIPE, stderr=subprocess.STDOUT, text=True, env=dict(os.environ, CARGO_NET_OFFLINE='true'))
            if r.returncode != 0:
                print(name, 'DOES NOT COMPILE'); results[name] = 'nocompile'; continue
        finally:
            subprocess.call(['git', '-C', '/repo', 'worktree', 'remove', '--force', wt])
        rule_ids = [x for x in rules if not x.startswith('V-')]
        fams = ['--fam=' + x for x in rules if x.startswith('V-')]
        r = subprocess.run([sys.executable, V + '/tools/mutest.py', os.path.join(V, 'selftest', 'firing', name + '.diff')] + rule_ids + fams, stdout=subprocess.PIPE, stderr=subprocess.STDOUT, text=True)
        hits = [l for l in r.stdout.splitlines() if l.startswith('!!')]
        by = sorted({h.split()[2].split('/')[0] for h in hits})
        ok = any(x in by for x in rules)
        results[name] = {'expected': rules, 'reported_by': by, 'ok': ok}
        print(name, 'OK' if ok else 'MISSED', by)
    json.dump(results, open(V + '/selftest/firing-results.json', 'w'), indent=1, sort_keys=True)


if __name__ == '__main__':
    main()
