#!/usr/bin/env python3
"""seedmatrix_par.py [N] : the seed matrix with N worker processes (default 6). Seeds are grouped by the property
they break and a property is never split over two workers (replay files are keyed by property)."""
import sys, os, json, glob, subprocess, tempfile
V = '/verif'
n = int(sys.argv[1]) if len(sys.argv) > 1 else 6
seeds = sorted(os.path.basename(d) for d in glob.glob(V + '/seeded/C*') if os.path.isdir(d))
byprop = {}
for s in seeds:
    prop = json.load(open(os.path.join(V, 'seeded', s, 'meta.json'))).get('property') or s.split('-')[0]
    byprop.setdefault(prop, []).append(s)
groups = [[] for _ in range(n)]
for prop in sorted(byprop, key=lambda p: -len(byprop[p])):
    min(groups, key=len).extend(byprop[prop])
procs = []
tmp = tempfile.mkdtemp(prefix='seedmpar.', dir=os.path.join(V, '.cache'))
for i, g in enumerate(groups):
    if not g:
        continue
    out = os.path.join(tmp, 'm%d.json' % i)
    procs.append((out, subprocess.Popen([sys.executable, V + '/tools/seedmatrix.py'] + g, env=dict(os.environ, SEEDM_OUT=out), stdout=open(os.path.join(tmp, 'log%d.txt' % i), 'w'), stderr=subprocess.STDOUT)))
matrix = {}
for out, p in procs:
    p.wait()
    matrix.update(json.load(open(out)))
json.dump(matrix, open(V + '/seeded/MATRIX.json', 'w'), indent=1, sort_keys=True)
missed = [k for k, v in matrix.items() if not v['caught_by']]
print('seeds', len(matrix), 'missed', missed)
errs = [k for k, v in matrix.items() if v.get('error')]
print('errors', errs)
