#!/usr/bin/env python3
"""quickmut.py <file> <old> <new> [rules...] : one-off textual mutation in a scratch worktree, checks it compiles
(all features) and runs the given rules (or all) on it. Dev tool for validating rules both ways."""
import sys, os, subprocess, tempfile
path, old, new = sys.argv[1:4]
rest = sys.argv[4:]
wt = tempfile.mkdtemp(prefix='qm.', dir='/tmp'); os.rmdir(wt)
subprocess.check_call(['git', '-C', '/repo', 'worktree', 'add', '-q', '--detach', wt, 'HEAD'])
try:
    p = os.path.join(wt, path)
    s = open(p).read()
    if s.count(old) != 1:
        print('pattern count', s.count(old)); sys.exit(2)
    open(p, 'w').write(s.replace(old, new))
    d = subprocess.check_output(['git', '-C', wt, 'diff'], text=True)
    pf = wt + '.patch'
    open(pf, 'w').write(d)
finally:
    subprocess.call(['git', '-C', '/repo', 'worktree', 'remove', '--force', wt])
r = subprocess.run([sys.executable, '/verif/tools/mutest.py', pf] + rest, stdout=subprocess.PIPE, stderr=subprocess.STDOUT, text=True)
print(r.stdout[-3000:])
os.remove(pf)
