#!/usr/bin/env python3
"""seedmatrix.py [ids...] : for every kept seeded change, apply it to a scratch worktree of /repo HEAD and run
the checks of the property it breaks (quick, then thorough if quick is silent). Writes seeded/MATRIX.json."""
import sys, os, json, subprocess, tempfile, shutil, hashlib, glob, re, time
V = '/verif'
# SEEDM_OUT=<file>: write this run's rows there instead of seeded/MATRIX.json (tools/seedmatrix_par.py runs one
# process per group of properties - replay files are keyed by property, so processes must not share a property)
OUT = os.environ.get('SEEDM_OUT') or V + '/seeded/MATRIX.json'
ids = sys.argv[1:] or sorted(os.path.basename(d) for d in glob.glob(V + '/seeded/C*') if os.path.isdir(d))
try:
    matrix = json.load(open(OUT))
except Exception:
    matrix = {}
for sid in ids:
    d = os.path.join(V, 'seeded', sid)
    meta = json.load(open(os.path.join(d, 'meta.json')))
    prop = meta.get('property') or sid.split('-')[0]
    wt = tempfile.mkdtemp(prefix='seedm.', dir='/tmp')
    os.rmdir(wt)
    subprocess.check_call(['git', '-C', '/repo', 'worktree', 'add', '-q', '--detach', wt, 'HEAD'])
    row = {'property': prop, 'caught_by': [], 'tier': None}
    try:
        shutil.copy('/repo/Cargo.lock', os.path.join(wt, 'Cargo.lock'))
        subprocess.check_call(['git', '-C', wt, 'apply', os.path.join(d, 'patch.diff')])
        for tier in ('quick', 'thorough'):
            t0 = time.time()
            p = subprocess.run([V + '/check', prop, '--tier', tier, '--repo', wt], cwd=V, stdout=subprocess.PIPE, stderr=subprocess.STDOUT, text=True)
            keys = []
            for line in p.stdout.splitlines():
                m = re.match(r'VIOLATION property=\S+ replay=(\S+)', line)
                if m:
                    try:
                        keys.append(json.load(open(m.group(1)))['key'])
                    except Exception:
                        keys.append('?')
            row['exit_' + tier] = p.returncode
            row['wall_' + tier] = round(time.time() - t0, 1)
            if keys:
                row['caught_by'] = keys
                row['tier'] = tier
                break
            if p.returncode not in (0, 1):
                row['error'] = p.stdout[-800:]
        print(sid, prop, row['tier'], row['caught_by'][:3])
    finally:
        subprocess.call(['git', '-C', '/repo', 'worktree', 'remove', '--force', wt])
        h = hashlib.sha1(wt.encode()).hexdigest()[:8]
        for pre in ('target-all-', 'target-default-', 'target-witness-'):
            shutil.rmtree(os.path.join(V, '.cache', pre + h), ignore_errors=True)
    matrix[sid] = row
    json.dump(matrix, open(OUT, 'w'), indent=1, sort_keys=True)
missed = [k for k, v in matrix.items() if not v['caught_by']]
print('seeds', len(matrix), 'missed', missed)
