#!/usr/bin/env python3
"""gen_baseline.py : (re)generate vlib/baseline_fns.json from /repo HEAD — the functions the rule set was written
against: printed path -> signature key (argument and result types). Run only when /repo's reference commit changes."""
import sys, json, os
sys.path.insert(0, '/verif')
from vlib import facts, mir
out = {}
adts = {}
params = {}
for cfg in ('all', 'default'):
    f, info = facts.extract(cfg)
    for a in f['adts']:
        adts[a['path']] = [[[fl['name'], mir.ty_str(mir.strip_regions(fl['ty']))] for fl in v['fields']] for v in a['variants']]
    for fn in f['fns']:
        if fn['kind'] == 'Closure' or '{closure' in fn['dp']:
            continue
        sig = '(%s) -> %s' % (', '.join(mir.ty_str(mir.strip_regions(t)) for t in (fn.get('inputs') or [])), mir.ty_str(mir.strip_regions(fn.get('output'))) if fn.get('output') else '?')
        out[fn['path']] = sig
        params[fn['path']] = [fn['mir']['locals'][i].get('name') for i in range(1, fn['mir']['argc'] + 1)]
out['__adts__'] = adts
out['__params__'] = params
json.dump(out, open('/verif/vlib/baseline_fns.json', 'w'), indent=0, sort_keys=True)
print(len(out), 'functions')
