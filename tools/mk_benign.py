#!/usr/bin/env python3
"""Helper used while authoring the benign-variant corpus: apply textual replacements to a scratch worktree,
check that it still compiles (all features), save the diff."""
import sys, subprocess, os, json
WT = '/tmp/benign'


def mk(name, edits, note):
    subprocess.check_call(['git', '-C', WT, 'checkout', '-q', '--', '.'])
    for path, old, new in edits:
        p = os.path.join(WT, path)
        s = open(p).read()
        if s.count(old) != 1:
            print('!!', name, path, 'pattern count', s.count(old))
            return False
        open(p, 'w').write(s.replace(old, new))
    r = subprocess.run(['cargo', 'check', '--offline', '--all-features', '--lib'], cwd=WT, stdout=subprocess.PIPE, stderr=subprocess.STDOUT, text=True,
                       env=dict(os.environ, CARGO_NET_OFFLINE='true'))
    if r.returncode != 0:
        print('!!', name, 'does not compile\n', '\n'.join(l for l in r.stdout.splitlines() if l.startswith('error') or '-->' in l)[:1500])
        return False
    d = subprocess.check_output(['git', '-C', WT, 'diff'], text=True)
    open('/verif/selftest/benign/%s.diff' % name, 'w').write(d)
    open('/verif/selftest/benign/%s.note' % name, 'w').write(note + '\n')
    print('ok', name)
    return True
