#!/bin/bash
# validate_seed.sh <agent_out_dir> <N> <seed_id> : confirm a candidate seeded change in a scratch worktree:
#  - patch applies to /repo HEAD, both test suites pass with it
#  - demo passes on HEAD and fails with the patch
# On success copies patch/demo/meta into /verif/seeded/<seed_id>/.
set -u
OUT=$1; N=$2; ID=$3
WT=$(mktemp -d /tmp/seedval.XXXXXX)
LOG=/tmp/seedval-$ID.log
exec >"$LOG" 2>&1
git -C /repo worktree add -q --detach "$WT" HEAD || exit 2
cd "$WT"
export CARGO_NET_OFFLINE=true CARGO_TARGET_DIR=$WT/target
feat=""
grep -q 'cfg(feature' "$OUT/demo$N.rs" && feat="--all-features"
grep -q 'serde\|rayon' "$OUT/demo$N.rs" && feat="--all-features"
cp "$OUT/demo$N.rs" tests/demo.rs
echo "== demo on HEAD"
cargo test --offline $feat --test demo 2>&1 | tail -15
head_rc=${PIPESTATUS[0]}
git apply "$OUT/mut$N.patch" || { echo "PATCH DOES NOT APPLY"; cd /; git -C /repo worktree remove --force "$WT"; exit 3; }
echo "== demo with patch"
cargo test --offline $feat --test demo 2>&1 | tail -25
patch_rc=${PIPESTATUS[0]}
rm tests/demo.rs
echo "== default suite with patch"
cargo test --offline 2>&1 | grep -E "^test result|FAILED|panicked|error(\[|:)" | head
def_rc=${PIPESTATUS[0]}
echo "== all-features suite with patch"
cargo test --offline --all-features 2>&1 | grep -E "^test result|FAILED|panicked|error(\[|:)" | head
all_rc=${PIPESTATUS[0]}
echo "RESULT head_rc=$head_rc patch_rc=$patch_rc default_rc=$def_rc all_rc=$all_rc"
cd /
git -C /repo worktree remove --force "$WT"
if [ "$head_rc" = 0 ] && [ "$patch_rc" != 0 ] && [ "$def_rc" = 0 ] && [ "$all_rc" = 0 ]; then
  mkdir -p /verif/seeded/$ID
  cp "$OUT/mut$N.patch" /verif/seeded/$ID/patch.diff
  cp "$OUT/demo$N.rs" /verif/seeded/$ID/demo.rs
  python3 - "$OUT/meta$N.json" "$ID" "$feat" <<'PY'
import json,sys
src,ID,feat=sys.argv[1:4]
try: m=json.load(open(src))
except Exception as e: m={'summary':'(agent meta unreadable: %s)'%e}
meta={'id':ID,'property':m.get('property'),'summary':m.get('summary'),'needs_to_manifest':m.get('needs_to_manifest'),
 'files':m.get('files'),
 'confirmed_by_me':{'how':'tools/validate_seed.sh in a scratch worktree of /repo HEAD','demo_on_head':'pass','demo_with_patch':'FAIL',
   'default_suite_with_patch':'pass (cargo test --offline)','all_features_suite_with_patch':'pass (cargo test --offline --all-features)',
   'demo_features':feat or 'default'},
 'agent_meta':m}
json.dump(meta,open('/verif/seeded/%s/meta.json'%ID,'w'),indent=1)
PY
  echo "KEPT $ID"
else
  echo "REJECTED $ID"
fi
