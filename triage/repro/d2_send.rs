use brood::{entity, Registry, World, Query, query::{Views, result, filter}};
use std::rc::Rc;
use std::cell::Cell;
struct NotSync(Rc<Cell<u32>>);
type R = Registry!(NotSync);

#[test]
fn iter_is_send_with_nonsync_component() {
    let mut w = World::<R>::new();
    let rc = Rc::new(Cell::new(0));
    w.insert(entity!(NotSync(rc.clone())));
    let iter = w.query(Query::<Views!(&NotSync)>::new()).iter;
    std::thread::scope(|s| {
        s.spawn(move || {
            for result!(c) in iter { let _x = c.0.clone(); }
        });
    });
}

#[test]
fn entries_is_send_with_nonsync_component() {
    let mut w = World::<R>::new();
    let rc = Rc::new(Cell::new(0));
    let id = w.insert(entity!(NotSync(rc.clone())));
    let mut entries = w.query(Query::<Views!(), filter::None, Views!(), Views!(&NotSync)>::new()).entries;
    std::thread::scope(|s| {
        s.spawn(move || {
            let mut e = entries.entry(id).unwrap();
            let result!(c) = e.query(Query::<Views!(&NotSync)>::new()).unwrap();
            let _x = c.0.clone();
        });
    });
}
