use brood::{entities, entity, Registry, World, Query, query::{Views, result}};
use serde_derive::{Serialize, Deserialize};
#[derive(Clone, Debug, PartialEq, Serialize, Deserialize)]
struct A(u32);
type R = Registry!(A);

#[test]
fn lost_free_slot() {
    let mut w = World::<R>::new();
    let a = w.insert(entity!(A(1)));
    let b = w.insert(entity!(A(2)));
    let c = w.insert(entity!(A(3)));
    w.remove(a);
    w.remove(b);
    // free list = [0,1]; batch of 1
    let ids = w.extend(entities!((A(9)); 1));
    println!("ids {:?}", ids);
    // now insert 1 more: should reuse slot 1
    let d = w.insert(entity!(A(10)));
    println!("d {:?} c {:?}", d, c);
    let s = serde_json::to_string(&w).unwrap();
    println!("{}", s);
    let r: Result<World<R>, _> = serde_json::from_str(&s);
    match r { Ok(w2) => assert!(w2 == w), Err(e) => panic!("roundtrip failed: {e}") }
}

#[test]
fn lost_free_slot_empty_batch() {
    let mut w = World::<R>::new();
    let a = w.insert(entity!(A(1)));
    w.remove(a);
    let ids = w.extend(entities!((A(9)); 0));
    assert!(ids.is_empty());
    let s = serde_json::to_string(&w).unwrap();
    let r: Result<World<R>, _> = serde_json::from_str(&s);
    match r { Ok(w2) => assert!(w2 == w), Err(e) => panic!("roundtrip failed: {e}") }
}
