use brood::{entity, Registry, World, query::{Views, result, filter, Result}, registry, system::{System, schedule, schedule::task}};
use std::sync::atomic::{AtomicUsize, Ordering::SeqCst};
use std::time::Duration;

struct A(u32);
struct B(u32);
type R = Registry!(A, B);

static IN_B: AtomicUsize = AtomicUsize::new(0);
static OVERLAP: AtomicUsize = AtomicUsize::new(0);

struct T1;
impl System for T1 {
    type Views<'a> = Views!(&'a mut A);
    type Filter = filter::None;
    type ResourceViews<'a> = Views!();
    type EntryViews<'a> = Views!();
    fn run<'a, R, S, I, E>(&mut self, q: Result<R, S, I, Self::ResourceViews<'a>, Self::EntryViews<'a>, E>)
    where R: registry::Registry, I: Iterator<Item = Self::Views<'a>> {
        for result!(a) in q.iter { a.0 += 1; }
        std::thread::sleep(Duration::from_millis(300));
    }
}
struct T2(&'static str);
impl System for T2 {
    type Views<'a> = Views!(&'a mut B);
    type Filter = filter::None;
    type ResourceViews<'a> = Views!();
    type EntryViews<'a> = Views!();
    fn run<'a, R, S, I, E>(&mut self, q: Result<R, S, I, Self::ResourceViews<'a>, Self::EntryViews<'a>, E>)
    where R: registry::Registry, I: Iterator<Item = Self::Views<'a>> {
        let n = IN_B.fetch_add(1, SeqCst);
        if n > 0 { OVERLAP.fetch_add(1, SeqCst); }
        for result!(b) in q.iter { b.0 += 1; }
        std::thread::sleep(Duration::from_millis(300));
        IN_B.fetch_sub(1, SeqCst);
    }
}

#[test]
fn add_on_overlaps_conflicting_task() {
    let pool = rayon::ThreadPoolBuilder::new().num_threads(4).build().unwrap();
    let mut hits = 0;
    for _ in 0..5 {
        let mut w = World::<R>::new();
        w.insert(entity!(A(0), B(0)));
        let mut sched = schedule!(task::System(T1), task::System(T2("x")), task::System(T2("y")));
        pool.install(|| w.run_schedule(&mut sched));
        hits += OVERLAP.swap(0, SeqCst);
    }
    assert_eq!(hits, 0, "two &mut B tasks overlapped");
}
