use brood::{entity, Registry, World, Query, query::{Views, result, filter}};
struct A(u32);
type R = Registry!(A);

#[test]
fn two_mut_refs_from_repeated_entry_query() {
    let mut w = World::<R>::new();
    let id = w.insert(entity!(A(0)));
    let mut qr = w.query(Query::<Views!(), filter::None, Views!(), Views!(&mut A)>::new());
    let mut entry = qr.entries.entry(id).unwrap();
    let result!(a1) = entry.query(Query::<Views!(&mut A)>::new()).unwrap();
    let result!(a2) = entry.query(Query::<Views!(&mut A)>::new()).unwrap();
    a1.0 += 1;
    a2.0 += 1;
    assert_eq!(a1.0, 2);
}

#[test]
fn two_mut_refs_from_two_entries() {
    let mut w = World::<R>::new();
    let id = w.insert(entity!(A(0)));
    let mut qr = w.query(Query::<Views!(), filter::None, Views!(), Views!(&mut A)>::new());
    let a1 = { let mut entry = qr.entries.entry(id).unwrap(); let result!(a1) = entry.query(Query::<Views!(&mut A)>::new()).unwrap(); a1 };
    let a2 = { let mut entry = qr.entries.entry(id).unwrap(); let result!(a2) = entry.query(Query::<Views!(&mut A)>::new()).unwrap(); a2 };
    a1.0 += 1;
    a2.0 += 1;
    assert_eq!(a1.0, 2);
}
