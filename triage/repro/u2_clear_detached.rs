use brood::{entity, Registry, World};
use std::sync::atomic::{AtomicUsize, Ordering::SeqCst};
use std::sync::Mutex;
use std::collections::HashMap;
use std::panic::{catch_unwind, AssertUnwindSafe};
static NEXT: AtomicUsize = AtomicUsize::new(1);
static PANIC_DROP_ID: AtomicUsize = AtomicUsize::new(0);
static LEDGER: Mutex<Option<HashMap<usize, i32>>> = Mutex::new(None);
fn born(id: usize) { LEDGER.lock().unwrap().get_or_insert_with(HashMap::new).insert(id, 0); }
fn died(id: usize) { *LEDGER.lock().unwrap().get_or_insert_with(HashMap::new).entry(id).or_insert(0) += 1; }
struct T(usize);
impl T { fn new() -> Self { let id = NEXT.fetch_add(1, SeqCst); born(id); T(id) } }
impl Clone for T { fn clone(&self) -> Self { T::new() } }
impl Drop for T { fn drop(&mut self) { died(self.0); if PANIC_DROP_ID.load(SeqCst) == self.0 { PANIC_DROP_ID.store(0, SeqCst); panic!("drop") } } }
#[derive(Clone)] struct U(u8);
type R = Registry!(T, U);
fn doubles() -> Vec<(usize, i32)> { LEDGER.lock().unwrap().as_ref().unwrap().iter().filter(|(_, &n)| n > 1).map(|(a, b)| (*a, *b)).collect() }
// destination holds an archetype {T} that the source lacks: clone_from clears it with clear_detached
#[test]
fn clone_from_clear_detached_panicking_drop() {
    let mut dst = World::<R>::new();
    let t0 = T::new(); let id0 = t0.0;
    dst.insert(entity!(t0));
    dst.insert(entity!(T::new()));
    dst.insert(entity!(T::new()));
    let mut src = World::<R>::new();
    src.insert(entity!(U(1)));
    PANIC_DROP_ID.store(id0, SeqCst);
    let r = catch_unwind(AssertUnwindSafe(|| dst.clone_from(&src)));
    assert!(r.is_err());
    drop(dst); drop(src);
    assert_eq!(doubles(), vec![], "double drops after clone_from/clear_detached panic");
}
