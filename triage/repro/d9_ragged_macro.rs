use brood::{entities, Registry, World, Query, query::{Views, result}};
#[derive(Clone, Debug, PartialEq)]
struct A(u64);
#[derive(Clone, Debug, PartialEq)]
struct B(u64);
type R = Registry!(A, B);

// The count expression of `entities!((..); n)` is evaluated once per column. With a side effect the
// columns get different lengths, and the unchecked constructor is used: a ragged batch in safe code.
#[test]
fn ragged_batch_through_safe_macro() {
    let mut calls = 0usize;
    let mut next = || { calls += 1; calls * 2 }; // 2, then 4
    let batch = entities!((A(7), B(9)); next());
    let mut world = World::<R>::new();
    let ids = world.extend(batch);
    // one identifier per row: but which row count? columns have 2 and 4 values
    let mut seen_a = 0; let mut seen_b = 0;
    for result!(a, b) in world.query(Query::<Views!(&A, &B)>::new()).iter {
        seen_a += (a.0 == 7) as usize; seen_b += (b.0 == 9) as usize;
    }
    assert_eq!((ids.len(), seen_a, seen_b), (2, 2, 2), "columns are ragged: A column has 2 values, B column has 4");
    assert_eq!(calls, 1, "count expression evaluated more than once");
}
