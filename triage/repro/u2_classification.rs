use brood::{entity, Registry, World};
use std::sync::atomic::{AtomicUsize, AtomicBool, Ordering::SeqCst};
use std::sync::Mutex;
use std::collections::HashMap;
use std::panic::{catch_unwind, AssertUnwindSafe};

static NEXT: AtomicUsize = AtomicUsize::new(1);
static PANIC_CLONE_AT: AtomicUsize = AtomicUsize::new(0);
static PANIC_DROP_ID: AtomicUsize = AtomicUsize::new(0);
static LEDGER: Mutex<Option<HashMap<usize, i32>>> = Mutex::new(None);
static LOCK: Mutex<()> = Mutex::new(());

fn born(id: usize) { LEDGER.lock().unwrap().get_or_insert_with(HashMap::new).insert(id, 0); }
fn died(id: usize) { *LEDGER.lock().unwrap().get_or_insert_with(HashMap::new).entry(id).or_insert(0) += 1; }
fn reset() { *LEDGER.lock().unwrap() = Some(HashMap::new()); PANIC_CLONE_AT.store(0, SeqCst); PANIC_DROP_ID.store(0, SeqCst); }
fn doubles() -> Vec<(usize, i32)> { let mut v: Vec<_> = LEDGER.lock().unwrap().as_ref().unwrap().iter().filter(|(_, &n)| n > 1).map(|(a, b)| (*a, *b)).collect(); v.sort(); v }
fn leaks() -> usize { LEDGER.lock().unwrap().as_ref().unwrap().iter().filter(|(_, &n)| n == 0).count() }

struct T(usize);
impl T { fn new() -> Self { let id = NEXT.fetch_add(1, SeqCst); born(id); T(id) } }
impl Clone for T { fn clone(&self) -> Self { let n = PANIC_CLONE_AT.load(SeqCst); if n == 1 { panic!("clone") } if n > 1 { PANIC_CLONE_AT.store(n - 1, SeqCst); } T::new() } }
impl Drop for T { fn drop(&mut self) { died(self.0); if PANIC_DROP_ID.load(SeqCst) == self.0 { PANIC_DROP_ID.store(0, SeqCst); panic!("drop") } } }
#[derive(Clone)]
struct U(u8);
type R = Registry!(U, T);

#[test]
fn clear_panicking_drop() {
    let _g = LOCK.lock().unwrap_or_else(|e| e.into_inner()); reset();
    let mut w = World::<R>::new();
    let t0 = T::new(); let id0 = t0.0;
    w.insert(entity!(t0, U(0)));
    w.insert(entity!(T::new(), U(1)));
    w.insert(entity!(T::new(), U(2)));
    PANIC_DROP_ID.store(id0, SeqCst);
    let r = catch_unwind(AssertUnwindSafe(|| w.clear()));
    assert!(r.is_err());
    drop(w);
    println!("clear: doubles={:?} leaks={}", doubles(), leaks());
    assert_eq!(doubles(), vec![]);
}
#[test]
fn world_drop_panicking_drop() {
    let _g = LOCK.lock().unwrap_or_else(|e| e.into_inner()); reset();
    let mut w = World::<R>::new();
    let t0 = T::new(); let id0 = t0.0;
    w.insert(entity!(t0, U(0)));
    w.insert(entity!(T::new(), U(1)));
    PANIC_DROP_ID.store(id0, SeqCst);
    let r = catch_unwind(AssertUnwindSafe(|| drop(w)));
    assert!(r.is_err());
    println!("drop: doubles={:?} leaks={}", doubles(), leaks());
    assert_eq!(doubles(), vec![]);
}
#[test]
fn overwrite_panicking_drop() {
    let _g = LOCK.lock().unwrap_or_else(|e| e.into_inner()); reset();
    let mut w = World::<R>::new();
    let t0 = T::new(); let id0 = t0.0;
    let e = w.insert(entity!(t0, U(0)));
    PANIC_DROP_ID.store(id0, SeqCst);
    let r = catch_unwind(AssertUnwindSafe(|| w.entry(e).unwrap().add(T::new())));
    assert!(r.is_err());
    drop(w);
    println!("overwrite: doubles={:?} leaks={}", doubles(), leaks());
    assert_eq!(doubles(), vec![]);
}
#[test]
fn clone_panicking_clone() {
    let _g = LOCK.lock().unwrap_or_else(|e| e.into_inner()); reset();
    let mut w = World::<R>::new();
    for _ in 0..3 { w.insert(entity!(T::new(), U(0))); }
    PANIC_CLONE_AT.store(2, SeqCst);
    let r = catch_unwind(AssertUnwindSafe(|| w.clone()));
    assert!(r.is_err());
    drop(w);
    println!("clone: doubles={:?} leaks={}", doubles(), leaks());
    assert_eq!(doubles(), vec![]);
}
