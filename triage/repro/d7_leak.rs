use brood::{entity, Registry, World};
use std::sync::atomic::{AtomicUsize, Ordering::SeqCst};
static DROPS: AtomicUsize = AtomicUsize::new(0);
struct T(u8);
impl Drop for T { fn drop(&mut self) { DROPS.fetch_add(1, SeqCst); } }
struct U(u8);
type R = Registry!(T, U);
#[test]
fn entry_remove_drops_component() {
    let mut w = World::<R>::new();
    let e = w.insert(entity!(T(1), U(2)));
    w.entry(e).unwrap().remove::<T, _>();
    assert_eq!(DROPS.load(SeqCst), 1, "removed component must be dropped at removal");
    drop(w);
    assert_eq!(DROPS.load(SeqCst), 1);
}
