use brood::{entity, entities, Registry, World};
use std::sync::atomic::{AtomicUsize, AtomicBool, Ordering::SeqCst};
use std::sync::Mutex;
use std::collections::HashMap;
use std::panic::{catch_unwind, AssertUnwindSafe};

static NEXT: AtomicUsize = AtomicUsize::new(1);
static PANIC_CLONE: AtomicBool = AtomicBool::new(false);
static PANIC_DROP_ID: AtomicUsize = AtomicUsize::new(0);
static LEDGER: Mutex<Option<HashMap<usize, i32>>> = Mutex::new(None);

fn born(id: usize) { LEDGER.lock().unwrap().get_or_insert_with(HashMap::new).insert(id, 0); }
fn died(id: usize) { *LEDGER.lock().unwrap().get_or_insert_with(HashMap::new).entry(id).or_insert(0) += 1; }

struct T(usize);
impl T { fn new() -> Self { let id = NEXT.fetch_add(1, SeqCst); born(id); T(id) } }
impl Clone for T { fn clone(&self) -> Self { if PANIC_CLONE.load(SeqCst) { panic!("clone") } T::new() } }
impl Drop for T { fn drop(&mut self) { died(self.0); if PANIC_DROP_ID.load(SeqCst) == self.0 { PANIC_DROP_ID.store(0, SeqCst); panic!("drop") } } }
#[derive(Clone)]
struct U(u8);
type R = Registry!(T, U);

fn doubles() -> Vec<(usize, i32)> { LEDGER.lock().unwrap().as_ref().unwrap().iter().filter(|(_, &n)| n > 1).map(|(a, b)| (*a, *b)).collect() }

#[test]
fn clone_from_panicking_clone() {
    let mut dst = World::<R>::new();
    for _ in 0..4 { dst.insert(entity!(T::new(), U(0))); }
    let mut src = World::<R>::new();
    for _ in 0..2 { src.insert(entity!(T::new(), U(0))); }
    PANIC_CLONE.store(true, SeqCst);
    let r = catch_unwind(AssertUnwindSafe(|| dst.clone_from(&src)));
    PANIC_CLONE.store(false, SeqCst);
    assert!(r.is_err());
    drop(dst);
    drop(src);
    assert_eq!(doubles(), vec![], "double drops after clone_from panic");
}

#[test]
fn remove_panicking_drop() {
    let mut w = World::<R>::new();
    let t0 = T::new(); let id0 = t0.0;
    let e0 = w.insert(entity!(t0, U(0)));
    w.insert(entity!(T::new(), U(1)));
    w.insert(entity!(T::new(), U(2)));
    PANIC_DROP_ID.store(id0, SeqCst);
    let r = catch_unwind(AssertUnwindSafe(|| w.remove(e0)));
    assert!(r.is_err());
    drop(w);
    assert_eq!(doubles(), vec![], "double drops after remove panic");
}
