#!/usr/bin/env python3
"""dev tool: dump MIR of functions whose path contains the argument"""
import sys, json
sys.path.insert(0, '/verif')
from vlib import facts, mir
cfg = 'all'
repo = None
args = sys.argv[1:]
if args and args[0] in ('all', 'default'):
    cfg = args.pop(0)
if args and args[0].startswith('/'):
    repo = args.pop(0)
f, info = facts.extract(cfg, repo)
P = mir.Program(f)
for fn in P.fns.values():
    if all(a in fn.path or a in fn.dp for a in args):
        print('=====', fn.path, '|', fn.dp, '|', fn.loc())
        print(fn.body.dump())
