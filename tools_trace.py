#!/usr/bin/env python3
"""dev tool: print absint traces of functions whose path contains all args"""
import sys
sys.path.insert(0, '/verif')
from vlib import facts, mir, absint
args = sys.argv[1:]
cfg = 'all'; repo = None
if args and args[0] in ('all', 'default'): cfg = args.pop(0)
if args and args[0].startswith('/'): repo = args.pop(0)
f, _ = facts.extract(cfg, repo)
P = mir.Program(f)
for fn in P.fns.values():
    if fn.kind != 'Closure' and all(a in fn.path or a in fn.dp for a in args):
        it, paths = absint.interpret(P, fn)
        print('=====', fn.path, fn.loc(), 'paths=%d' % len(paths), 'TRUNC' if it.truncated else '')
        for i, p in enumerate(paths):
            print('  -- path %d (%s) conds=%s' % (i, p.ended, [c[:1] + c[3:] if c[0] in ('bit', 'typeid_eq') else c[0] for c in p.conds]))
            for e in p.events:
                print('      ', absint.describe_event(e))
