#!/usr/bin/env python3
"""dev tool: run a witness family and print verdicts"""
import sys, time
sys.path.insert(0, '/verif')
from vlib import engine, witness, families
fam = sys.argv[1]; tier = sys.argv[2] if len(sys.argv) > 2 else 'quick'
repo = sys.argv[3] if len(sys.argv) > 3 and sys.argv[3].startswith('/') else None
ctx = engine.Ctx(repo, tier)
t0 = time.time()
res = witness.FAMILIES[fam].run(ctx, tier, 0)
print('programs', res['programs'], 'violations', len(res['violations']), 'wall %.1fs' % (time.time() - t0))
for v in res['violations']:
    print('!!', v.key, '|', v.msg[:200])
    if '-v' in sys.argv and v.detail: print(v.detail.get('rustc', '')[:1200])
