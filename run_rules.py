#!/usr/bin/env python3
"""dev tool: run named rules (or all) and print results"""
import sys
sys.path.insert(0, '/verif')
from vlib import engine, mir
import vlib.allrules
args = sys.argv[1:]
repo = None
cfg = 'all'
if args and args[0].startswith('/'):
    repo = args.pop(0)
if args and args[0] in ('all', 'default'):
    cfg = args.pop(0)
ctx = engine.Ctx(repo)
for rid in sorted(engine.RULES):
    if args and rid not in args:
        continue
    ru = engine.RULES[rid]
    if cfg not in ru.configs:
        continue
    try:
        res = ru.fn(ctx.prog(cfg))
    except Exception as e:
        import traceback; traceback.print_exc()
        print(rid, 'CRASH', e)
        continue
    print('%-6s inst=%-4d floor=%-3d viol=%d %s' % (rid, len(res.instances), ru.floor_for(cfg), len(res.violations), '' if len(res.instances) >= ru.floor_for(cfg) else 'BELOW FLOOR'))
    if '-v' in sys.argv:
        for i in res.instances: print('     .', i)
    for v in res.violations:
        print('   !!', v.key, v.where, '|', v.msg, v.detail or '')
