"""Tiny symbolic layer: linear integer expressions over opaque atoms, evaluated by following unique
definitions in MIR. This is dataflow over expression *shape*; nothing is executed."""
from .mir import *


class Lin:
    def __init__(self, terms=None, const=0):
        self.terms = {k: v for k, v in (terms or {}).items() if v != 0}
        self.const = const

    @staticmethod
    def atom(a):
        return Lin({a: 1}, 0)

    @staticmethod
    def k(c):
        return Lin({}, c)

    def __add__(self, o):
        t = dict(self.terms)
        for k, v in o.terms.items():
            t[k] = t.get(k, 0) + v
        return Lin(t, self.const + o.const)

    def __sub__(self, o):
        t = dict(self.terms)
        for k, v in o.terms.items():
            t[k] = t.get(k, 0) - v
        return Lin(t, self.const - o.const)

    def scale(self, c):
        return Lin({k: v * c for k, v in self.terms.items()}, self.const * c)

    def is_const(self):
        return not self.terms

    def __eq__(self, o):
        return isinstance(o, Lin) and self.terms == o.terms and self.const == o.const

    def __hash__(self):
        return hash((tuple(sorted(self.terms.items())), self.const))

    def __repr__(self):
        parts = []
        for k, v in sorted(self.terms.items(), key=lambda kv: str(kv[0])):
            parts.append(('%+d*' % v if v not in (1, -1) else ('+' if v == 1 else '-')) + str(k))
        if self.const or not parts:
            parts.append('%+d' % self.const)
        return ' '.join(parts).lstrip('+')


class SymEval:
    """atomizer(kind, payload, pos) -> atom or Lin or None.
       kind='place': payload=place dict read at pos=(block, stmt_index|None)
       kind='call': payload=call terminator, pos=(block, None)
       kind='const': payload=const dict (unevaluated / named)"""

    def __init__(self, prog, body, atomizer=None):
        self.prog = prog
        self.body = body
        self.atomizer = atomizer or self.default_atomizer

    def default_atomizer(self, kind, payload, pos):
        if kind == 'place':
            return access_field_names(self.prog, self.body, normalize_access(access_of_place(self.body, payload)))
        if kind == 'const':
            args = [ty_str(a) for a in payload.get('uneval_args', []) if a.get('k') != 'region']
            return payload['uneval_name'] + '<' + ','.join(args) + '>'
        if kind == 'call':
            f = payload['f']
            if 'path' in f and f['name'] in ('len',) and payload['args']:
                return 'len(%s)' % receiver_name(self.prog, self.body, payload['args'][0])
        return None

    def wrap(self, x):
        if x is None:
            return None
        if isinstance(x, Lin):
            return x
        return Lin.atom(x)

    def operand(self, op, pos, depth=0):
        if depth > 30:
            return None
        if 'const' in op:
            c = op['const']
            if 'val' in c:
                return Lin.k(c['val'])
            if 'uneval' in c:
                return self.wrap(self.atomizer('const', c, pos))
            return None
        p = op_place(op)
        if p is None:
            return None
        return self.place(p, pos, depth)

    def place(self, p, pos, depth=0):
        if p['p']:
            return self.wrap(self.atomizer('place', p, pos))
        return self.local(p['l'], pos, depth)

    def local(self, l, pos, depth=0):
        d = single_def(self.body, l)
        if d is None:
            return self.wrap(self.atomizer('place', {'l': l, 'p': []}, pos))
        if d[0] == 'assign':
            _, b, i, s = d
            return self.rvalue(s['rv'], (b, i), depth + 1)
        _, b, t = d
        f = t['f']
        if 'path' in f:
            n = f['name']
            if n in ('wrapping_sub', 'unchecked_sub', 'saturating_sub') and len(t['args']) == 2:
                a, c = self.operand(t['args'][0], (b, None), depth + 1), self.operand(t['args'][1], (b, None), depth + 1)
                return a - c if a is not None and c is not None else None
            if n in ('wrapping_add', 'unchecked_add') and len(t['args']) == 2:
                a, c = self.operand(t['args'][0], (b, None), depth + 1), self.operand(t['args'][1], (b, None), depth + 1)
                return a + c if a is not None and c is not None else None
        return self.wrap(self.atomizer('call', t, (b, None)))

    def rvalue(self, rv, pos, depth=0):
        k = rv['k']
        if k == 'use':
            return self.operand(rv['op'], pos, depth)
        if k == 'cast' and rv['cast'].startswith('IntToInt'):
            return self.operand(rv['op'], pos, depth)
        if k == 'binop':
            a = self.operand(rv['a'], pos, depth)
            c = self.operand(rv['b'], pos, depth)
            if a is None or c is None:
                return None
            op = rv['op']
            if op.startswith('Add'):
                return a + c
            if op.startswith('Sub'):
                return a - c
            if op.startswith('Mul'):
                if a.is_const():
                    return c.scale(a.const)
                if c.is_const():
                    return a.scale(c.const)
            return None
        return None

    def condition(self, l):
        """Symbolic comparison defining bool local l → (op, Lin lhs-rhs, pos) with op in Lt/Le/Gt/Ge/Eq/Ne."""
        d = single_def(self.body, l)
        if d is None or d[0] != 'assign':
            return None
        _, b, i, s = d
        rv = s['rv']
        if rv['k'] == 'binop' and rv['op'] in ('Lt', 'Le', 'Gt', 'Ge', 'Eq', 'Ne'):
            a = self.operand(rv['a'], (b, i))
            c = self.operand(rv['b'], (b, i))
            if a is None or c is None:
                return None
            return (rv['op'], a - c, (b, i))
        if rv['k'] == 'use':
            ll = op_local(rv['op'])
            if ll is not None:
                return self.condition(ll)
        if rv['k'] == 'unop' and rv['op'] == 'Not':
            ll = op_local(rv['a'])
            inner = self.condition(ll) if ll is not None else None
            if inner:
                neg = {'Lt': 'Ge', 'Le': 'Gt', 'Gt': 'Le', 'Ge': 'Lt', 'Eq': 'Ne', 'Ne': 'Eq'}
                return (neg[inner[0]], inner[1], inner[2])
        return None


def pos_after(body, pos, wpos):
    """Is program point pos strictly after point wpos on some path (same block later, or reachable)?"""
    b, i = pos
    wb, wi = wpos
    if b == wb:
        if i is None:
            i = 10 ** 6
        if wi is None:
            wi = 10 ** 6
        if i > wi:
            return True
        return b in body.reachable_after(wb)   # loop
    return b in body.reachable_after(wb)


def switch_on(body, cond_local):
    """Switch terminators testing bool local → list of (block, true_target, false_target)."""
    out = []
    for b in range(body.n):
        t = body.term(b)
        if t['k'] == 'switch' and op_local(t['discr']) == cond_local and 0 in t['values']:
            ft = t['targets'][t['values'].index(0)]
            out.append((b, t['otherwise'], ft))
    return out
