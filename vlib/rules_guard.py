"""G rules (constructors / guards), T4 (filter tables), E (equality coverage), R (resources), P6/P7."""
import json
from .engine import rule, Result
from .mir import *
from . import pathsem
from .sym import SymEval, Lin
from . import boolfn
from .rules_tables import view_kind_of, kind_str, trait_args, impl_loc


def aggregates_of(prog, adt_path):
    out = []
    for fn in prog.fns.values():
        for b, i, s in fn.body.stmts():
            if s['k'] == 'assign' and s['rv']['k'] == 'agg' and s['rv']['agg'] == 'adt' and s['rv']['path'] == adt_path:
                out.append((fn, b, i, s))
    return out


def owner_fn(prog, fn):
    """Closures: the enclosing fn."""
    while fn.kind == 'Closure' and fn.parent in prog.fns:
        fn = prog.fns[fn.parent]
    return fn


@rule('G3', props=['C18', 'C11'], floor=3, configs=('all', 'default'))
def g3_world_construction(prog):
    """A World value is only ever built (a) in a function where the aggregate is dominated by a call of
    the registry's assert_no_duplicates, or (b) in Clone::clone of World (copy of a validated
    registry type); every function returning a World reaches one through (a). The assertion walks
    every component: inserts TypeId::of::<C>() of the head, panics when the insert reports a
    duplicate, and recurses into the tail."""
    r = Result()
    aggs = aggregates_of(prog, 'world::World')
    checked_ctors = set()
    S = pathsem.strip_refs

    def is_world_clone(fn):
        return fn.name == 'clone' and 'core::clone::Clone for world::World' in fn.path

    def verdict(top, builder=None):
        """Over the returning paths of `top` that build a World (an aggregate, or a call of the unchecked assembler
        `builder`): -> 'ok' | 'bad' (a building path without the assertion before it) | 'wrong' (assertion on another
        type) | 'cut'"""
        E = pathsem.analyse(prog, top)
        rets = [p for p in E.paths if p.ended == 'return']
        if E.truncated or not rets:
            return 'cut'
        reg = None
        if top.impl and top.impl['self'].get('k') == 'adt':
            ga = [a_ for a_ in top.impl['self']['args'] if a_.get('k') != 'region']
            reg = ga[0] if ga else None
        bad = wrong = False
        for p in rets:
            if builder is None:
                at = None
                builds = any(isinstance(t, tuple) and t[0] == 'agg' and t[1] == 'world::World'
                             for root in [p.ret] + [e['value'] for e in p.events if e['k'] == 'store'] + [a_ for e in p.events if e['k'] == 'call' for a_ in e['args']]
                             for t in pathsem.subterms(root))
            else:
                calls = p.calls(lambda e: (e['f'].get('res') or e['f']).get('dp') == builder.dp)
                builds = bool(calls)
                at = calls[0]['i'] if calls else None
            if not builds:
                continue
            asserts = p.calls(lambda e: e['name'] == 'assert_no_duplicates' and (at is None or e['i'] < at))
            if not asserts:
                bad = True
            elif reg is not None and top.impl['self'].get('path', '').endswith('world::World') and not any(e['gargs'] and json.loads(e['gargs'][0]) == json.loads(pathsem.ty_key(strip_regions(reg))) for e in asserts):
                wrong = True
        return 'bad' if bad else 'wrong' if wrong else 'ok'

    def settle(fn, builder, depth, key):
        """fn builds a World (itself, or through the unchecked assembler `builder`). Either it asserts first, or it is
        crate-private and every one of its callers does (the assembler pattern: `from_raw_parts` + checked callers)."""
        top = owner_fn(prog, fn) if fn.kind == 'Closure' else fn
        v = verdict(top, builder)
        if v == 'cut':
            r.viol('G3', key + '/not-analysable', fn.loc(), 'path enumeration cut off')
            return
        if v == 'wrong':
            r.viol('G3', key + '/assert-on-other-type', fn.loc(), 'duplicate assertion is not applied to the world\'s registry type')
            return
        if v == 'ok':
            checked_ctors.add(top.dp)
            return
        callers = {}
        for g in prog.fns.values():
            if g.dp != top.dp and g.body is not None and g.body.calls(lambda c: (c.get('res') or c).get('dp') == top.dp):
                gt = owner_fn(prog, g) if g.kind == 'Closure' else g
                callers[gt.dp] = gt
        if top.d.get('exported') or not callers or depth >= 3:
            r.viol('G3', key + '/unchecked-world', fn.loc(),
                   'a World is built here on a path without a duplicate-component assertion: a registry listing one type twice would be accepted and alias its columns')
            return
        for g in callers.values():
            r.inst('World assembled through %s in %s' % (top.name, g.path[:80]))
            if is_world_clone(g):
                continue        # a copy of a World whose registry type was validated when it was made
            settle(g, top, depth + 1, g.path)
    for fn in {fn.dp: fn for fn, b, i, s in aggs}.values():
        key = fn.path
        r.inst('World aggregate in %s' % key)
        if is_world_clone(fn):
            continue
        settle(fn, None, 0, key)
    if not checked_ctors:
        r.viol('G3', 'no-checked-constructor', '-', 'no World constructor with a duplicate assertion found')
    # every fn whose output type is World / Result<World,..> (exported or not) and that does not take a
    # World: must obtain it from a checked constructor or another such function (call graph, depth-first)
    def returns_world(f):
        out = f.d.get('output')
        return out is not None and ty_mentions(out, lambda n: is_adt(n, 'world::World')) and out.get('k') not in ('ref', 'ptr')

    producers = {}
    for f in prog.fns.values():
        if f.kind == 'AssocFn' or f.kind == 'Fn':
            if returns_world(f):
                producers[f.dp] = f
    world_aggs = {fn.dp for fn, _, _, _ in aggs}
    for dp, f in producers.items():
        if dp in world_aggs:
            continue
        # must call another producer (resolved) or trait method returning Self
        body = f.body
        callees = []
        for b, t in body.calls():
            tgt = t['f'].get('res', t['f'])
            if tgt.get('dp') in producers:
                callees.append(tgt['dp'])
        r.inst('World producer %s -> %s' % (f.path[:90], [prog.fns[c].name for c in callees]))
        if not callees:
            # deserialization goes through a visitor: accept calls that return Result<World> by delegation
            deleg = [t for b, t in body.calls(lambda c: c['name'] in ('deserialize_tuple', 'deserialize_struct', 'deserialize_seq', 'deserialize_map', 'deserialize_newtype_struct', 'next_element_seed', 'next_element', 'default', 'with_resources', 'new', 'clone', 'from_raw_parts'))]
            if not deleg and not any(f.dp.startswith(prog.fns[a].dp) for a in world_aggs):
                r.viol('G3', f.path + '/world-from-nowhere', f.loc(), 'function returns a World that does not come from a checked constructor')
    # the assertion itself
    for imp in prog.facts['impls']:
        if imp['trait'] and imp['trait']['path'].endswith('registry::sealed::assertions::Assertions') and imp['self'].get('k') == 'tuple':
            fs = [f for f in prog.impl_methods(imp) if f.name == 'assert_no_duplicates']
            if not fs:
                r.viol('G3', 'assert/missing', impl_loc(imp), 'assert_no_duplicates for a cons cell not found')
                continue
            f = fs[0]
            head = imp['self']['e'][0]
            tail = imp['self']['e'][1]
            r.inst('assert_no_duplicates for (C, R)')
            E = pathsem.analyse(prog, f)
            rets = [p for p in E.paths if p.ended == 'return']
            rep = set()

            def once(k, ln, msg, f=f, rep=rep):
                if k not in rep:
                    rep.add(k)
                    r.viol('G3', 'assert/' + k, f.loc(ln), msg)
            if E.truncated or not rets:
                once('not-analysable', None, 'path enumeration cut off (or the assertion never returns)')
                continue
            setp = ('p', 1, f.body.local_name(1) or '')

            def gty(e, i=0):
                g = [json.loads(x) for x in e['gargs']]
                return g[i] if len(g) > i else None
            for p in rets:
                tids = {e['ret']: e for e in p.calls(lambda e: e['path'] == 'core::any::TypeId::of')}
                ins = p.calls(lambda e: e['name'] == 'insert' and 'HashSet' in e['path'] and S(S(e['args'][0])) == setp)
                tails = p.calls(lambda e: e['name'] == 'assert_no_duplicates')
                if len(ins) != 1:
                    once('no-insert', None, 'assertion must insert the head TypeId into the set exactly once on every returning path (found %d)' % len(ins))
                else:
                    v = S(ins[0]['args'][1])
                    te = tids.get(v)
                    if te is None or not ty_eq(gty(te), strip_regions(head)):
                        once('inserts-other' if te is None else 'wrong-typeid', ins[0]['ln'], 'value inserted into the set is not TypeId::of::<C>() of the head component')
                    if p.lookup(ins[0]['ret']) is not True:
                        once('no-panic-on-duplicate', ins[0]['ln'], 'a duplicate TypeId (insert returned false) does not lead to a panic: the assertion returns normally')
                if len(tails) != 1 or not ty_eq(gty(tails[0]), strip_regions(tail)):
                    once('tail-dropped' if not tails else 'tail-skippable' if len(tails) == 1 else 'tail-dropped', None, 'assertion does not continue with the tail registry exactly once on every returning path: later components are not checked')
                elif S(S(tails[0]['args'][0])) != setp:
                    once('tail-other-set', tails[0]['ln'], 'the tail registry is checked against a different set: duplicates across head and tail go unnoticed')
    return r


def g4_tabulate(prog):
    """Small-scope decision of the column-length check, independent of how the recursion over the column list is
    written: the Length trait is unfolded over lists of 1..3 columns (calls on the j-th tail are walked in the cons impl,
    on the end of the list in the Null impl), and the path conditions of `check_len` and of the safe `Batch::new` are
    evaluated for every assignment of lengths 0..2 to the columns. `check_len` must be true exactly when all columns
    have one length; `Batch::new` must return (not panic) exactly then, with `len` = that length.
    -> {'check_len': (verdict, detail), 'new': (verdict, detail)}, verdict in 'ok' | 'bad' | 'unknown'"""
    import itertools
    S = pathsem.strip_refs
    out = {'check_len': ('unknown', 'not found'), 'new': ('unknown', 'not found')}
    tps = [t for t in prog.traits if t.endswith('entities::sealed::length::Length')]
    if len(tps) != 1:
        return out
    TP = tps[0]
    cons = [i for i in prog.facts['impls'] if i['trait'] and i['trait']['path'] == TP and i['self'].get('k') == 'tuple']
    null = [i for i in prog.facts['impls'] if i['trait'] and i['trait']['path'] == TP and i['self'].get('k') == 'adt' and i['self']['path'].endswith('::Null')]
    if len(cons) != 1 or len(null) != 1:
        return out
    cons, null = cons[0], null[0]

    def col_of(t):
        t = S(t)
        while isinstance(t, tuple) and t and t[0] in ('d', 'r'):
            t = S(t[1])
        if not (isinstance(t, tuple) and t[0] == 'f' and t[3] == 'tuple' and t[2] == 0):
            return None
        t = S(t[1])
        n = 0
        for _ in range(20):
            while isinstance(t, tuple) and t and t[0] in ('d', 'r'):
                t = S(t[1])
            if isinstance(t, tuple) and t[0] == 'f' and t[3] == 'tuple' and t[2] == 1:
                n += 1
                t = S(t[1])
                continue
            return n if isinstance(t, tuple) and t and t[0] == 'p' else None
        return None

    def feasible(p, leaf):
        """-> True | False | None (a condition could not be evaluated)"""
        unk = False
        for a_, v in p.conds:
            if isinstance(v, tuple):
                continue
            val = pathsem.evaluate(a_, leaf)
            if val is None:
                unk = True
                continue
            if bool(val) != bool(v):
                return False
        return None if unk else True

    def leaf_for(lens):
        def leaf(t):
            if isinstance(t, tuple) and t[0] == 'call' and t[1].rsplit('::', 1)[-1] in ('len', 'component_len') and t[2]:
                c = col_of(t[2][0])
                if c is not None and c < len(lens):
                    return lens[c]
            return None
        return leaf
    # ---- check_len
    verdict, detail = 'ok', None
    f0 = prog.impl_method_or_default(null, 'check_len')
    f = prog.impl_method_or_default(cons, 'check_len')
    if f is None or f0 is None:
        verdict, detail = 'unknown', 'check_len not found'
    else:
        E0 = pathsem.analyse(prog, f0, unfold={'trait': TP, 'k': 0, 'cons': cons, 'null': null})
        if E0.truncated or [p.ret for p in E0.paths if p.ended == 'return'] != [pathsem.TRUE]:
            verdict, detail = 'unknown', 'check_len of the empty list'
        for k in (1, 2, 3):
            if verdict != 'ok':
                break
            E = pathsem.analyse(prog, f, unfold={'trait': TP, 'k': k, 'cons': cons, 'null': null}, max_paths=20000)
            rets = [p for p in E.paths if p.ended == 'return']
            if E.truncated or not rets or any(p.ret not in (pathsem.TRUE, pathsem.FALSE) for p in rets):
                verdict, detail = 'unknown', 'check_len over %d columns not extractable' % k
                break
            for lens in itertools.product((0, 1, 2), repeat=k):
                got = set()
                for p in rets:
                    fz = feasible(p, leaf_for(lens))
                    if fz is None:
                        verdict, detail = 'unknown', 'a condition of check_len over %d columns could not be evaluated' % k
                        break
                    if fz:
                        got.add(p.ret)
                if verdict != 'ok':
                    break
                want = pathsem.TRUE if len(set(lens)) <= 1 else pathsem.FALSE
                if got != {want}:
                    verdict, detail = 'bad', 'columns of lengths %s: check_len answers %s' % (list(lens), sorted('true' if x == pathsem.TRUE else 'false' for x in got) or 'nothing')
                    break
    out['check_len'] = (verdict, detail)
    # ---- Batch::new
    fs = [g for g in prog.fns.values() if g.path.startswith('entities::Batch') and g.name == 'new' and g.kind == 'AssocFn' and not g.d.get('unsafe')]
    adt = prog.adts.get('entities::Batch')
    if len(fs) == 1 and adt:
        g = fs[0]
        names = [x['name'] for x in adt['variants'][0]['fields']]
        li, ei = names.index('len'), names.index('entities')
        verdict, detail = 'ok', None
        for k in (1, 2, 3):
            if verdict != 'ok':
                break
            E = pathsem.analyse(prog, g, unfold={'trait': TP, 'k': k, 'cons': cons, 'null': null}, max_paths=20000, inline=lambda c: c.path.startswith('entities::Batch') and c.name == 'new_unchecked')
            if E.truncated or not E.paths:
                verdict, detail = 'unknown', 'Batch::new over %d columns not extractable' % k
                break
            rets = [p for p in E.paths if p.ended == 'return']
            for lens in itertools.product((0, 1, 2), repeat=k):
                leaf = leaf_for(lens)
                live = []
                for p in rets:
                    fz = feasible(p, leaf)
                    if fz is None:
                        verdict, detail = 'unknown', 'a condition of Batch::new over %d columns could not be evaluated' % k
                        break
                    if fz:
                        live.append(p)
                if verdict != 'ok':
                    break
                equal = len(set(lens)) <= 1
                if live and not equal:
                    verdict, detail = 'bad', 'columns of lengths %s are accepted by Batch::new: ragged columns reach extend' % list(lens)
                    break
                if equal and not live:
                    verdict, detail = 'bad', 'columns of equal lengths %s are rejected by Batch::new' % list(lens)
                    break
                for p in live:
                    b = S(p.ret)
                    if not (isinstance(b, tuple) and b[0] == 'agg' and b[1] == 'entities::Batch'):
                        verdict, detail = 'unknown', 'cannot see the Batch returned'
                        break
                    lv = pathsem.evaluate(b[4][li], leaf)
                    if lv is None:
                        verdict, detail = 'unknown', 'cannot evaluate Batch.len (%s)' % pathsem.tstr(b[4][li])[:60]
                        break
                    if lv != lens[0] or S(b[4][ei]) != ('p', 1, g.body.local_name(1) or ''):
                        verdict, detail = 'bad', 'columns of lengths %s: Batch.len = %s' % (list(lens), lv)
                        break
                if verdict != 'ok':
                    break
        out['new'] = (verdict, detail)
    return out


@rule('G4', props=['C18', 'C01', 'C05'], floor=4, configs=('all', 'default'))
def g4_batch_construction(prog):
    """Batch values are only built by the unsafe new_unchecked (len = entities.component_len()); the safe
    constructor calls it only under a true check_len(); check_len/check_len_against of a cons cell
    compute `own column length == len AND tail agrees` (truth table); in-crate callers of new_unchecked
    are Batch::new and the canonicalisation in World::extend; Batch/World/Archetype fields are private."""
    r = Result()
    S = pathsem.strip_refs
    aggs = aggregates_of(prog, 'entities::Batch')
    adt = prog.adts.get('entities::Batch')
    names = [f_['name'] for f_ in adt['variants'][0]['fields']] if adt else []
    if 'len' not in names or 'entities' not in names:
        r.viol('G4', 'no-batch-aggregate', '-', 'Batch { entities, len } not found')
        return r
    li, ei = names.index('len'), names.index('entities')

    def is_check(a_, ent):
        """check_len(ent), or what it is defined as: check_len_against(ent, component_len(ent))"""
        if not (isinstance(a_, tuple) and a_[0] == 'call'):
            return False
        nm = a_[1].rsplit('::', 1)[-1]
        if nm == 'check_len' and len(a_[2]) == 1:
            return S(S(a_[2][0])) == S(ent)
        if nm == 'check_len_against' and len(a_[2]) == 2 and S(S(a_[2][0])) == S(ent):
            n_ = S(a_[2][1])
            return isinstance(n_, tuple) and n_[0] == 'call' and n_[1].endswith('::component_len') and S(S(n_[2][0])) == S(ent)
        return False
    tab = g4_tabulate(prog)
    safe_new = [g for g in prog.fns.values() if g.path.startswith('entities::Batch') and g.name == 'new' and g.kind == 'AssocFn' and not g.d.get('unsafe')]
    if tab['new'][0] in ('ok', 'bad'):
        r.inst('Batch::new evaluated over column lists of 1..3 columns, lengths 0..2: %s' % (tab['new'][1] or 'accepts exactly the equal-length lists, with len = that length'))
    if tab['new'][0] == 'bad' and safe_new:
        r.viol('G4', safe_new[0].path + '/accepts-ragged', safe_new[0].loc(), tab['new'][1])
    if tab['check_len'][0] in ('ok', 'bad'):
        r.inst('check_len evaluated over column lists of 0..3 columns, lengths 0..2: %s' % (tab['check_len'][1] or 'true exactly for the equal-length lists'))
    for fn in {fn.dp: fn for fn, b_, i_, s_ in aggs}.values():
        r.inst('Batch aggregate in %s' % fn.path)
        top = owner_fn(prog, fn) if fn.kind == 'Closure' else fn
        if tab['new'][0] in ('ok', 'bad') and safe_new and top.dp == safe_new[0].dp:
            continue            # decided above, by evaluation
        E = pathsem.analyse(prog, top)
        rets = [p for p in E.paths if p.ended == 'return']
        if E.truncated or not rets:
            r.viol('G4', fn.path + '/not-analysable', fn.loc(), 'path enumeration cut off')
            continue
        unchecked_ctor = top.name == 'new_unchecked' and top.d.get('unsafe')
        seen = set()
        for p in rets:
            built = set()
            for root in [p.ret] + [e['value'] for e in p.events if e['k'] == 'store'] + [a_ for e in p.events if e['k'] == 'call' for a_ in e['args']]:
                for t in pathsem.subterms(root):
                    if isinstance(t, tuple) and t[0] == 'agg' and t[1] == 'entities::Batch':
                        built.add(t)
            for t in built:
                ent, ln_ = t[4][ei], t[4][li]
                ok_len = isinstance(ln_, tuple) and ln_[0] == 'call' and ln_[1].endswith('::component_len') and S(S(ln_[2][0])) == S(ent)
                if not ok_len and 'len' not in seen:
                    seen.add('len')
                    r.viol('G4', fn.path + '/len-not-component-len', fn.loc(), 'Batch.len is not taken from entities.component_len() (got %s)' % pathsem.tstr(ln_)[:80])
                if not unchecked_ctor:
                    if not any(v is True and is_check(a_, ent) for a_, v in p.conds) and 'lit' not in seen:
                        seen.add('lit')
                        r.viol('G4', fn.path + '/batch-literal', fn.loc(), 'a Batch is built outside the unsafe unchecked constructor without a successful check_len() of its columns: ragged columns could reach extend')
    if not aggs:
        r.viol('G4', 'no-batch-aggregate', '-', 'Batch construction site not found')
    # callers of new_unchecked
    for f in prog.fns.values():
        sites = list(f.body.calls(lambda c: c['name'] == 'new_unchecked' and 'entities::Batch' in c['path']))
        if not sites:
            continue
        b, t = sites[0]
        r.inst('new_unchecked called from %s' % f.path[:100])
        if f.path.startswith('entities::Batch') and not f.d.get('unsafe') and tab['new'][0] in ('ok', 'bad'):
            pass                # the safe constructor's admission is decided by evaluation (above)
        elif f.path.startswith('entities::Batch') and not f.d.get('unsafe'):
            E = pathsem.analyse(prog, f)
            bad = E.truncated
            for p in E.paths:
                for e in p.calls(lambda e: e['name'] == 'new_unchecked' and 'entities::Batch' in e['path']):
                    ent = S(e['args'][0])
                    if not any(v is True and is_check(a_, ent) for a_, v in zip([c[0] for c in p.conds], [c[1] for c in p.conds])):
                        bad = True
            if bad:
                r.viol('G4', f.path + '/unchecked', f.loc(t['ln']), 'Batch::new reaches new_unchecked without a successful check_len(): ragged columns accepted')
        elif f.name == 'extend' and f.path.startswith('world::World'):
            # argument must be a canonicalisation of an existing (already checked) batch
            a = op_local(t['args'][0])
            d = single_def(f.body, access_of_local(f.body, a).root) if a is not None else None
            if not (d and d[0] == 'call' and d[2]['f']['name'] == 'canonical'):
                r.viol('G4', f.path + '/extend-builds-batch', f.loc(t['ln']), 'World::extend builds an unchecked Batch from something other than the canonical form of the checked batch')
        else:
            r.viol('G4', f.path + '/new-unchecked-caller', f.loc(t['ln']), 'unexpected in-crate caller of Batch::new_unchecked')
    # check_len / check_len_against truth tables (the inductive form of the clause; used when the small-scope
    # evaluation above could not be completed)
    if tab['check_len'][0] == 'bad':
        cl = [g for g in prog.fns.values() if g.name == 'check_len' and 'length::Length' in g.path]
        r.viol('G4', 'length/check_len/wrong-table', cl[0].loc() if cl else '-', 'check_len does not decide "all columns have one length": %s' % tab['check_len'][1])
    for imp in prog.facts['impls']:
        if tab['check_len'][0] in ('ok', 'bad'):
            break
        if imp['trait'] and imp['trait']['path'].endswith('entities::sealed::length::Length') and imp['self'].get('k') == 'tuple':
            ms = {f.name: f for f in prog.impl_methods(imp)}
            tp = imp['trait']['path']
            # a method the impl does not override is the trait's provided body with Self = this impl
            for g in prog.fns.values():
                if g.kind == 'AssocFn' and g.path.rsplit('::', 1)[0] == tp and g.name not in ms:
                    ms[g.name] = g
            selfm = {(tp, n): g for n, g in ms.items()}
            tail = imp['self']['e'][1]
            for name in ('check_len', 'check_len_against'):
                f = ms.get(name)
                if f is None:
                    r.viol('G4', 'length/missing-' + name, impl_loc(imp), name + ' not found')
                    continue
                # calls on this same value (Self) are followed into this impl's methods; calls on the tail stay atoms
                E = pathsem.analyse(prog, f, self_methods=selfm, inline=lambda c, f=f: c.dp != f.dp and c.dp in {g.dp for g in selfm.values()})
                rets = [p for p in E.paths if p.ended == 'return']
                r.inst('Length::%s: %d returning paths' % (name, len(rets)))
                if E.truncated or not rets or any(p.ret not in (pathsem.TRUE, pathsem.FALSE) for p in rets):
                    r.viol('G4', 'length/%s/not-extractable' % name, f.loc(), 'cannot tabulate the boolean result of %s' % name)
                    continue
                S = pathsem.strip_refs
                me = ('p', 1, f.body.local_name(1) or 'self')
                lenp = ('p', 2, f.body.local_name(2) or 'len') if name == 'check_len_against' else None

                def own_len(t):
                    t = S(t)
                    if not (isinstance(t, tuple) and t[0] == 'call'):
                        return False
                    nm = t[1].rsplit('::', 1)[-1]
                    if nm == 'component_len' and S(t[2][0]) in (me, ('d', me)):
                        return True
                    return nm == 'len' and pathsem.is_field_of(S(t[2][0]), 'tuple', 0) and pathsem.mentions(t[2][0], lambda u: u == me)

                def tail_call(a_):
                    """atom is check_len_against(&self.1, X) -> X"""
                    if isinstance(a_, tuple) and a_[0] == 'call' and a_[1].endswith('::check_len_against') and pathsem.is_field_of(S(a_[2][0]), 'tuple', 1) and pathsem.mentions(a_[2][0], lambda u: u == me):
                        return S(a_[2][1])
                    return None
                rep = set()

                def once(k, msg):
                    if k not in rep:
                        rep.add(k)
                        r.viol('G4', 'length/%s/%s' % (name, k), f.loc(), msg)
                for p in rets:
                    tails = [(tail_call(a_), v) for a_, v in p.conds if tail_call(a_) is not None]
                    owns = [(a_, v) for a_, v in p.conds if a_[0] == 'bin' and a_[1] in ('Eq', 'Lt') and ((own_len(a_[2]) and S(a_[3]) == lenp) or (own_len(a_[3]) and S(a_[2]) == lenp))] if lenp else []
                    if p.ret == pathsem.TRUE:
                        if not any(v is True for x, v in tails):
                            once('tail', '%s must consult the tail columns exactly once: a path returns true without the tail columns agreeing' % name)
                        elif name == 'check_len' and not any(v is True and own_len(x) for x, v in tails):
                            once('reference-length', 'tail columns are not compared against this column\'s length')
                        elif name == 'check_len_against' and not any(v is True and (x == lenp or own_len(x)) for x, v in tails):
                            once('reference-length', 'tail columns are not compared against the requested length')
                        if name == 'check_len_against':
                            if not owns:
                                once('own-column', 'check_len_against must compare its own column length with len')
                            elif not any(a_[1] == 'Eq' and v is True for a_, v in owns):
                                once('not-eq' if any(a_[1] == 'Lt' for a_, v in owns) else 'wrong-result', 'own column length must be found equal to len on every path returning true')
                    else:
                        failing = [1 for x, v in tails if v is False] + [1 for a_, v in owns if a_[1] == 'Eq' and v is False]
                        if not failing:
                            once('wrong-result', '%s returns false although this column\'s length matches and the tail agrees' % name)
    # privacy of fields
    for path in ('entities::Batch', 'world::World', 'archetype::Archetype', 'entity::allocator::Allocator'):
        a = prog.adts.get(path)
        if a is None:
            r.viol('G4', 'adt-missing/' + path, '-', 'type not found')
            continue
        for fld in a['variants'][0]['fields']:
            if fld['vis'] == 'pub' and a['exported']:
                r.viol('G4', 'public-field/%s.%s' % (path, fld['name']), '-', 'field %s of %s is public: invariants can be broken from safe user code' % (fld['name'], path))
    return r


def is_negated(body, l, root, depth=0):
    """Is local l the logical negation of root (through copies)?"""
    if l == root or depth > 10:
        return False
    d = single_def(body, l)
    if d and d[0] == 'assign':
        rv = d[3]['rv']
        if rv['k'] == 'unop' and rv['op'] == 'Not':
            l2 = op_local(rv['a'])
            return not is_negated(body, l2, root, depth + 1) if l2 is not None else True
        if rv['k'] == 'use':
            l2 = op_local(rv['op'])
            return is_negated(body, l2, root, depth + 1) if l2 is not None else False
    return False


# -------------------------------------------------------------------------------------------------
# T4: filter tables

FILTER_TRAITS = ('registry::contains::filter::sealed::Sealed', 'query::view::contains::filter::Sealed')


def filter_kind(t):
    """Classify the filter type argument."""
    if t is None:
        return None
    if t.get('k') == 'adt':
        n = t['path']
        for nm in ('Has', 'And', 'Or', 'Not', 'None'):
            if n == 'query::filter::' + nm:
                return (nm.lower(),)
        if n.endswith('view::Null'):
            return ('true', 'null')
        if n == 'entity::identifier::Identifier':
            return ('true', 'identifier')
        if n == 'core::option::Option':
            return ('true', 'option')
    if t.get('k') == 'ref':
        return ('has', 'view')
    if t.get('k') == 'tuple' and len(t['e']) == 2:
        return ('list',)
    return None


@rule('T4', props=['C03', 'C09', 'C08'], floor={'all': 35, 'default': 35}, configs=('all', 'default'))
def t4_filter_tables(prog):
    """Both filter tables, cell by cell (boolean function tabulated from MIR): Has<C> / &C / &mut C test the
    component's own identifier bit (found here) or delegate to the tail; Option<_>, identifier, the
    empty view list and None are true; And / Or / Not / lists combine both operands as &&, ||, !, &&."""
    r = Result()
    S = pathsem.strip_refs
    for imp in prog.facts['impls']:
        if not imp['trait'] or imp['trait']['path'] not in FILTER_TRAITS:
            continue
        f = prog.impl_method_or_default(imp, 'filter')
        if f is None:
            continue
        ta = trait_args(imp)
        F = ta[0]
        idx = ta[1] if len(ta) > 1 else None
        fk = filter_kind(F)
        which = 'registry' if imp['trait']['path'].startswith('registry') else 'views'
        key = 'filter[%s; %s; idx=%s; self=%s]' % (which, ty_str(F), ty_str(idx), ty_str(imp['self']))
        # a cell may delegate to a sibling cell of the same table that the compiler resolves (`&C` to `Has<C>`):
        # such calls are followed; calls on a generic tail stay atoms
        E = pathsem.analyse(prog, f, inline=lambda c, f=f: c.name == 'filter' and c.impl is not None and c.impl.get('trait') and c.impl['trait']['path'] in FILTER_TRAITS and c.dp != f.dp)
        rets = [p for p in E.paths if p.ended == 'return']
        if E.truncated or not rets or fk is None:
            r.viol('T4', key + '/not-extractable', f.loc(), 'cannot tabulate this filter cell')
            continue
        # atoms: sub-filter verdicts and identifier bits, named by what they ask (not where)
        atoms = {}          # atom key -> representative event
        term_key = {}

        def atom_of(e):
            if e['name'] == 'filter' and e['path'].rsplit('::', 1)[0] in FILTER_TRAITS:
                return ('filter', e['path'], e['gargs'], tuple(S(x) for x in e['args']))
            if e['name'] == 'get_unchecked' and 'IdentifierRef' in e['path']:
                return ('bit', tuple(S(x) for x in e['args']))
            return None
        for p in rets:
            for e in p.calls(lambda e: True):
                k_ = atom_of(e)
                if k_ is not None and e.get('ret') is not None:
                    atoms.setdefault(k_, e)
                    term_key[e['ret']] = k_
        keys = list(atoms)
        foreign = []
        rows = []
        for p in rets:
            asg = {}
            feasible = True
            for a_, v in p.conds:
                core, val = a_, v
                while isinstance(core, tuple) and core[0] == 'un' and core[1] == 'Not':
                    core, val = core[2], (not val)
                if core in term_key and isinstance(val, bool):
                    if asg.setdefault(term_key[core], val) != val:
                        feasible = False
                else:
                    foreign.append(pathsem.tstr(a_)[:60])
            if feasible:
                rows.append((asg, p.ret))
        if foreign:
            r.viol('T4', key + '/foreign-atom', f.loc(), 'filter result depends on something other than identifier bits and sub-filters: %s' % foreign[:3])
            continue
        table = {}
        okay = True
        for bits_ in range(1 << len(keys)):
            vals = tuple(bool(bits_ >> i & 1) for i in range(len(keys)))
            env = dict(zip(keys, vals))
            res = set()
            for asg, ret in rows:
                if all(env[k_] == v for k_, v in asg.items()):
                    rv = pathsem.evaluate(ret, lambda t: (int(env[term_key[t]]) if t in term_key else None))
                    res.add(None if rv is None else bool(rv))
            if len(res) != 1 or None in res:
                okay = False
                break
            table[vals] = res.pop()
        if not okay:
            r.viol('T4', key + '/not-extractable', f.loc(), 'cannot tabulate this filter cell')
            continue
        r.inst('%s: %d atoms' % (key, len(keys)))
        calls = [atoms[k_] for k_ in keys if k_[0] == 'filter']
        bits = [atoms[k_] for k_ in keys if k_[0] == 'bit']

        def gty(e):
            return [json.loads(g) for g in e['gargs'] if json.loads(g).get('k') != 'region']

        def expect(fn_):
            for vals, res in table.items():
                if res != fn_(vals):
                    return False
            return True
        if fk[0] == 'true' or fk[0] == 'none':
            if not (len(keys) == 0 and table.get(()) is True):
                r.viol('T4', key + '/not-true', f.loc(), 'this filter must accept every archetype (constant true)')
        elif fk[0] == 'has':
            found_here = idx is not None and idx.get('k') == 'adt'     # Contained / index::Index marker
            if found_here:
                if not (len(bits) == 1 and len(calls) == 0 and expect(lambda v: v[0])):
                    r.viol('T4', key + '/not-bit-test', f.loc(), 'presence filter must be exactly the component\'s identifier bit; a constant or negated result selects archetypes without the component (unchecked column reads) or skips matching entities')
                else:
                    check_bit_index(prog, r, f, imp, bits[0], key, which)
            else:
                if not (len(calls) == 1 and len(bits) == 0 and expect(lambda v: v[0])):
                    r.viol('T4', key + '/not-delegating', f.loc(), 'presence filter for a component further down must be exactly the tail\'s verdict')
                else:
                    g = gty(calls[0])
                    tailp = imp['self']['e'][1] if imp['self'].get('k') == 'tuple' else None
                    if tailp is not None and not ty_eq(g[0], tailp):
                        r.viol('T4', key + '/delegates-to-self', f.loc(), 'delegation must go to the tail list')
        elif fk[0] in ('and', 'or', 'list'):
            want = [ty_str(a) for a in (F['args'] if F.get('k') == 'adt' else F['e']) if a.get('k') != 'region']
            if len(calls) == 1 and fk[0] == 'list':
                # (F, FS) implemented through And<F, FS>
                g = gty(calls[0])
                if not (expect(lambda v: v[0]) and any(is_adt(x, 'query::filter::And') and [ty_str(a) for a in x['args'] if a.get('k') != 'region'] == want for x in g)):
                    r.viol('T4', key + '/list-not-and', f.loc(), 'a filter list must be the conjunction of its elements')
            elif len(calls) != 2 or bits:
                r.viol('T4', key + '/operands', f.loc(), 'binary filter must consult both operands')
            else:
                op = (lambda v: v[0] and v[1]) if fk[0] in ('and', 'list') else (lambda v: v[0] or v[1])
                if not expect(op):
                    r.viol('T4', key + '/wrong-connective', f.loc(), '%s filter does not compute %s of its operands' % (fk[0], '&&' if fk[0] != 'or' else '||'))
                fa = {ty_str(gty(c)[1]) for c in calls}
                if fa != set(want):
                    r.viol('T4', key + '/wrong-operands', f.loc(), 'binary filter consults %s instead of its two operands %s' % (sorted(fa), sorted(want)))
        elif fk[0] == 'not':
            if not (len(calls) == 1 and not bits and expect(lambda v: not v[0])):
                r.viol('T4', key + '/not-negation', f.loc(), 'Not filter must negate its operand')
            elif ty_str(gty(calls[0])[1]) != ty_str([a for a in F['args'] if a.get('k') != 'region'][0]):
                r.viol('T4', key + '/wrong-operands', f.loc(), 'Not filter negates something other than its operand')
    return r


def check_bit_index(prog, r, f, imp, ev, key, which):
    """The identifier bit tested is this component's own index."""
    ix = pathsem.strip_refs(ev['args'][1])
    if which == 'registry':
        # LEN<R_> - LEN<R> - 1 with R the tail of (C, R) and R_ the identifier's registry
        tail = imp['self']['e'][1]['name']
        idx = pathsem.lin(ix)
        terms = {pathsem.tstr(k_): v for k_, v in idx.terms.items()} if idx is not None else {}
        pos = [k_ for k_, v in terms.items() if v == 1]
        neg = [k_ for k_, v in terms.items() if v == -1]
        ok = idx is not None and idx.const == -1 and len(terms) == 2 and len(pos) == 1 and len(neg) == 1 and neg[0].endswith('LEN<%s>' % tail) and 'LEN<' in pos[0] and pos[0] != neg[0]
        if not ok:
            r.viol('T4', key + '/wrong-bit-index', f.loc(ev['ln']), 'identifier bit index is %s, expected LEN(registry) - LEN(tail) - 1 (the position of this component)' % pathsem.tstr(ix))
    else:
        # views table: indices.0 (the index list entry of this view)
        while isinstance(ix, tuple) and ix[0] == 'd':
            ix = pathsem.strip_refs(ix[1])
        if not (isinstance(ix, tuple) and ix[0] == 'f' and ix[2] == 0 and pathsem.strip_refs(ix[1])[0] in ('p', 'd')):
            r.viol('T4', key + '/wrong-bit-index', f.loc(ev['ln']), 'identifier bit index is not this view\'s own index entry (got %s)' % pathsem.tstr(ix))


@rule('G7', props=['C03', 'C05', 'C09'], floor={'all': 5, 'default': 4}, configs=('all', 'default'))
def g7_view_requires_filter(prog):
    """Every call that materialises views over an archetype (Archetype::view / par_view /
    view_row_unchecked / view_row_maybe_uninit_unchecked) is control-dependent on the true edge of a
    filter call whose filter type contains the same Views type: non-optional views read column 0
    unconditionally (W2 presence-assumed), so an archetype lacking the component must never get here."""
    r = Result()
    VIEWERS = ('view', 'par_view', 'view_row_unchecked', 'view_row_maybe_uninit_unchecked')

    def is_viewer(c):
        return c['name'] in VIEWERS and c['path'].startswith('archetype::Archetype::<R>::')
    tops = {}
    for f in prog.fns.values():
        if any(True for _ in f.body.calls(is_viewer)):
            top = owner_fn(prog, f) if f.kind == 'Closure' else f
            tops[top.dp] = top
    for top in tops.values():
        E = pathsem.analyse(prog, top, max_paths=20000)
        seen = set()
        if E.truncated:
            r.viol('G7', '%s/not-analysable' % top.path[:80], top.loc(), 'path enumeration cut off')
            continue
        for p in E.paths:
            for e in p.calls(lambda e: is_viewer({'name': e['name'], 'path': e['path']})):
                g = [a for a in e['f'].get('args', []) if a.get('k') != 'region']
                views = g[1] if len(g) > 1 else None
                fn_ = e['fn']
                key = '%s -> Archetype::%s' % (top.path.split('<')[0][:70] + top.name if fn_ is top else top.name + '::closure', e['name'])
                ik = (key, ty_str(views))
                ok = False
                for ft in p.calls(lambda c: c['name'] == 'filter' and c['i'] < e['i']):
                    fg = [a for a in ft['f'].get('args', []) if a.get('k') != 'region']
                    if any(ty_mentions(a, lambda n: strip_regions(n) == strip_regions(views)) for a in fg) and p.lookup(ft['ret']) is True:
                        ok = True
                if ik not in seen:
                    seen.add(ik)
                    r.inst('%s [%s]' % ik)
                if not ok and (ik, 'v') not in seen:
                    seen.add((ik, 'v'))
                    r.viol('G7', key + '/unfiltered-view', top.loc(e['ln']),
                           'views are materialised over an archetype without a dominating filter check for those views: a non-optional view would read a column that does not belong to its component')
    # sub-views extracted from a row of maybe-uninitialised super views (query-time entries): a non-optional sub-view
    # is assume_init-ed (G6), so the filter that was found true must have asked for the sub-views themselves
    def is_subview(c):
        return c['name'] == 'view' and c['path'].startswith('query::view::subset::') and c['path'].endswith('Sealed::view')
    for f in prog.fns.values():
        if f.kind == 'Closure' or (f.impl and f.impl['trait'] and f.impl['trait']['path'].startswith('query::view::subset::')):
            continue
        if not any(True for _ in f.body.calls(is_subview)):
            continue
        E = pathsem.analyse(prog, f, max_paths=20000)
        key = '%s -> SubSet::view' % f.path.split('<')[0][:70]
        r.inst(key)
        if E.truncated:
            r.viol('G7', key + '/not-analysable', f.loc(), 'path enumeration cut off')
            continue
        bad = False
        for p in E.paths:
            for e in p.calls(lambda e: is_subview({'name': e['name'], 'path': e['path']})):
                g = [a for a in e['f'].get('args', []) if a.get('k') != 'region']
                sub = g[0] if g else None
                ok = False
                for ft in p.calls(lambda c: c['name'] == 'filter' and c['i'] < e['i']):
                    fg = [a for a in ft['f'].get('args', []) if a.get('k') != 'region']
                    # trait arguments after Self: the filter type and its indices
                    if sub is not None and len(fg) > 1 and ty_mentions(fg[1], lambda n: strip_regions(n) == strip_regions(sub)) and p.lookup(ft['ret']) is True:
                        ok = True
                if not ok:
                    bad = True
        if bad:
            r.viol('G7', key + '/unfiltered-view', f.loc(),
                   'sub-views are extracted from a row without a filter for those sub-views having been found true: a non-optional sub-view of an entity lacking the component reads uninitialised memory')
    return r


# -------------------------------------------------------------------------------------------------
@rule('E1', props=['C16', 'C05'], floor=5, configs=('all', 'default'))
def e1_equality_coverage(prog):
    """PartialEq for World, Allocator, Slot, Location, Archetypes, Archetype::component_eq read every
    field the statement lists, of both operands."""
    r = Result()
    want = {
        'world::World': ['archetypes', 'entity_allocator', 'len', 'resources'],
        'entity::allocator::Allocator': ['slots', 'free'],
        'entity::allocator::slot::Slot': ['generation', 'location'],
        'entity::allocator::location::Location': ['identifier', 'index'],
    }
    for path, fields in want.items():
        fs = [f for f in prog.fns.values() if f.name == 'eq' and 'core::cmp::PartialEq for ' + path in f.path]
        adt = prog.adts.get(path)
        if len(fs) != 1 or adt is None:
            # derived PartialEq has no local body with that path: look for derive expansion
            fs = [f for f in prog.fns.values() if f.name == 'eq' and f.impl and f.impl['trait'] and f.impl['trait']['path'] == 'core::cmp::PartialEq' and is_adt(f.impl['self'], path)]
        if len(fs) != 1 or adt is None:
            r.viol('E1', path + '/missing-eq', '-', 'PartialEq::eq for %s not found' % path)
            continue
        f = fs[0]
        names = [x['name'] for x in adt['variants'][0]['fields']]
        E = pathsem.analyse(prog, f)
        rets = [p for p in E.paths if p.ended == 'return']
        if E.truncated or not rets:
            r.viol('E1', path + '/not-analysable', f.loc(), 'path enumeration cut off')
            continue
        ops = {('p', 1, f.body.local_name(1) or ''): 1, ('p', 2, f.body.local_name(2) or ''): 2}
        # order-preserving adaptors: the logical sequence / value of the field is what gets compared
        ADAPT = ('deref', 'iter', 'into_iter', 'as_ref', 'borrow', 'as_slice', 'copied', 'cloned', 'by_ref', 'as_str', 'as_bytes', 'clone')

        def side_field(t):
            """(operand, field name, name of a representation-dependent view in between or None)"""
            via = None
            for _ in range(16):
                t = S_(t)
                if not isinstance(t, tuple):
                    return None
                if t[0] == 'd':
                    t = t[1]
                elif t[0] == 'cast':
                    t = t[2]
                elif t[0] == 'down':
                    t = t[1]           # payload of the field's enum value: part of the field
                elif t[0] == 'elem':
                    t = t[1]           # an element of an iteration over the field
                elif t[0] == 'it' and t[1] in ADAPT + ('rev',) and t[1] != 'rev':
                    t = t[2]
                elif t[0] == 'call' and t[2]:
                    nm = t[1].rsplit('::', 1)[-1]
                    if nm not in ADAPT:
                        via = via or nm
                    t = t[2][0]
                elif t[0] == 'f':
                    base = S_(t[1])
                    while isinstance(base, tuple) and base[0] == 'd':
                        base = S_(base[1])
                    if base in ops:
                        return (ops[base], names[t[2]] if t[2] < len(names) else str(t[2]), via)
                    t = t[1]
                else:
                    return None
            return None

        def comparison(a_, v):
            """atom compares field X of both operands and was found equal -> (field, via)"""
            if not isinstance(a_, tuple):
                return None
            if a_[0] == 'bin' and a_[1] in ('Eq', 'Ne'):
                x, y, eqv = a_[2], a_[3], (v is True) == (a_[1] == 'Eq')
            elif a_[0] == 'call' and a_[1].rsplit('::', 1)[-1] in ('eq', 'ne') and len(a_[2]) == 2:
                x, y, eqv = a_[2][0], a_[2][1], (v is True) == (a_[1].rsplit('::', 1)[-1] == 'eq')
            else:
                return None
            fx, fy = side_field(x), side_field(y)
            if fx and fy and fx[1] == fy[1] and {fx[0], fy[0]} == {1, 2}:
                return [(fx[1], fx[2] or fy[2], eqv)]
            # std tuples compare element by element
            tx, ty_ = S_(x), S_(y)
            while isinstance(tx, tuple) and tx[0] == 'd':
                tx = S_(tx[1])
            while isinstance(ty_, tuple) and ty_[0] == 'd':
                ty_ = S_(ty_[1])
            if isinstance(tx, tuple) and isinstance(ty_, tuple) and tx[0] == ty_[0] == 'agg' and tx[1] == ty_[1] == 'tuple' and len(tx[4]) == len(ty_[4]) and eqv:
                out = []
                for ex, ey in zip(tx[4], ty_[4]):
                    fx, fy = side_field(ex), side_field(ey)
                    if fx and fy and fx[1] == fy[1] and {fx[0], fy[0]} == {1, 2}:
                        out.append((fx[1], fx[2] or fy[2], True))
                return out or None
            return None

        def same_empty_variant(conds, fld):
            """both operands' field was found to be the same payload-free variant (None == None)"""
            seen = {}
            for a_, v in conds:
                if isinstance(a_, tuple) and a_[0] == 'discr' and isinstance(v, int) and not isinstance(v, bool):
                    sf = side_field(a_[1])
                    if sf and sf[1] == fld and sf[2] is None:
                        seen.setdefault(sf[0], set()).add(v)
            if seen.get(1) and seen.get(1) == seen.get(2) and len(seen[1]) == 1:
                d = next(iter(seen[1]))
                fty = adt['variants'][0]['fields'][names.index(fld)]['ty']
                if is_adt(fty, 'core::option::Option'):
                    return d == 0
                a2 = prog.adts.get(fty.get('path')) if fty.get('k') == 'adt' else None
                if a2 and d < len(a2['variants']):
                    return not a2['variants'][d]['fields']
            return False
        S_ = pathsem.strip_refs
        n_true = 0
        reported = set()
        for p in rets:
            conds = list(p.conds)
            verdict = p.ret
            if verdict not in (pathsem.TRUE, pathsem.FALSE):
                conds.append((verdict, True))        # `a == b` returned directly: the true case
                verdict = pathsem.TRUE
            cmps = [c for cs in (comparison(a_, v) for a_, v in conds if isinstance(v, bool)) if cs for c in cs]
            if verdict == pathsem.TRUE:
                n_true += 1
                # `a.len() == b.len() && a.iter().zip(b).all(==)`: the length comparison is part of an element-wise one
                zipped = set()
                for a_, v in conds:
                    if isinstance(a_, tuple) and a_[0] in ('nonempty', 'next', 'consumed', 'exhausted') and isinstance(a_[1], tuple) and a_[1][0] == 'it' and a_[1][1] == 'zip':
                        fa, fb = side_field(a_[1][2]), side_field(a_[1][3])
                        if fa and fb and fa[1] == fb[1] and {fa[0], fb[0]} == {1, 2} and fa[2] is None and fb[2] is None:
                            zipped.add(fa[1])
                cmps = [(c[0], None, c[2]) if (c[1] == 'len' and c[0] in zipped) else c for c in cmps]
                for fld in fields:
                    hits = [c for c in cmps if c[0] == fld and c[2]]
                    if not hits and same_empty_variant(conds, fld):
                        continue
                    if not hits and ('n', fld) not in reported:
                        reported.add(('n', fld))
                        r.viol('E1', '%s/field-not-compared/%s' % (path, fld), f.loc(),
                               'equality of %s can return true without `%s` of self and other having been found equal: values differing there compare equal' % (path.split('::')[-1], fld))
                    elif hits and all(c[1] is not None for c in hits) and ('v', fld) not in reported:
                        reported.add(('v', fld))
                        r.viol('E1', '%s/field-compared-through/%s/%s' % (path, fld, hits[0][1]), f.loc(),
                               'equality of %s compares `%s` only through %s(), a representation-dependent view: logically equal values (e.g. a clone) can compare unequal' % (path.split('::')[-1], fld, hits[0][1]))
            else:
                if not any(not c[2] for c in cmps) and not any(isinstance(v, bool) and comparison(a_, not v) for a_, v in conds) and 'f' not in reported \
                        and not any(isinstance(a_, tuple) and a_[0] == 'call' and v is False for a_, v in conds):
                    reported.add('f')
                    r.viol('E1', '%s/false-without-difference' % path, f.loc(), 'equality of %s returns false on a path where no compared field differed (not reflexive)' % path.split('::')[-1])
        r.inst('%s::eq: %d paths, %d returning true' % (path, len(rets), n_true))
        if not n_true and 't' not in reported:
            r.viol('E1', '%s/never-true' % path, f.loc(), 'equality of %s never returns true' % path.split('::')[-1])
    # Archetype::component_eq
    fs = [f for f in prog.fns.values() if f.path == 'archetype::Archetype::<R>::component_eq']
    if len(fs) != 1:
        r.viol('E1', 'component_eq/missing', '-', 'Archetype::component_eq not found')
    else:
        f = fs[0]
        r.inst('Archetype::component_eq')
        adt = prog.adts['archetype::Archetype']
        anames = [x['name'] for x in adt['variants'][0]['fields']]
        E = pathsem.analyse(prog, f)
        rets = [p for p in E.paths if p.ended == 'return']
        ops = {1: ('p', 1, f.body.local_name(1) or ''), 2: ('p', 2, f.body.local_name(2) or '')}
        rep = set()
        deferred = set()
        if E.truncated or not rets:
            r.viol('E1', 'component_eq/not-analysable', f.loc(), 'path enumeration cut off')
        for p in rets:
            conds = list(p.conds)
            if p.ret == pathsem.FALSE:
                continue
            if p.ret != pathsem.TRUE:
                conds.append((p.ret, True))
            def is_ne(a_):
                return (a_[0] == 'bin' and a_[1] == 'Ne') or (a_[0] == 'call' and a_[1].rsplit('::', 1)[-1] == 'ne')
            good = [a_ for a_, v in conds if v is True and isinstance(a_, tuple) and (a_[0] == 'call' or (a_[0] == 'bin' and a_[1] == 'Eq')) and not is_ne(a_)] + \
                   [a_ for a_, v in conds if v is False and isinstance(a_, tuple) and is_ne(a_)]
            for fld in ('length', 'entity_identifiers', 'components'):
                fi = anames.index(fld)
                for side in (1, 2):
                    if not any(pathsem.mentions(a_, lambda u: pathsem.is_field_of(u, 'archetype::Archetype', fi) and pathsem.mentions(u, lambda w: w == ops[side])) for a_ in good):
                        deferred.add((fld, side))
            if not any(a_[0] == 'call' and a_[1].endswith('::component_eq') for a_ in good) and 'walk' not in rep:
                rep.add('walk')
                r.viol('E1', 'component_eq/no-column-walk', f.loc(), 'component values are not compared (registry walk not called, or its verdict ignored)')
        # what component_eq itself does not compare, every caller must have found equal on the paths where it
        # relies on component_eq's `true` (the row count and the identifier column may be compared one level up)
        if deferred:
            callers = [g for g in prog.fns.values() if g.kind != 'Closure' and g.dp != f.dp and not g.path.startswith('archetype::Archetype::<R>::component_eq')
                       and any(True for g2 in [g] + g.closures() for _ in g2.body.calls(lambda c: c['name'] == 'component_eq' and c['path'].startswith('archetype::Archetype::<R>::')))]
            if not callers:
                callers = [None]
            for g in callers:
                missing = set(deferred)
                if g is not None:
                    Eg = pathsem.analyse(prog, g, max_paths=20000)
                    missing = set()
                    for p in Eg.paths:
                        if p.ended != 'return':
                            continue
                        for e in p.calls(lambda e: e['name'] == 'component_eq' and e['path'].startswith('archetype::Archetype::<R>::')):
                            if p.lookup(e['ret']) is not True and p.ret != e['ret']:
                                continue
                            A, B = pathsem.strip_refs(e['vals'][0]), pathsem.strip_refs(e['vals'][1])
                            good = [a_ for a_, v in p.conds if isinstance(a_, tuple) and ((v is True and (a_[0] == 'call' and not a_[1].endswith('::ne') or (a_[0] == 'bin' and a_[1] == 'Eq')))
                                                                                         or (v is False and ((a_[0] == 'bin' and a_[1] == 'Ne') or (a_[0] == 'call' and a_[1].endswith('::ne')))))]
                            for fld, side in deferred:
                                fi = anames.index(fld)
                                X = A if side == 1 else B

                                def about(u, X=X, fi=fi, fld=fld):
                                    if pathsem.is_field_of(u, 'archetype::Archetype', fi) and pathsem.mentions(u, lambda w: w == X):
                                        return True
                                    return fld == 'length' and isinstance(u, tuple) and u[0] == 'call' and u[1].startswith('archetype::Archetype::<R>::len') and pathsem.strip_refs(u[2][0]) == X
                                if not any(pathsem.mentions(a_, about) for a_ in good):
                                    missing.add((fld, side))
                for fld, side in sorted(missing):
                    if (fld, side) not in rep:
                        rep.add((fld, side))
                        r.viol('E1', 'component_eq/field-not-compared/%s' % fld, (g or f).loc(), 'Archetype::component_eq can return true without a successful comparison involving `%s` of %s%s' % (
                            fld, 'self' if side == 1 else 'other', (', and its caller %s does not compare it either' % g.name) if g is not None else ''))
    return r


@rule('E2', props=['C16'], floor=1, configs=('all', 'default'))
def e2_archetypes_eq(prog):
    """Archetypes::eq: the two tables have the same number of archetypes AND every archetype of self has a
    counterpart (found by identifier bytes) in other whose identifiers and components are equal.
    Both conjuncts are necessary for symmetry (an extra empty archetype on one side must matter)."""
    r = Result()
    fs = [f for f in prog.fns.values() if f.name == 'eq' and f.impl and f.impl['trait'] and f.impl['trait']['path'] == 'core::cmp::PartialEq' and is_adt(f.impl['self'], 'archetypes::Archetypes')]
    if len(fs) != 1:
        r.viol('E2', 'missing', '-', 'PartialEq for Archetypes not found')
        return r
    f = fs[0]
    r.inst('Archetypes::eq')
    E = pathsem.analyse(prog, f)
    rets = [p for p in E.paths if p.ended == 'return']
    done = set()

    def once(k, msg):
        if k not in done:
            done.add(k)
            r.viol('E2', k, f.loc(), msg)
    if E.truncated or not rets or any(p.ret not in (pathsem.TRUE, pathsem.FALSE) for p in rets):
        once('not-extractable', 'cannot tabulate Archetypes::eq')
        return r
    S = pathsem.strip_refs
    ops = {1: ('p', 1, f.body.local_name(1) or 'self'), 2: ('p', 2, f.body.local_name(2) or 'other')}

    def table_len(t, side):
        return isinstance(t, tuple) and t[0] == 'call' and t[1].endswith('::len') and pathsem.mentions(t, lambda u: u == ops[side]) and not pathsem.mentions(t, lambda u: u == ops[3 - side])

    def size_atom(a):
        return a[0] == 'bin' and a[1] in ('Eq', 'Lt') and ((table_len(a[2], 1) and table_len(a[3], 2)) or (table_len(a[2], 2) and table_len(a[3], 1)))
    n_true = 0
    n_elem = 0
    for p in rets:
        sizes = [(a, v) for a, v in p.conds if size_atom(a)]
        scanned = []
        for a, v in p.conds:
            if isinstance(a, tuple) and ((a[0] == 'next' and v == 1) or (a[0] == 'nonempty' and v is True)):
                root = S(pathsem.iter_chain(a[1])[0])
                for side in (1, 2):
                    if root == ops[side] or pathsem.mentions(root, lambda u: u == ops[side]):
                        scanned.append((('elem', a[1]) + tuple(a[2:3] if a[0] == 'next' else ()), side))
        if p.ret == pathsem.TRUE:
            n_true += 1
            # a hand-written loop says "equal" only after it has run out of archetypes
            for a, v in p.conds:
                if isinstance(a, tuple) and a[0] == 'next' and v == 1 and any(S(pathsem.iter_chain(a[1])[0]) == ops[sd] or pathsem.mentions(S(pathsem.iter_chain(a[1])[0]), lambda u, sd=sd: u == ops[sd]) for sd in (1, 2)):
                    if not any(isinstance(b_, tuple) and b_[0] == 'next' and b_[1] == a[1] and w == 0 for b_, w in p.conds):
                        once('true-before-all-compared', 'Archetypes::eq returns true from inside the loop over the archetypes: the archetypes after the current one are never compared')
            if not sizes:
                once('no-size-comparison', 'the number of archetypes of both worlds is not compared')
            elif not any(a[1] == 'Eq' and v is True for a, v in sizes):
                if any(a[1] == 'Lt' for a, v in sizes):
                    once('size-comparison-not-equality', 'archetype counts are compared with an inequality instead of equality: a world with extra (empty) archetypes compares equal in one direction only (asymmetric)')
                else:
                    once('wrong-combination', 'Archetypes::eq must be (same count) && (all archetypes match): a path returns true with differing counts')
            for e, side in scanned:
                n_elem += 1
                found = [g for g in p.calls(lambda g: g['name'] in ('get', 'find', 'get_by_identifier', 'get_with_foreign') and S(g['vals'][0]) == ops[3 - side]
                                            and pathsem.mentions(g['args'][1], lambda u: u[0] == 'call' and u[1].endswith('::identifier') and S(u[2][0]) == e))
                         if p.lookup(('discr', g['ret'])) == 1]
                if not found:
                    once('element-comparison-shape', 'per-archetype comparison must look the archetype up in the other world (by its identifier) and call component_eq: a path returns true for an archetype without a counterpart')
                    continue
                pay = ('f', ('down', found[0]['ret'], 'Some', 1), 0, 'core::option::Option')
                ceq = [c for c in p.calls(lambda c: c['name'] == 'component_eq') if {S(c['vals'][0]), S(c['vals'][1])} == {e, pay} and p.lookup(c['ret']) is True]
                if not ceq:
                    # two tables the path found to hold no rows are equal without looking further
                    li_ = adt_field_index(prog, 'archetype::Archetype', 'length')

                    def no_rows(t):
                        for g in p.calls(lambda g: g['name'] == 'is_empty' and g['path'].startswith('archetype::Archetype') and S(g['vals'][0]) == t):
                            if p.lookup(g['ret']) is True:
                                return True
                        for a_, v in p.conds:
                            if isinstance(a_, tuple) and a_[0] == 'bin' and a_[1] == 'Eq' and v is True and ('c', 0) in a_[2:]:
                                o = [x for x in a_[2:] if x != ('c', 0)]
                                if o and pathsem.is_field_of(o[0], 'archetype::Archetype', li_) and S(S(o[0])[1]) in (t, ('d', t)):
                                    return True
                        return False
                    if no_rows(e) and no_rows(pay):
                        continue
                    once('wrong-combination', 'Archetypes::eq returns true on a path where an archetype\'s rows were not found equal to its counterpart\'s (component_eq)')
    if not n_true:
        once('not-extractable', 'Archetypes::eq never returns true')
    if not n_elem:
        once('no-element-comparison', 'archetypes are not compared pairwise')
    return r


# -------------------------------------------------------------------------------------------------
ENTITY_OPS = ('insert', 'extend', 'remove', 'clear', 'reserve', 'shrink_to_fit', 'contains', 'entry', 'len', 'is_empty', 'run_system', 'run_par_system')


@rule('R1', props=['C15', 'C10', 'C16'], floor=10, configs=('all', 'default'))
def r1_who_touches_resources(prog):
    """World.resources is read only by the resource accessors, queries/systems (resource views), Clone,
    PartialEq, Debug, Serialize/Deserialize; it is written (mutable projection or assignment) only by
    get_mut, view_resources, query, par_query, clone_from; no entity operation mentions the field.
    Lookup by type: the `Contained` accessor returns the head, every other index recurses on the tail."""
    r = Result()
    adt = prog.adts.get('world::World')
    names = [x['name'] for x in adt['variants'][0]['fields']]
    ri = names.index('resources')
    READERS = {'get', 'get_mut', 'view_resources', 'query', 'par_query', 'clone', 'clone_from', 'eq', 'fmt', 'serialize', 'from_raw_parts', 'with_resources', 'visit_seq', 'visit_map', 'deserialize'}
    WRITERS = {'get_mut', 'view_resources', 'query', 'par_query', 'clone_from'}
    for f in prog.fns.values():
        body = f.body
        touched = False
        mut = False
        for b, i, s in body.stmts():
            if s['k'] != 'assign':
                continue
            places = [(p, False) for p in rv_operands(s['rv'])]
            if s['rv']['k'] in ('ref', 'rawptr'):
                places = [(s['rv']['place'], s['rv']['mut'])]
            places.append((s['place'], bool(s['place']['p'])))
            for p, m in places:
                t = body.local_ty(p['l'])
                for j, e in enumerate(p['p']):
                    if isinstance(e, dict) and 'f' in e and e['f'] == ri:
                        base = body.place_ty({'l': p['l'], 'p': p['p'][:j]})
                        if is_adt(peel_refs(base), 'world::World'):
                            touched = True
                            if m and j == len(p['p']) - 1 or (m and p is s['place']):
                                mut = True
                            if s['rv']['k'] in ('ref', 'rawptr') and s['rv']['mut'] and p is s['rv']['place']:
                                mut = True
        if not touched:
            continue
        top = owner_fn(prog, f)
        r.inst('%s %s World.resources' % (top.path[:90], 'writes' if mut else 'reads'))
        if top.name not in READERS:
            r.viol('R1', '%s/touches-resources' % top.path, f.loc(), 'function %s accesses World.resources: entity operations must not touch resources' % top.name)
        elif mut and top.name not in WRITERS:
            r.viol('R1', '%s/writes-resources' % top.path, f.loc(), 'function %s takes World.resources mutably / assigns it' % top.name)
    # Clone for World copies resources; clone_from overwrites them unconditionally
    for nm in ('clone', 'clone_from'):
        fs = [f for f in prog.fns.values() if f.name == nm and 'core::clone::Clone for world::World' in f.path]
        if len(fs) != 1:
            r.viol('R1', 'world-%s/missing' % nm, '-', 'Clone::%s for World not found' % nm)
            continue
        f = fs[0]
        body = f.body
        calls = [(b, t) for b, t in body.calls(lambda c: c['name'] == nm and c.get('trait') == 'core::clone::Clone')]
        rc = [(b, t) for b, t in calls if (receiver_name(prog, body, t['args'][0]) or '').endswith('.resources')]
        r.inst('World::%s copies resources: %d' % (nm, len(rc)))
        if len(rc) != 1:
            r.viol('R1', 'world-%s/resources-not-cloned' % nm, f.loc(), 'World::%s does not clone the resources' % nm)
        elif not body.must_pass(0, [rc[0][0]], body.return_blocks()):
            r.viol('R1', 'world-%s/resources-skippable' % nm, f.loc(), 'a path through World::%s returns without copying the resources (stale resources survive)' % nm)
    # ContainsResource accessors
    for imp in prog.facts['impls']:
        if imp['trait'] and imp['trait']['path'].endswith('resource::contains::resource::Sealed') and imp['self'].get('k') == 'tuple':
            ta = trait_args(imp)
            contained = any(is_adt(a) and a['path'].endswith('Contained') for a in ta)
            for f in prog.impl_methods(imp):
                if f.name not in ('get', 'get_mut'):
                    continue
                body = f.body
                r.inst('ContainsResource::%s [%s]' % (f.name, 'found here' if contained else 'further down'))
                if contained:
                    # returns &self.0
                    ok = False
                    for b, i, s in body.stmts():
                        if s['k'] == 'assign' and s['place']['l'] == 0:
                            nm = None
                            if s['rv']['k'] in ('ref', 'rawptr'):
                                nm = access_field_names(prog, body, normalize_access(access_of_place(body, s['rv']['place'])))
                            elif s['rv']['k'] == 'use' and op_place(s['rv']['op']):
                                nm = receiver_name(prog, body, s['rv']['op'])
                            if nm and nm.endswith('self.0'):
                                ok = True
                    if not ok or body.calls(lambda c: c['name'] in ('get', 'get_mut') and c.get('trait')):
                        r.viol('R1', 'resource-accessor/%s/contained' % f.name, f.loc(), 'the accessor for the resource found at this position must return the head of the list')
                else:
                    tails = [(b, t) for b, t in body.calls(lambda c: c['name'] == f.name and c.get('trait'))]
                    ok = len(tails) == 1 and (receiver_name(prog, body, tails[0][1]['args'][0]) or '').endswith('self.1')
                    if not ok:
                        r.viol('R1', 'resource-accessor/%s/recurse' % f.name, f.loc(), 'the accessor for a resource further down must recurse on the tail of the list')
    return r


# -------------------------------------------------------------------------------------------------
@rule('P6', props=['C13', 'C01', 'C10', 'C06', 'C16'], floor=5, configs=('all', 'default'))
def p6_world_len(prog):
    """World.len is assigned only by the operations that change the population, with the matching delta
    on the same paths as the structural change: insert +1 (with Archetype::push), extend +batch len
    (with Archetype::extend), remove -1 (inside the found branch, with remove_row), clear =0,
    clone_from = source.len; constructors copy."""
    r = Result()
    adt = prog.adts['world::World']
    names = [x['name'] for x in adt['variants'][0]['fields']]
    li = names.index('len')
    expect = {
        'insert': ('add', 1, ('push',)),
        'extend': ('addvar', None, ('extend',)),
        'remove': ('sub', 1, ('remove_row_unchecked',)),
        'clear': ('set', 0, ('clear',)),
        'clone_from': ('copy', None, ('clone_from',)),
    }
    seen = set()
    for f in prog.fns.values():
        body = f.body
        writes = []
        for b, i, s in body.stmts():
            if s['k'] == 'assign' and s['place']['p']:
                lf = last_field(body, {'copy': s['place']})
                if lf and lf[0] == 'world::World' and lf[1] == li:
                    writes.append((b, i, s))
            # a mutable borrow of the field (`let Self { len, .. } = self`, `&mut self.len`) is a writer too
            if s['k'] == 'assign' and s['rv']['k'] in ('ref', 'rawptr') and s['rv'].get('mut') and s['rv']['place']['p']:
                lf = last_field(body, {'copy': s['rv']['place']})
                if lf and lf[0] == 'world::World' and lf[1] == li:
                    writes.append((b, i, s))
        if not writes:
            continue
        top = owner_fn(prog, f)
        r.inst('%s writes World.len (%d)' % (top.path[:80], len(writes)))
        if not (top.path.startswith('world::World') or 'for world::World' in top.path) or top.name not in expect:
            r.viol('P6', '%s/unexpected-len-writer' % top.path, f.loc(writes[0][2]['ln']), 'World.len is written outside insert/extend/remove/clear/clone_from')
            continue
        if top.name in seen or top is not f:
            seen.add(top.name)
            if top is not f:
                r.viol('P6', '%s/unexpected-len-writer' % top.path, f.loc(writes[0][2]['ln']), 'World.len is written from inside a closure: the update cannot be paired with the structural change')
            continue
        seen.add(top.name)
        kind, val, partners = expect[top.name]
        E = pathsem.analyse(prog, f)
        if E.truncated or not E.paths:
            r.viol('P6', '%s/not-analysable' % top.path, f.loc(), 'path enumeration cut off')
            continue
        rep = set()

        def once(k, ln, msg, top=top, f=f, rep=rep):
            if k not in rep:
                rep.add(k)
                r.viol('P6', '%s/%s' % (top.path, k), f.loc(ln), msg)
        S = pathsem.strip_refs
        for p in E.paths:
            if p.ended != 'return':
                continue
            stores = [e for e in p.events if e['k'] == 'store' and pathsem.is_field_of(e['loc'], 'world::World', li) and pathsem.mentions(e['loc'], lambda t: t[0] == 'p' and t[1] == 1)]
            part = p.calls(lambda e: e['name'] in partners and ('archetype' in e['path'] or 'Archetype' in e['path'] or e['f'].get('trait') == 'core::clone::Clone'))
            if kind == 'copy':
                part = [e for e in part if any(pathsem.mentions(v, lambda t: t[0] == 'p' and t[1] == 2) for v in list(e['args']) + list(e['vals']))]
            if kind == 'set' and stores and not part:
                # the structural change done table by table: a loop over all of self's archetypes that has run out,
                # with every table it yielded cleared
                ai_ = names.index('archetypes')
                its = [(a_, v) for a_, v in p.conds if isinstance(a_, tuple) and a_[0] in ('next', 'nonempty', 'exhausted') and
                       pathsem.mentions(pathsem.iter_chain(a_[1])[0], lambda t: pathsem.is_field_of(t, 'world::World', ai_) and pathsem.mentions(t, lambda u: u[0] == 'p' and u[1] == 1))]
                ended = any((a_[0] == 'next' and v == 0) or (a_[0] == 'exhausted' and v is True) for a_, v in its) or (its and its[-1][0][0] == 'nonempty' and its[-1][1] is False)
                els = [pathsem.canon(('elem', a_[1]) + tuple(a_[2:3])) for a_, v in its if a_[0] == 'next' and v == 1]
                cleared = p.calls(lambda e: e['name'] in partners and e['path'].startswith('archetype::Archetype'))
                if ended and all(any(pathsem.canon(S(c['vals'][0])) in (el, ('d', el)) for c in cleared) for el in els):
                    part = cleared or [{'ln': None}]
            if part and not stores:
                once('structural-change-without-len', part[0]['ln'], 'a path changes the stored population without updating len')
            if stores and not part:
                once('len-on-other-path' if p.calls(lambda e: e['name'] in partners) or True else 'no-structural-partner', stores[0]['ln'], 'len is updated on a path that does not make the structural change (%s)' % (partners,))
            if not stores:
                continue
            st = stores[-1]
            old = st['loc']
            okv = False
            if kind == 'set':
                okv = st['value'] == ('c', val)
            elif kind == 'copy':
                okv = pathsem.is_field_of(st['value'], 'world::World', li) and pathsem.mentions(st['value'], lambda t: t[0] == 'p' and t[1] == 2)
            else:
                d = pathsem.lin(st['value']) - pathsem.lin(old)
                if kind == 'add':
                    okv = d.is_const() and d.const == val
                elif kind == 'sub':
                    okv = d.is_const() and d.const == -val
                else:
                    okv = d.const == 0 and len(d.terms) == 1 and list(d.terms.values()) == [1] and all(isinstance(t, tuple) and t[0] == 'call' and t[1].rsplit('::', 1)[-1] in ('len', 'component_len') for t in d.terms)
            if not okv:
                once('wrong-len-delta', st['ln'], 'World.len update in %s (%s) is not the expected %s %s' % (top.name, pathsem.tstr(st['value']), kind, val))
    for nm in expect:
        if nm not in seen:
            r.viol('P6', 'missing-len-writer/' + nm, '-', 'World::%s does not update len' % nm)
    return r
