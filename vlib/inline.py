"""MIR inlining of crate-local functions that are *unknown to the rule set*.

Rules anchor on the functions that exist on the tree they were written for (listed in
baseline_fns.json). A function that is not in that list — typically a private helper a maintainer
extracted from an anchor function — is made transparent: its body is inlined into every caller (depth
<= 3, non-recursive, callee resolved to a local MIR body), so that the caller presents the same shape to
the rules as before the extraction. Nothing is executed; this is a purely syntactic CFG splice."""
import copy, json, os

HERE = os.path.dirname(os.path.abspath(__file__))
BASELINE = os.path.join(HERE, 'baseline_fns.json')
MAX_BLOCKS = 400
MAX_DEPTH = 3


def load_baseline():
    """{printed path: signature key} of the functions the rule set was written against"""
    try:
        with open(BASELINE) as f:
            b = json.load(f)
            return b if isinstance(b, dict) else {p: None for p in b}
    except Exception:
        return None


def _sig(fn):
    from .mir import ty_str, strip_regions
    return '(%s) -> %s' % (', '.join(ty_str(strip_regions(t)) for t in (fn.get('inputs') or [])), ty_str(strip_regions(fn.get('output'))) if fn.get('output') else '?')


def _adt_shape(a):
    from .mir import ty_str, strip_regions
    return [[ty_str(strip_regions(fl['ty'])) for fl in v['fields']] for v in a['variants']]


def undo_adt_renames(facts, baseline):
    """Renamed private types and fields. A reference ADT that is missing while exactly one unknown, non-exported ADT of
    the same module has the same variants/field types has been renamed: every occurrence of the new path is rewritten
    to the old one (types, impl headers, printed function paths). An ADT whose fields kept their types and order
    but changed names gets the reference field names back. Returns the (new, old) pairs."""
    import re
    badts = baseline.get('__adts__') or {}
    if not badts:
        return facts, []
    cur = {a['path']: a for a in facts['adts']}
    done = []
    missing = [p for p in badts if p not in cur]
    unknown = [a for a in facts['adts'] if a['path'] not in badts and not a.get('exported')]
    text = None
    for m in missing:
        mod = m.rsplit('::', 1)[0]
        shape = [[t for _, t in v] for v in badts[m]]
        cands = [a for a in unknown if a['path'].rsplit('::', 1)[0] == mod and _adt_shape(a) == shape]
        others = [x for x in missing if x != m and x.rsplit('::', 1)[0] == mod and [[t for _, t in v] for v in badts[x]] == shape]
        if len(cands) != 1 or others:
            continue
        new = cands[0]['path']
        unknown.remove(cands[0])
        if text is None:
            text = json.dumps(facts)
        for a_, b_ in ((new, m), (new.rsplit('::', 1)[1], m.rsplit('::', 1)[1])):
            text = re.sub(r'(?<![A-Za-z0-9_])' + re.escape(a_) + r'(?![A-Za-z0-9_])', b_, text)
        done.append((new, m))
    if text is not None:
        facts = json.loads(text)
    for a in facts['adts']:
        ref = badts.get(a['path'])
        if ref and len(ref) == len(a['variants']):
            for v, rv in zip(a['variants'], ref):
                if len(v['fields']) == len(rv) and [n for n, _ in rv] != [fl['name'] for fl in v['fields']] and _adt_shape({'variants': [v]})[0] == [t for _, t in rv]:
                    for fl, (n, _) in zip(v['fields'], rv):
                        if fl['name'] != n:
                            done.append((a['path'] + '.' + fl['name'], a['path'] + '.' + n))
                            fl['name'] = n
    return facts, done


def undo_renames(facts, baseline):
    """A private function of the reference tree that is missing now, while exactly one unknown function with the same
    signature exists in the same module (or impl), has been *renamed*: give it its old name back (definition and
    call sites), so that the rules that anchor on it still find it. Returns [(new path, old path)]."""
    cur = {f['path'] for f in facts['fns']}
    missing = [p for p in baseline if not p.startswith('__') and p not in cur and baseline[p]]
    if not missing:
        return []
    unknown = [f for f in facts['fns'] if f['kind'] != 'Closure' and '{closure' not in f['dp'] and f['path'] not in baseline]
    done = []
    for m in missing:
        mod = m.rsplit('::', 1)[0]
        # an exported function that changes its name is an API change, not a rename - unless nobody outside can
        # name it (brood's sealed-trait idiom: a public trait in a private `sealed` module)
        cands = [f for f in unknown if f['path'].rsplit('::', 1)[0] == mod and _sig(f) == baseline[m] and (not f.get('exported') or '::sealed::' in f['path'] or f['path'].startswith('sealed::'))]
        others = [x for x in missing if x != m and x.rsplit('::', 1)[0] == mod and baseline[x] == baseline[m]]
        if len(cands) != 1 or others:
            continue
        f = cands[0]
        old_path, new_path = m, f['path']
        old_name = m.rsplit('::', 1)[1]
        new_name = f.get('name')
        f['path'], f['name'], f['renamed_from'] = old_path, old_name, new_path
        unknown.remove(f)
        for g in facts['fns']:
            for blk in g['mir']['blocks']:
                t = blk['term']
                if t.get('k') in ('call', 'tailcall') and 'path' in t.get('f', {}):
                    for tgt in (t['f'], t['f'].get('res') or {}):
                        if tgt.get('dp') == f['dp'] or tgt.get('path') == new_path:
                            tgt['path'] = old_path
                            if 'name' in tgt:
                                tgt['name'] = old_name
        done.append((new_path, old_path))
    # a trait method renamed in every impl: the trait's own item (the target of unresolved calls, and a provided
    # body if there is one) follows
    import re as _re
    tr = {}
    for new_path, old_path in done:
        m1 = _re.match(r'^<.* as ([^<>]+(?:<.*>)?)>::(\w+)$', new_path)
        m2 = _re.match(r'^<.* as ([^<>]+(?:<.*>)?)>::(\w+)$', old_path)
        if m1 and m2 and m1.group(1) == m2.group(1):
            t_ = m1.group(1).split('<')[0]
            tr.setdefault((t_, m1.group(2)), set()).add(m2.group(2))
    for (t_, new_name), olds in tr.items():
        if len(olds) != 1:
            continue
        old_name = next(iter(olds))
        np_, op_ = t_ + '::' + new_name, t_ + '::' + old_name
        if op_ in cur and op_ in baseline:
            continue
        for g in facts['fns']:
            if g['path'] == np_:
                g['path'], g['name'], g['renamed_from'] = op_, old_name, np_
            for blk in g['mir']['blocks']:
                t = blk['term']
                if t.get('k') in ('call', 'tailcall') and 'path' in t.get('f', {}):
                    for tgt in (t['f'], t['f'].get('res') or {}):
                        if tgt.get('path') == np_:
                            tgt['path'] = op_
                            if 'name' in tgt:
                                tgt['name'] = old_name
        done.append((np_, op_))
    return done


_OVERRIDES = {}


def _sole_body(facts, f):
    """An unresolved trait-method call runs the trait's provided body for certain only when nobody can have
    overridden it: no impl in the crate defines that method and the trait cannot be implemented elsewhere (brood's
    sealed-trait idiom: it lives in a `sealed` module)."""
    key = id(facts)
    if key not in _OVERRIDES:
        ov = set()
        for imp in facts['impls']:
            if imp.get('trait'):
                for it in imp['items']:
                    if it.get('kind') == 'AssocFn':
                        ov.add((imp['trait']['path'], it['name']))
        _OVERRIDES.clear()
        _OVERRIDES[key] = ov
    tr = f.get('trait')
    name = f.get('name') or f['path'].rsplit('::', 1)[-1]
    sealed = '::sealed::' in (tr or '') or (tr or '').startswith('sealed::')
    return bool(tr) and sealed and (tr, name) not in _OVERRIDES[key]


def undo_param_renames(facts, baseline):
    """Parameter names are not part of a function's interface: a reference function whose signature is unchanged
    gets its reference parameter names back (a renamed or destructured parameter would otherwise hide the anchor
    of every rule that looks a parameter up by name). Only the debug names of the argument locals change."""
    names = baseline.get('__params__') or {}
    n = 0
    for f in facts['fns']:
        want = names.get(f['path'])
        if not want or f['kind'] == 'Closure' or len(want) != f['mir']['argc'] or _sig(f) != baseline.get(f['path']):
            continue
        for i, nm in enumerate(want, 1):
            loc = f['mir']['locals'][i]
            if nm and loc.get('name') != nm:
                loc['name'] = nm
                n += 1
    return n


def stable_name(dp):
    """Baseline identity of a function: its def path without closure suffixes."""
    return dp


def _map_place(p, off):
    q = {'l': p['l'] + off, 'p': []}
    for e in p['p']:
        if isinstance(e, dict) and 'idx' in e:
            q['p'].append({'idx': e['idx'] + off})
        else:
            q['p'].append(e)
    return q


def _map_operand(o, off):
    if 'copy' in o:
        return {'copy': _map_place(o['copy'], off)}
    if 'move' in o:
        return {'move': _map_place(o['move'], off)}
    return o


def _map_rvalue(rv, off):
    rv = dict(rv)
    k = rv['k']
    if k in ('use', 'cast', 'repeat'):
        rv['op'] = _map_operand(rv['op'], off)
    elif k in ('ref', 'rawptr', 'discr'):
        rv['place'] = _map_place(rv['place'], off)
    elif k == 'binop':
        rv['a'] = _map_operand(rv['a'], off)
        rv['b'] = _map_operand(rv['b'], off)
    elif k == 'unop':
        rv['a'] = _map_operand(rv['a'], off)
    elif k == 'agg':
        rv['ops'] = [_map_operand(o, off) for o in rv['ops']]
    return rv


def _map_unwind(u, boff, caller_unwind):
    if isinstance(u, int):
        return u + boff
    if u == 'continue':
        return caller_unwind
    return u


def _subst(x, m):
    """Replace type parameters (by index) in a JSON fragment of callee MIR with the call site's generic arguments."""
    if isinstance(x, dict):
        if x.get('k') == 'param' and 'idx' in x and x['idx'] in m:
            return m[x['idx']]
        return {k: _subst(v, m) for k, v in x.items()}
    if isinstance(x, list):
        return [_subst(v, m) for v in x]
    return x


def inline_call(caller_mir, b, callee_mir, callee_generics=None, origin=None):
    """Splice callee_mir into caller_mir at the call terminating block b. Mutates caller_mir. Spliced blocks keep the
    path of the function they were written in ('inl'), for the rules that ask *where* code lives."""
    t = caller_mir['blocks'][b]['term']
    gargs = t['f'].get('args') or []
    if callee_generics and len(gargs) == len(callee_generics):
        m = {g['idx']: gargs[i] for i, g in enumerate(callee_generics) if g.get('kind') == 'type' and gargs[i].get('k') not in ('region', 'const')}
        if m:
            callee_mir = _subst(callee_mir, m)
    off = len(caller_mir['locals'])
    boff = len(caller_mir['blocks'])
    caller_unwind = t.get('unwind', 'continue')
    ln = t.get('ln', 0)
    for l in callee_mir['locals']:
        caller_mir['locals'].append(dict(l))
    # arguments
    for i, a in enumerate(t['args']):
        caller_mir['blocks'][b]['stmts'].append({'k': 'assign', 'place': {'l': off + 1 + i, 'p': []}, 'rv': {'k': 'use', 'op': a}, 'ln': ln, 'x': False})
    target = t.get('target')
    dest = t.get('dest')
    for blk in callee_mir['blocks']:
        nb = {'stmts': [], 'cleanup': blk['cleanup']}
        if blk.get('inl') or origin:
            nb['inl'] = blk.get('inl') or origin
        for s in blk['stmts']:
            s2 = dict(s)
            if s['k'] == 'assign':
                s2['place'] = _map_place(s['place'], off)
                s2['rv'] = _map_rvalue(s['rv'], off)
            elif s['k'] == 'setdiscr':
                s2['place'] = _map_place(s['place'], off)
            nb['stmts'].append(s2)
        ct = dict(blk['term'])
        k = ct['k']
        if k == 'goto':
            ct['target'] += boff
        elif k == 'switch':
            ct['discr'] = _map_operand(ct['discr'], off)
            ct['targets'] = [x + boff for x in ct['targets']]
            ct['otherwise'] += boff
        elif k == 'drop':
            ct['place'] = _map_place(ct['place'], off)
            ct['target'] += boff
            ct['unwind'] = _map_unwind(ct.get('unwind'), boff, caller_unwind)
        elif k == 'assert':
            ct['cond'] = _map_operand(ct['cond'], off)
            ct['target'] += boff
            ct['unwind'] = _map_unwind(ct.get('unwind'), boff, caller_unwind)
        elif k in ('call', 'tailcall'):
            ct['args'] = [_map_operand(a, off) for a in ct['args']]
            if 'indirect' in ct['f']:
                ct['f'] = dict(ct['f'], indirect=_map_operand(ct['f']['indirect'], off))
            if 'dest' in ct:
                ct['dest'] = _map_place(ct['dest'], off)
            if ct.get('target') is not None:
                ct['target'] += boff
            ct['unwind'] = _map_unwind(ct.get('unwind'), boff, caller_unwind)
        elif k == 'return':
            if dest is not None:
                nb['stmts'].append({'k': 'assign', 'place': dest, 'rv': {'k': 'use', 'op': {'move': {'l': off, 'p': []}}}, 'ln': ln, 'x': False})
            ct = {'k': 'goto', 'target': target, 'ln': ln, 'x': False} if target is not None else {'k': 'unreachable', 'ln': ln, 'x': False}
        elif k == 'resume':
            if isinstance(caller_unwind, int):
                ct = {'k': 'goto', 'target': caller_unwind, 'ln': ln, 'x': False}
        nb['term'] = ct
        caller_mir['blocks'].append(nb)
    caller_mir['blocks'][b]['term'] = {'k': 'goto', 'target': boff, 'ln': ln, 'x': False, 'inlined': True}


def inline_unknown(facts, baseline=None):
    """Returns (facts', list of (caller dp, callee dp)) with unknown local fns inlined into callers."""
    if baseline is None:
        baseline = load_baseline()
    if not baseline:
        return facts, []
    facts, _adt_done = undo_adt_renames(facts, baseline)
    undo_renames(facts, baseline)
    undo_param_renames(facts, baseline)
    fns = {f['dp']: f for f in facts['fns']}
    # identity = printed path (stable under reordering of impl blocks), not the numbered def path
    unknown = {dp for dp, f in fns.items() if f['kind'] != 'Closure' and f['path'] not in baseline and '{closure' not in dp}
    # a new *walk step* (method of a cons-cell impl of a trait that also has a Null impl) is a unit of analysis of its
    # own — the walk rules discover it from the impl — and not a helper to splice into its callers
    null_traits = {imp['trait']['path'] for imp in facts['impls'] if imp.get('trait') and imp['self'].get('k') == 'adt' and imp['self']['path'].endswith('::Null')}
    cons_impls = {imp['dp'] for imp in facts['impls'] if imp.get('trait') and imp['trait']['path'] in null_traits and imp['self'].get('k') == 'tuple'
                  and len(imp['self'].get('e', [])) == 2 and imp['self']['e'][1].get('k') == 'param'}
    null_impls = {imp['dp'] for imp in facts['impls'] if imp.get('trait') and imp['trait']['path'] in null_traits and imp['self'].get('k') == 'adt' and imp['self']['path'].endswith('::Null')}
    unknown = {dp for dp in unknown if fns[dp].get('parent') not in cons_impls and fns[dp].get('parent') not in null_impls}
    if not unknown:
        return facts, []
    done = []
    for rnd in range(MAX_DEPTH):
        changed = False
        for dp, f in fns.items():
            mir = f['mir']
            b = 0
            while b < len(mir['blocks']):
                t = mir['blocks'][b]['term']
                if t['k'] == 'call' and 'path' in t['f']:
                    tgt = t['f'].get('res', t['f'])
                    cdp = tgt.get('dp')
                    # an unresolved call of a trait method names the trait's item: a provided body there is only a
                    # default that any impl may override, never what the call does
                    if t['f'].get('trait') and 'res' not in t['f'] and not _sole_body(facts, t['f']):
                        cdp = None
                    if cdp in unknown and cdp != dp and cdp in fns and len(mir['blocks']) + len(fns[cdp]['mir']['blocks']) < MAX_BLOCKS:
                        inline_call(mir, b, copy.deepcopy(fns[cdp]['mir']), fns[cdp].get('generics'), origin={'dp': cdp, 'path': fns[cdp]['path']})
                        done.append((dp, cdp))
                        changed = True
                b += 1
        if not changed:
            break
    # a helper that has been made transparent everywhere is no longer a separate unit of analysis
    inlined = {c for _, c in done}
    still_called = set()
    for dp, f in fns.items():
        for blk in f['mir']['blocks']:
            t = blk['term']
            if t['k'] == 'call' and 'path' in t['f']:
                tgt = t['f'].get('res', t['f'])
                if tgt.get('dp') in inlined and dp not in inlined:
                    still_called.add(tgt['dp'])
    # ... nor is a helper that is still handed on as a function item (`find_map(Self::helper)`)
    def _fn_items(x, out):
        if isinstance(x, dict):
            c = x.get('const')
            if isinstance(c, dict) and isinstance(c.get('fn'), dict):
                out.add((c['fn'].get('res') or c['fn']).get('dp') or c['fn'].get('dp'))
            for v in x.values():
                _fn_items(v, out)
        elif isinstance(x, list):
            for v in x:
                _fn_items(v, out)
    for dp, f in fns.items():
        if dp in inlined:
            continue
        refs = set()
        _fn_items(f['mir'], refs)
        still_called |= (refs & inlined)
    drop = {dp for dp in inlined if dp not in still_called and not fns[dp].get('exported')}
    if drop:
        facts['fns'] = [f for f in facts['fns'] if f['dp'] not in drop]   # closures of a dropped helper stay: the spliced body refers to them
    return facts, done
