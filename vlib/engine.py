"""Rule registry, run context, evidence + known-findings plumbing."""
import json, os, sys, time, traceback
from . import facts as factsmod
from . import mir

VERIF = factsmod.VERIF
RULES = {}          # id -> Rule
WITNESS = {}        # family id -> family object (see witness.py)


class Violation:
    def __init__(self, rule, key, where, msg, detail=None, tag=None):
        self.tag = tag
        self.rule = rule
        self.key = '%s/%s' % (rule, key)      # never contains line numbers
        self.where = where                     # file:line for humans
        self.msg = msg
        self.detail = detail

    def to_json(self):
        return {'rule': self.rule, 'key': self.key, 'where': self.where, 'msg': self.msg, 'detail': self.detail}


class Result:
    def __init__(self):
        self.instances = []     # strings describing what was examined
        self.violations = []
        self.notes = []

    def inst(self, s, tag=None):
        self.instances.append(s)
        self.inst_tags = getattr(self, 'inst_tags', [])
        self.inst_tags.append(tag)

    def viol(self, rule, key, where, msg, detail=None, tag=None):
        self.violations.append(Violation(rule, key, where, msg, detail, tag))


class Rule:
    def __init__(self, rid, fn, props, floor, doc, tier, configs):
        self.id = rid
        self.fn = fn
        self.props = props
        self._floor = floor
        self.doc = doc
        self.tier = tier
        self.configs = configs


def _floor_for(r, cfg):
    if isinstance(r._floor, dict):
        return r._floor.get(cfg, min(r._floor.values()))
    return r._floor


Rule.floor_for = _floor_for
Rule.floor = property(lambda self: self._floor if not isinstance(self._floor, dict) else self._floor.get('all'))


def rule(rid, props, floor, tier='quick', configs=('all',), doc=None):
    """Register a rule. floor = minimum number of instances the rule must examine (counted on the
    tree when the rule was written); fewer is a failure of the check (fail closed)."""
    def deco(fn):
        RULES[rid] = Rule(rid, fn, props, floor, doc or (fn.__doc__ or '').strip(), tier, configs)
        return fn
    return deco


class Ctx:
    def __init__(self, repo=None, tier='quick'):
        self.repo = repo
        self.tier = tier
        self._progs = {}
        self.extract_info = []

    def prog(self, config='all'):
        if config not in self._progs:
            f, info = factsmod.extract(config, self.repo)
            from . import inline
            f, inlined = (f, []) if os.environ.get('VERIF_NO_INLINE') else inline.inline_unknown(f)
            if inlined:
                info['inlined_unknown_helpers'] = sorted({'%s <- %s' % (a.split('::', 1)[-1], b.split('::', 1)[-1]) for a, b in inlined})[:40]
            self.extract_info.append(info)
            self._progs[config] = mir.Program(f)
        return self._progs[config]


def load_known():
    p = os.path.join(VERIF, 'known-findings.json')
    if not os.path.exists(p):
        return []
    with open(p) as f:
        return json.load(f)


def run_rules(ctx, prop, tier):
    """Run every rule serving `prop` at `tier`. Returns list of (rule, config, Result|Exception)."""
    out = []
    for rid in sorted(RULES):
        r = RULES[rid]
        if prop not in r.props:
            continue
        if r.tier == 'thorough' and tier != 'thorough':
            continue
        configs = r.configs if tier == 'thorough' else r.configs[:1]
        for cfg in configs:
            try:
                res = r.fn(ctx.prog(cfg))
                out.append((r, cfg, res))
            except Exception as e:   # a crashing rule is a broken check, never a pass
                out.append((r, cfg, e))
                traceback.print_exc()
    return out
