"""Path-enumerating abstract interpreter for brood's registry-walk step functions (and the other
small unsafe storage functions). It does NOT execute code: it propagates *shape* facts (which column
slot a pointer came from, which type it was cast to, how often the identifier iterator was advanced,
which branch of the presence bit a path is on) along every CFG path of the MIR and records events.
Rules (W*, O*, U*) are predicates over these per-path event traces.

Abstract values are tuples; see `describe()` for a rendering."""
from .mir import *

MAX_PATHS = 4000
MAX_VISITS = 2     # per block per path (loops are unrolled at most this often)


def is_iter_ty(t):
    return ty_mentions(t, lambda n: is_adt(n, 'archetype::identifier::iter::Iter'))


def is_cols_ty(t):
    return ty_mentions(t, lambda n: n.get('k') == 'tuple' and len(n['e']) == 2 and n['e'][0].get('k') == 'ptr'
                       and n['e'][0]['t'].get('name') == 'u8' and n['e'][1].get('name') == 'usize')


def is_colvec_ty(t):
    t = peel_refs(t)
    return t is not None and t.get('k') == 'adt' and t['path'] == 'alloc::vec::Vec' and is_cols_ty(t['args'][0]) and t['args'][0].get('k') == 'tuple'


class Path:
    def __init__(self):
        self.env = {}          # (frame, local) -> absval
        self.events = []
        self.visits = {}
        self.conds = []        # path conditions: ('bit', i, n, bool) / ('typeid_eq', T1, T2, bool) / ('other', block, edge)
        self.frame_ctr = 0
        self.obj_ctr = 0
        self.ended = None      # 'return' | 'unwind' | 'unreachable' | 'cutoff'

    def clone(self):
        p = Path()
        p.env = dict(self.env)
        p.events = list(self.events)
        p.visits = dict(self.visits)
        p.conds = list(self.conds)
        p.frame_ctr = self.frame_ctr
        p.obj_ctr = self.obj_ctr
        return p

    def known_bit(self, i, n):
        for c in self.conds:
            if c[0] == 'bit' and c[1] == i and c[2] == n:
                return c[3]
        return None

    def known_typeid(self, a, b):
        for c in self.conds:
            if c[0] == 'typeid_eq' and {c[1], c[2]} == {a, b}:
                return c[3]
        return None

    def ev(self, kind, **kw):
        kw['k'] = kind
        self.events.append(kw)


REFLIKE = ('col', 'colvec', 'elem', 'vec', 'slice', 'md', 'fresh', 'it')


class Interp:
    def __init__(self, prog, fn, follow_unwind=False):
        self.prog = prog
        self.fn = fn
        self.follow_unwind = follow_unwind
        self.paths = []
        self.truncated = False
        imp = fn.impl
        self.head_ty = None
        self.tail_param = None
        if imp is not None and imp['self'].get('k') == 'tuple' and len(imp['self']['e']) == 2:
            self.head_ty = imp['self']['e'][0]
            tl = imp['self']['e'][1]
            if tl.get('k') == 'param':
                self.tail_param = tl['name']
        self.trait_item = fn.d.get('trait_item')

    # ---------------------------------------------------------------------------------------------
    def run(self):
        body = self.fn.body
        p = Path()
        frame = 0
        for l in range(1, body.argc + 1):
            t = body.local_ty(l)
            name = body.local_name(l) or '_%d' % l
            if is_iter_ty(t) and peel_refs(t).get('k') == 'adt' and 'identifier::iter::Iter' in peel_refs(t)['path']:
                p.env[(frame, l)] = ('it', l, 0)
            elif is_colvec_ty(t):
                p.env[(frame, l)] = ('colvec', l)
            elif is_cols_ty(t) and peel_refs(t).get('k') in ('slice',):
                p.env[(frame, l)] = ('col', l, 0)
            elif t.get('k') == 'ptr' and t['t'].get('name') == 'u8':
                p.env[(frame, l)] = ('buf', l, ())
            elif t.get('k') == 'adt' and t['path'] == 'alloc::vec::Vec' and t['args'] and not is_cols_ty(t):
                p.env[(frame, l)] = ('fresh', 100000 + l, ty_key(strip_regions(t['args'][0])), 'owned-input')
            else:
                p.env[(frame, l)] = ('param', l, name)
        self.explore(p, self.fn, frame, 0, None)
        return self.paths

    def finish(self, p, how):
        p.ended = how
        self.paths.append(p)

    # ---------------------------------------------------------------------------------------------
    def explore(self, p, fn, frame, b, cont):
        """Interpret from block b of fn in frame. cont = continuation (callable(p, retval)) for inlined
        closures, None for the root function."""
        body = fn.body
        while True:
            if len(self.paths) > MAX_PATHS:
                self.truncated = True
                return
            key = (frame, b)
            p.visits[key] = p.visits.get(key, 0) + 1
            if p.visits[key] > MAX_VISITS:
                p.ev('loop_cutoff', block=b)
                self.finish(p, 'cutoff') if cont is None else None
                return
            blk = body.blocks[b]
            for i, s in enumerate(blk['stmts']):
                if s['k'] == 'assign':
                    self.assign(p, fn, frame, s['place'], self.rvalue(p, fn, frame, s['rv'], s), s, b)
            t = blk['term']
            k = t['k']
            if k == 'goto':
                b = t['target']
                continue
            if k == 'return':
                rv = p.env.get((frame, 0), ('unk', 'ret'))
                if cont is None:
                    p.ev('return', value=rv, block=b)
                    self.finish(p, 'return')
                else:
                    cont(p, rv)
                return
            if k in ('unreachable',):
                if cont is None:
                    self.finish(p, 'unreachable')
                return
            if k in ('resume', 'terminate'):
                if cont is None:
                    self.finish(p, 'unwind')
                return
            if k == 'assert':
                b = t['target']
                continue
            if k == 'drop':
                v = self.place_val(p, fn, frame, t['place'])
                p.ev('drop', value=v, ty=t['ty'], block=b, ln=t['ln'], fn=fn.dp, cleanup=blk['cleanup'])
                b = t['target']
                continue
            if k == 'switch':
                dv = self.operand(p, fn, frame, t['discr'])
                edges = list(zip(t['values'], t['targets'])) + [(None, t['otherwise'])]
                # de-duplicate targets
                decided = self.decide(p, dv, t)
                if decided is not None:
                    b = decided
                    continue
                first = True
                todo = []
                for val, tgt in edges:
                    q = p.clone()
                    self.record_cond(q, dv, val, t, b)
                    todo.append((q, tgt))
                for q, tgt in todo:
                    self.explore(q, fn, frame, tgt, cont)
                return
            if k in ('call', 'tailcall'):
                nxt = self.call(p, fn, frame, t, b, cont)
                if nxt is None:
                    return
                b = nxt
                continue
            # unknown terminator
            if cont is None:
                self.finish(p, 'other:' + k)
            return

    # ---------------------------------------------------------------------------------------------
    def decide(self, p, dv, t):
        """If the switch condition is already known on this path, return the target block."""
        if dv[0] == 'bit':
            kb = p.known_bit(dv[1], dv[2])
            if kb is not None:
                return self.bool_target(t, kb)
        if dv[0] == 'typeid_eq':
            kt = p.known_typeid(dv[1], dv[2])
            if kt is not None:
                return self.bool_target(t, kt)
        if dv[0] == 'const' and isinstance(dv[1], int):
            for val, tgt in zip(t['values'], t['targets']):
                if val == dv[1]:
                    return tgt
            return t['otherwise']
        if dv[0] == 'discr':
            inner = dv[1]
            if inner[0] in ('some', 'none', 'ok', 'err'):
                want = {'none': 0, 'some': 1, 'ok': 0, 'err': 1}[inner[0]]
                for val, tgt in zip(t['values'], t['targets']):
                    if val == want:
                        return tgt
                return t['otherwise']
        return None

    def bool_target(self, t, truth):
        if 0 in t['values']:
            ft = t['targets'][t['values'].index(0)]
            return t['otherwise'] if truth else ft
        if 1 in t['values']:
            tt = t['targets'][t['values'].index(1)]
            return tt if truth else t['otherwise']
        return t['otherwise']

    def record_cond(self, q, dv, val, t, b):
        if t['discr_ty'].get('name') == 'bool':
            truth = (val != 0) if val is not None else (0 in t['values'])
            if dv[0] == 'bit':
                q.conds.append(('bit', dv[1], dv[2], truth))
                q.ev('branch_bit', it=dv[1], n=dv[2], value=truth, block=b)
                return
            if dv[0] == 'typeid_eq':
                q.conds.append(('typeid_eq', dv[1], dv[2], truth))
                q.ev('branch_typeid', a=dv[1], b=dv[2], value=truth, block=b)
                return
            # normal form: strip negations, Ne -> !Eq, constant operand on the right
            while dv[0] == 'unop' and dv[1] == 'Not':
                dv = dv[2]
                truth = not truth
            if dv[0] == 'binop' and dv[1] == 'Ne':
                dv = ('binop', 'Eq', dv[2], dv[3])
                truth = not truth
            if dv[0] == 'binop' and dv[1] == 'Eq' and dv[2][0] == 'const' and dv[3][0] != 'const':
                dv = ('binop', 'Eq', dv[3], dv[2])
            q.conds.append(('cond', dv, truth))
            q.ev('branch', on=dv, value=truth, block=b)
            return
        q.conds.append(('switch', dv, val))
        q.ev('branch', on=dv, value=val, block=b)

    # ---------------------------------------------------------------------------------------------
    def place_val(self, p, fn, frame, pl):
        v = p.env.get((frame, pl['l']), ('unk', 'l%d' % pl['l']))
        for e in pl['p']:
            v = self.project(p, v, e)
        return v

    def project(self, p, v, e):
        if e == '*':
            if v[0] == 'ref':
                return p.env.get((v[1], v[2]), ('unk', 'deref'))
            return v   # reference-like values are collapsed with their pointee
        if isinstance(e, dict) and 'f' in e:
            f = e['f']
            if v[0] == 'elem':
                p.ev('elem_field', col=v[1], off=v[2], idx=v[3], f=f)
                return ('elemf', v[1], v[2], v[3], f)
            if v[0] == 'tuple':
                return v[1][f] if f < len(v[1]) else ('unk', 'tuplef')
            if v[0] == 'closure':
                return v[2][f] if f < len(v[2]) else ('unk', 'upvar')
            if v[0] in ('some', 'ok', 'err', 'variant'):
                return v[1] if f == 0 else ('unk', 'variantf')
            if v[0] == 'adt':
                return v[3][f] if f < len(v[3]) else ('unk', 'adtf')
            fty = e.get('ty')
            if v[0] in ('param', 'field') and fty is not None and fty.get('k') == 'adt' and fty['path'] == 'alloc::vec::Vec' and fty['args'] and not is_cols_ty(fty):
                # an owned Vec<T> handed in by the caller (batch column): a fresh owner
                base = v
                ident = 100000
                while base[0] == 'field':
                    ident = ident * 10 + base[2]
                    base = base[1]
                ident = ident * 100 + (base[1] if base[0] == 'param' else 0) * 10 + f
                return ('fresh', ident, ty_key(strip_regions(fty['args'][0])), 'owned-input')
            return ('field', v, f)
        if isinstance(e, dict) and 'variant' in e:
            if v[0] in ('some', 'none', 'ok', 'err'):
                return v
            return ('variant', v, e.get('vname') or e['variant'])
        return ('proj', v, str(e))

    def operand(self, p, fn, frame, op):
        if 'const' in op:
            c = op['const']
            if 'val' in c:
                return ('const', c['val'])
            if 'fn' in c:
                return ('fnitem', c['fn']['path'])
            if 'uneval' in c:
                return ('uneval', c['uneval_name'], ty_key(c.get('uneval_args')))
            return ('const', c.get('s'))
        pl = op_place(op)
        if pl is None:
            return ('unk', 'op')
        return self.place_val(p, fn, frame, pl)

    def rvalue(self, p, fn, frame, rv, stmt):
        k = rv['k']
        if k == 'use':
            return self.operand(p, fn, frame, rv['op'])
        if k in ('ref', 'rawptr'):
            pl = rv['place']
            if not pl['p']:
                cur = p.env.get((frame, pl['l']))
                return ('ref', frame, pl['l'])
            if pl['p'] == ['*']:
                cur = p.env.get((frame, pl['l']))
                if cur is not None and cur[0] == 'ref':
                    return cur       # reborrow of a reference to a local: still that reference
            return self.place_val(p, fn, frame, pl)
        if k == 'cast':
            v = self.operand(p, fn, frame, rv['op'])
            ck = rv['cast']
            if ck.startswith('PtrToPtr') or ck.startswith('Transmute'):
                tgt = rv['ty']
                if tgt.get('k') == 'ptr' and v[0] in ('elemf', 'buf', 'vecptr', 'tptr'):
                    inner = tgt['t']
                    if v[0] == 'tptr' and v[2] == ty_key(strip_regions(inner)):
                        return v
                    if inner.get('name') == 'u8':
                        if v[0] == 'vecptr':
                            return ('vecptr_u8', v[1])
                        return v
                    p.ev('cast', src=v, ty=inner, how='as', ln=stmt['ln'], fn=fn.dp)
                    return ('tptr', v, ty_key(strip_regions(inner)))
            return v
        if k == 'agg':
            vals = tuple(self.operand(p, fn, frame, o) for o in rv['ops'])
            a = rv['agg']
            if a == 'tuple':
                return ('tuple', vals)
            if a == 'closure':
                return ('closure', rv['dp'], vals)
            if a == 'adt':
                path = rv['path']
                if path.endswith('RangeFrom') and vals and vals[0][0] == 'const':
                    return ('rangefrom', vals[0][1])
                if path.endswith('RangeFrom') and vals and vals[0][0] == 'bit_as_int':
                    return ('rangefrom_bit', vals[0][1], vals[0][2])       # `usize::from(bit)..`
                if path == 'core::option::Option':
                    return ('some', vals[0]) if rv['vname'] == 'Some' else ('none',)
                if path == 'core::result::Result':
                    return ('ok', vals[0]) if rv['vname'] == 'Ok' else ('err', vals[0])
                return ('adt', path, rv['vname'], vals)
            return ('agg', a, vals)
        if k == 'binop':
            a = self.operand(p, fn, frame, rv['a'])
            c = self.operand(p, fn, frame, rv['b'])
            if rv['op'] in ('Eq', 'Ne') and a[0] == 'typeid' and c[0] == 'typeid':
                return ('typeid_eq', a[1], c[1]) if rv['op'] == 'Eq' else ('not', ('typeid_eq', a[1], c[1]))
            if rv['op'] == 'Offset' and a[0] == 'buf' and c[0] == 'sizeof':
                return ('buf', a[1], a[2] + (c[1],))
            return ('binop', rv['op'], a, c)
        if k == 'unop':
            a = self.operand(p, fn, frame, rv['a'])
            if rv['op'] == 'Not' and a[0] == 'bit':
                return ('notbit', a[1], a[2])
            if rv['op'] == 'Not' and a[0] == 'const' and a[1] in (0, 1, True, False):
                return ('const', int(not a[1]))
            if rv['op'] == 'Not' and a[0] == 'unop' and a[1] == 'Not':
                return a[2]
            return ('unop', rv['op'], a)
        if k == 'discr':
            return ('discr', self.place_val(p, fn, frame, rv['place']))
        return ('unk', k)

    def assign(self, p, fn, frame, pl, val, stmt, b):
        if not pl['p']:
            old = p.env.get((frame, pl['l']))
            p.env[(frame, pl['l'])] = val
            self.note_col_update(p, old, val, stmt, fn, b)
            return
        # writes through projections
        base = p.env.get((frame, pl['l']), ('unk', 'base'))
        proj = pl['p']
        if proj == ['*']:
            if base[0] == 'ref':
                old = p.env.get((base[1], base[2]))
                p.env[(base[1], base[2])] = val
                self.note_col_update(p, old, val, stmt, fn, b)
                return
            if base[0] == 'elem':
                p.ev('slot_write', slot=base, value=val, ln=stmt['ln'], fn=fn.dp, block=b)
                return
            if base[0] == 'elemf':
                # `*pointer = ..` where `pointer = &mut slot.0` (destructured column slot)
                p.ev('slot_field_write', slot=('elem', base[1], base[2], base[3], True), f=base[4], value=val, ln=stmt['ln'], fn=fn.dp, block=b)
                return
            if base[0] in ('slice', 'vec', 'sliceelem'):
                p.ev('elem_write', target=base, value=val, ln=stmt['ln'], fn=fn.dp, block=b)
                return
        tgt = self.place_val(p, fn, frame, {'l': pl['l'], 'p': proj[:-1]}) if proj else base
        if tgt[0] == 'elem' and isinstance(proj[-1], dict) and 'f' in proj[-1]:
            p.ev('slot_field_write', slot=tgt, f=proj[-1]['f'], value=val, ln=stmt['ln'], fn=fn.dp, block=b)
            return
        p.ev('field_write', base=tgt, proj=str(proj[-1]), value=val, ln=stmt['ln'], fn=fn.dp, block=b)

    def note_col_update(self, p, old, new, stmt, fn, b):
        if old is not None and old[0] == 'col':
            if new[0] == 'col' and new[1] == old[1]:
                if new[2] != old[2]:
                    p.ev('adv', col=old[1], frm=old[2], to=new[2], ln=stmt.get('ln'), fn=fn.dp, block=b)
            else:
                p.ev('col_clobber', col=old[1], value=new, ln=stmt.get('ln'), fn=fn.dp, block=b)

    # ---------------------------------------------------------------------------------------------
    def new_obj(self, p):
        p.obj_ctr += 1
        return p.obj_ctr

    def unwrap_md(self, v):
        while v[0] == 'md':
            v = v[1]
        return v

    def deref_arg(self, p, v):
        """Value behind a reference argument."""
        if v[0] == 'ref':
            return p.env.get((v[1], v[2]), ('unk', 'deref'))
        return v

    def call(self, p, fn, frame, t, b, cont):
        f = t['f']
        body = fn.body
        args = [self.operand(p, fn, frame, a) for a in t['args']]
        dest = t.get('dest')
        target = t.get('target')
        ln = t['ln']

        def setd(v):
            if dest is not None:
                self.assign(p, fn, frame, dest, v, {'ln': ln}, b)

        def user_unwind():
            pass

        if 'path' not in f:
            p.ev('call_indirect', args=args, ln=ln, fn=fn.dp, block=b)
            setd(('unk', 'indirect'))
            return target
        name = f['name']
        path = f['path']
        gargs = [g for g in f['args'] if g.get('k') not in ('region', 'const')]
        trait = f.get('trait')
        unwind = t.get('unwind')

        # --- tail call of the same walk on the tail registry
        if trait and self.trait_item and path == self.trait_item and gargs and is_param(gargs[0], self.tail_param):
            p.ev('tail', args=args, gargs=[ty_key(strip_regions(g)) for g in gargs], ln=ln, fn=fn.dp, block=b, frame=frame)
            setd(('tailret',))
            return target
        if trait and path in getattr(self.prog, 'walk_items', ()) and path != self.trait_item and gargs and is_param(gargs[0], self.tail_param):
            p.ev('tail', args=args, gargs=[ty_key(strip_regions(g)) for g in gargs], ln=ln, fn=fn.dp, block=b, frame=frame, delegate=path)
            setd(('tailret',))
            return target
        # --- a thin wrapper handing the whole step to a sibling walk method of this same cell (`Self::other_walk(..)`)
        if trait and path in getattr(self.prog, 'walk_items', ()) and path != self.trait_item and gargs and self.fn.impl is not None \
                and ty_key(strip_regions(gargs[0])) == ty_key(strip_regions(self.fn.impl['self'])):
            p.ev('tail', args=args, gargs=[ty_key(strip_regions(g)) for g in gargs], ln=ln, fn=fn.dp, block=b, frame=frame, delegate=path, on_self=True)
            setd(('tailret',))
            return target
        if trait and self.trait_item and path == self.trait_item:
            p.ev('self_call_other', on=ty_str(gargs[0]) if gargs else '?', args=args, ln=ln, fn=fn.dp, block=b)
            setd(('unk', 'selfcall'))
            return target

        # --- identifier iterator
        if path == 'core::iter::Iterator::next' and args and self.deref_arg(p, args[0])[0] == 'it':
            it = self.deref_arg(p, args[0])
            new = ('it', it[1], it[2] + 1)
            if args[0][0] == 'ref':
                p.env[(args[0][1], args[0][2])] = new
            p.ev('next', it=it[1], n=it[2] + 1, ln=ln, fn=fn.dp, block=b)
            setd(('optbit', it[1], it[2] + 1))
            return target
        if path in ('core::mem::take', 'core::mem::replace') and args and args[0][0] == 'ref':
            # mem::take(&mut columns) / mem::replace(&mut columns, x): hand out the current value, leave the other behind
            cur = p.env.get((args[0][1], args[0][2]), ('unk', 'taken'))
            if cur[0] in ('col', 'colvec'):
                newv = args[1] if (path.endswith('replace') and len(args) > 1) else ('unk', 'taken-out')
                old = p.env.get((args[0][1], args[0][2]))
                p.env[(args[0][1], args[0][2])] = newv
                if newv[0] == 'col':
                    self.note_col_update(p, old, newv, {'ln': ln}, fn, b)
                setd(cur)
                return target
        if name in ('unwrap_unchecked', 'unwrap', 'expect') and args:
            a = args[0]
            if a[0] == 'optbit':
                setd(('bit', a[1], a[2]))
                return target
            if a[0] == 'some':
                setd(a[1])
                return target
            if a[0] == 'optelem':
                setd(a[1])
                return target
            p.ev('unwrap', value=a, name=name, ln=ln, fn=fn.dp, block=b)
            setd(('unwrapped', a))
            return target
        if path == 'core::convert::From::from' and args and args[0][0] == 'bit':
            setd(('bit_as_int', args[0][1], args[0][2]))
            return target

        # --- bool::then(bit, closure): closure runs iff bit
        if name in ('then', 'then_some') and path.startswith('core::bool::') and len(args) == 2:
            cond, clo = args
            truth = None
            if cond[0] == 'bit':
                truth = p.known_bit(cond[1], cond[2])
            branches = [truth] if truth is not None else [True, False]
            for tr in branches:
                q = p if len(branches) == 1 else p.clone()
                if cond[0] == 'bit' and truth is None:
                    q.conds.append(('bit', cond[1], cond[2], tr))
                    q.ev('branch_bit', it=cond[1], n=cond[2], value=tr, block=b, via='then')
                elif truth is None:
                    q.conds.append(('cond', cond, tr))
                    q.ev('branch', on=cond, value=tr, block=b, via='then')
                if tr and name == 'then' and clo[0] == 'closure' and clo[1] in self.prog.fns:
                    cfn = self.prog.fns[clo[1]]
                    q.frame_ctr += 1
                    nf = q.frame_ctr + 1000 * (frame + 1)
                    q.env[(nf, 1)] = clo

                    def k(q2, rv, fn=fn, frame=frame, dest=dest, target=target, cont=cont, ln=ln, b=b):
                        if dest is not None:
                            self.assign(q2, fn, frame, dest, ('some', rv), {'ln': ln}, b)
                        self.explore(q2, fn, frame, target, cont)
                    self.explore(q, cfn, nf, 0, k)
                else:
                    if tr:
                        self.assign(q, fn, frame, dest, ('some', clo), {'ln': ln}, b)
                    else:
                        self.assign(q, fn, frame, dest, ('none',), {'ln': ln}, b)
                    self.explore(q, fn, frame, target, cont)
            return None

        # --- a closure called through the Fn traits (e.g. a helper taking `f: impl FnOnce(&mut Vec<C>)`)
        if path in ('core::ops::FnOnce::call_once', 'core::ops::FnMut::call_mut', 'core::ops::Fn::call') and len(args) == 2:
            clo = args[0]
            if clo[0] == 'ref':
                clo = p.env.get((clo[1], clo[2]), clo)
            if clo[0] == 'closure' and clo[1] in self.prog.fns and args[1][0] == 'tuple':
                cfn = self.prog.fns[clo[1]]
                p.frame_ctr += 1
                nf = p.frame_ctr + 1000 * (frame + 1)
                p.env[(nf, 1)] = clo
                for i_, v_ in enumerate(args[1][1]):
                    p.env[(nf, 2 + i_)] = v_

                def k(q2, rv, fn=fn, frame=frame, dest=dest, target=target, cont=cont, ln=ln, b=b):
                    if dest is not None:
                        self.assign(q2, fn, frame, dest, rv, {'ln': ln}, b)
                    if target is not None:
                        self.explore(q2, fn, frame, target, cont)
                self.explore(p, cfn, nf, 0, k)
                return None

        # --- column slices
        if name in ('get_unchecked', 'get_unchecked_mut', 'get', 'get_mut', 'index', 'index_mut') and len(args) == 2:
            base = self.deref_arg(p, args[0])
            base = self.unwrap_md(base)
            idx = args[1]
            mut = name.endswith('mut')
            if base[0] == 'col':
                if idx[0] == 'const' and isinstance(idx[1], int):
                    el = ('elem', base[1], base[2], idx[1], mut)
                    p.ev('col_access', col=base[1], off=base[2], idx=idx[1], mut=mut, checked=name.startswith('get') and 'unchecked' not in name, ln=ln, fn=fn.dp, block=b)
                    setd(('optelem', el) if name in ('get', 'get_mut') else el)
                    return target
                if idx[0] == 'rangefrom':
                    setd(('col', base[1], base[2] + idx[1]))
                    return target
                if idx[0] == 'rangefrom_bit':
                    # columns.get_unchecked(usize::from(bit)..): skip the head column iff the bit is set
                    truth = p.known_bit(idx[1], idx[2])
                    branches = [truth] if truth is not None else [True, False]
                    for tr in branches:
                        q = p if len(branches) == 1 else p.clone()
                        if truth is None:
                            q.conds.append(('bit', idx[1], idx[2], tr))
                            q.ev('branch_bit', it=idx[1], n=idx[2], value=tr, block=b, via='rangefrom')
                        nv = ('col', base[1], base[2] + (1 if tr else 0))
                        if dest is not None:
                            self.assign(q, fn, frame, dest, nv, {'ln': ln}, b)
                        self.explore(q, fn, frame, target, cont)
                    return None
                p.ev('col_access_dynamic', col=base[1], off=base[2], idx=idx, ln=ln, fn=fn.dp, block=b)
                setd(('unk', 'colidx'))
                return target
            if base[0] in ('vec', 'slice', 'fresh'):
                p.ev('vec_method', name=name, vec=base, args=args[1:], ln=ln, fn=fn.dp, block=b)
                setd(('sliceelem', base, idx, mut))
                return target
        if name in ('split_first', 'split_first_mut', 'split_at', 'split_at_mut', 'iter', 'iter_mut', 'first', 'first_mut', 'last', 'len', 'is_empty') and args:
            base = self.unwrap_md(self.deref_arg(p, args[0]))
            if base[0] == 'col' and name in ('split_first', 'split_first_mut'):
                # == (get_unchecked(0), get_unchecked(1..)) behind an Option
                mut = name.endswith('mut')
                el = ('elem', base[1], base[2], 0, mut)
                p.ev('col_access', col=base[1], off=base[2], idx=0, mut=mut, checked=True, ln=ln, fn=fn.dp, block=b)
                setd(('some', ('tuple', [el, ('col', base[1], base[2] + 1)])))
                return target
            if base[0] == 'col' and name in ('first', 'first_mut'):
                mut = name.endswith('mut')
                el = ('elem', base[1], base[2], 0, mut)
                p.ev('col_access', col=base[1], off=base[2], idx=0, mut=mut, checked=True, ln=ln, fn=fn.dp, block=b)
                setd(('optelem', el))
                return target
            if base[0] == 'col':
                p.ev('col_other', name=name, col=base[1], off=base[2], ln=ln, fn=fn.dp, block=b)
                setd(('unk', 'col_' + name))
                return target

        # --- pointer casts, raw parts
        if name == 'cast' and path.startswith('core::ptr::') and len(gargs) == 2 and args:
            src = args[0]
            T = gargs[1]
            if T.get('name') == 'u8':
                if src[0] == 'vecptr':
                    setd(('vecptr_u8', src[1]))
                else:
                    setd(src)
                return target
            p.ev('cast', src=src, ty=T, how='cast', ln=ln, fn=fn.dp, block=b)
            setd(('tptr', src, ty_key(strip_regions(T))))
            return target
        if name == 'from_raw_parts' and path.startswith('alloc::vec::Vec') and len(args) == 3:
            T = gargs[0]
            oid = self.new_obj(p)
            v = ('vec', oid, ty_key(strip_regions(T)), args[0], args[1], args[2])
            p.ev('from_raw', what='vec', obj=oid, ty=T, ptr=args[0], len=args[1], cap=args[2], ln=ln, fn=fn.dp, block=b)
            setd(v)
            return target
        if name in ('from_raw_parts', 'from_raw_parts_mut') and path.startswith('core::slice::') and len(args) == 2:
            T = gargs[0]
            oid = self.new_obj(p)
            v = ('slice', oid, ty_key(strip_regions(T)), args[0], args[1], name.endswith('mut'))
            p.ev('from_raw', what='slice_mut' if name.endswith('mut') else 'slice', obj=oid, ty=T, ptr=args[0], len=args[1], ln=ln, fn=fn.dp, block=b)
            setd(v)
            return target
        if path == 'core::mem::ManuallyDrop::<T>::new' and args:
            if args[0][0] in ('vec', 'fresh'):
                p.env[('wrapped', args[0][1])] = True
            setd(('md', args[0]))
            return target
        if path in ('core::mem::ManuallyDrop::<T>::into_inner', 'core::mem::ManuallyDrop::<T>::take') and args:
            inner = self.unwrap_md(self.deref_arg(p, args[0]))
            p.ev('md_unwrap', value=inner, ln=ln, fn=fn.dp, block=b)
            setd(inner)
            return target
        if path in DEREF_CALLS and args:
            inner = self.deref_arg(p, args[0])
            if inner[0] == 'md':
                setd(inner[1])
            else:
                setd(inner)
            return target

        # --- Vec methods on tracked vectors
        if args:
            recv = self.unwrap_md(self.deref_arg(p, args[0]))
            if recv[0] in ('vec', 'fresh') and (path.startswith('alloc::vec::Vec::<') or path.startswith('core::slice::<impl [T]>') or trait in ('core::clone::Clone', 'core::iter::Extend', 'core::cmp::PartialEq')):
                if name == 'as_mut_ptr' or name == 'as_ptr':
                    setd(('vecptr', recv))
                    return target
                if name == 'capacity':
                    setd(('veccap', recv))
                    return target
                if name == 'len':
                    setd(('veclen', recv))
                    return target
                p.ev('vec_method', name=name, vec=recv, args=[self.unwrap_md(self.deref_arg(p, a)) for a in args[1:]], gargs=[ty_key(strip_regions(g)) for g in gargs], ln=ln, fn=fn.dp, block=b, unwind=unwind,
                     unwrapped=not p.env.get(('wrapped', recv[1]), False))
                if name in ('to_vec', 'to_owned', 'into_vec') and recv[0] in ('vec', 'fresh'):
                    oid = self.new_obj(p)
                    setd(('fresh', oid, recv[2], 'clone'))
                    return target
                if name == 'clone' and trait == 'core::clone::Clone':
                    oid = self.new_obj(p)
                    nv = ('fresh', oid, recv[2], 'clone')
                    # clone of ManuallyDrop<Vec<T>> returns ManuallyDrop<Vec<T>>; of Vec<T> returns Vec<T>
                    orig = self.deref_arg(p, args[0])
                    setd(('md', nv) if orig[0] == 'md' else nv)
                    return target
                setd(('vecret', name, recv))
                return target
        if name in ('to_vec', 'to_owned', 'into_vec') and args:
            recv0 = self.unwrap_md(self.deref_arg(p, args[0]))
            if recv0[0] == 'slice':
                oid = self.new_obj(p)
                p.ev('vec_method', name=name, vec=recv0, args=[], gargs=[ty_key(strip_regions(g)) for g in gargs], ln=ln, fn=fn.dp, block=b, unwind=unwind, unwrapped=False)
                setd(('fresh', oid, recv0[2], 'clone'))
                return target
        if name in ('with_capacity', 'new') and path.startswith('alloc::vec::Vec::<T>::') and gargs:
            oid = self.new_obj(p)
            p.ev('fresh_vec', obj=oid, ty=gargs[0], how=name, ln=ln, fn=fn.dp, block=b)
            setd(('fresh', oid, ty_key(strip_regions(gargs[0])), name))
            return target

        # --- column Vec (out parameter)
        if args:
            recv = self.deref_arg(p, args[0])
            if recv[0] == 'colvec' and path.startswith('alloc::vec::Vec::<'):
                p.ev('colvec_method', name=name, col=recv[1], args=args[1:], ln=ln, fn=fn.dp, block=b)
                setd(('unk', 'colvec_' + name))
                return target

        # --- buffers
        if path == 'core::mem::size_of' and gargs:
            setd(('sizeof', ty_key(strip_regions(gargs[0]))))
            return target
        if name in ('add', 'offset', 'wrapping_add', 'byte_add') and path.startswith('core::ptr::') and len(args) == 2 and args[0][0] == 'buf':
            if args[1][0] == 'sizeof':
                nb = ('buf', args[0][1], args[0][2] + (args[1][1],))
                p.ev('buf_adv', buf=args[0], by=args[1][1], ln=ln, fn=fn.dp, block=b)
                setd(nb)
            else:
                p.ev('buf_adv_other', buf=args[0], by=args[1], ln=ln, fn=fn.dp, block=b)
                setd(('buf', args[0][1], args[0][2] + (('?', repr(args[1])),)))
            return target
        if name in ('read_unaligned', 'read') and path.startswith('core::ptr::') and args:
            p.ev('ptr_read', src=args[0], ty=gargs[0] if gargs else None, ln=ln, fn=fn.dp, block=b)
            oid = self.new_obj(p)
            setd(('moved_out', oid, args[0]))
            return target
        if name in ('write_unaligned', 'write') and path.startswith('core::ptr::') and len(args) == 2:
            p.ev('ptr_write', dst=args[0], value=args[1], ty=gargs[0] if gargs else None, ln=ln, fn=fn.dp, block=b)
            setd(('const', None))
            return target
        if name == 'assume_init' and args:
            p.ev('assume_init', value=args[0], ln=ln, fn=fn.dp, block=b)
            oid = self.new_obj(p)
            setd(('moved_out', oid, args[0]))
            return target

        # --- TypeId
        if path == 'core::any::TypeId::of' and gargs:
            setd(('typeid', ty_key(strip_regions(gargs[0]))))
            return target
        if trait == 'core::cmp::PartialEq' and name in ('eq', 'ne') and len(args) == 2:
            a, c = self.deref_arg(p, args[0]), self.deref_arg(p, args[1])
            if a[0] == 'typeid' and c[0] == 'typeid':
                v = ('typeid_eq', a[1], c[1])
                setd(v if name == 'eq' else ('not', v))
                return target

        if path == 'core::mem::drop' and args:
            p.ev('drop', value=self.unwrap_md(args[0]) if args[0][0] != 'md' else args[0], ty=gargs[0] if gargs else None, ln=ln, fn=fn.dp, block=b, explicit=True, cleanup=False)
            setd(('const', None))
            return target
        if path == 'core::mem::forget' and args:
            p.ev('forget', value=args[0], ln=ln, fn=fn.dp, block=b)
            setd(('const', None))
            return target

        # --- Try/branch plumbing: keep values flowing
        if path == 'core::ops::Try::branch' and args:
            setd(('try', args[0]))
            return target

        # --- anything else
        interesting = [a for a in args if self.tracked(p, a)]
        p.ev('call', name=name, path=path, trait=trait, gargs=[ty_key(strip_regions(g)) for g in gargs], args=args, tracked=interesting, ln=ln, fn=fn.dp, block=b, unwind=unwind, local=f.get('local'))
        setd(('ret', name, tuple(interesting)))
        return target

    def tracked(self, p, v, depth=0):
        if depth > 4:
            return False
        if v[0] in ('col', 'colvec', 'elem', 'elemf', 'vec', 'slice', 'fresh', 'tptr', 'vecptr', 'veccap', 'buf', 'it', 'md', 'moved_out', 'sliceelem'):
            return True
        if v[0] == 'ref':
            return self.tracked(p, p.env.get((v[1], v[2]), ('unk',)), depth + 1)
        if v[0] in ('tuple',):
            return any(self.tracked(p, x, depth + 1) for x in v[1])
        if v[0] in ('closure',):
            return any(self.tracked(p, x, depth + 1) for x in v[2])
        if v[0] in ('some', 'ok', 'err', 'ret'):
            return any(self.tracked(p, x, depth + 1) for x in (v[1:] if v[0] != 'ret' else v[2]))
        return False


def describe(v, body=None):
    """Short rendering of an abstract value."""
    k = v[0]
    if k == 'col':
        return 'cols[_%d]+%d' % (v[1], v[2])
    if k == 'colvec':
        return 'colvec[_%d]' % v[1]
    if k == 'elem':
        return 'cols[_%d]+%d[%d]' % (v[1], v[2], v[3])
    if k == 'elemf':
        return 'cols[_%d]+%d[%d].%s' % (v[1], v[2], v[3], 'ptr' if v[4] == 0 else 'cap')
    if k == 'tptr':
        return '(%s as *%s)' % (describe(v[1]), ty_str(json.loads(v[2])))
    if k == 'vec':
        return 'Vec#%d<%s>(ptr=%s,len=%s,cap=%s)' % (v[1], ty_str(json.loads(v[2])), describe(v[3]), describe(v[4]), describe(v[5]))
    if k == 'slice':
        return 'slice#%d<%s>(ptr=%s,len=%s,%s)' % (v[1], ty_str(json.loads(v[2])), describe(v[3]), describe(v[4]), 'mut' if v[5] else 'shared')
    if k == 'fresh':
        return 'fresh#%d<%s>(%s)' % (v[1], ty_str(json.loads(v[2])), v[3])
    if k == 'md':
        return 'MD(' + describe(v[1]) + ')'
    if k == 'it':
        return 'iter[_%d]@%d' % (v[1], v[2])
    if k == 'bit':
        return 'bit[_%d]#%d' % (v[1], v[2])
    if k == 'param':
        return v[2]
    if k == 'buf':
        return 'buf[_%d]%s' % (v[1], ''.join('+sizeof(%s)' % (ty_str(json.loads(a)) if isinstance(a, str) else '?') for a in v[2]))
    if k == 'vecptr':
        return 'ptr_of(' + describe(v[1]) + ')'
    if k == 'vecptr_u8':
        return 'ptr_u8_of(' + describe(v[1]) + ')'
    if k == 'veccap':
        return 'cap_of(' + describe(v[1]) + ')'
    if k == 'veclen':
        return 'len_of(' + describe(v[1]) + ')'
    if k == 'tuple':
        return '(' + ', '.join(describe(x) for x in v[1]) + ')'
    if k == 'const':
        return 'const %s' % (v[1],)
    if k == 'sizeof':
        return 'sizeof(%s)' % ty_str(json.loads(v[1]))
    if k == 'moved_out':
        return 'value#%d read from %s' % (v[1], describe(v[2]))
    if k in ('some', 'ok', 'err'):
        return '%s(%s)' % (k, describe(v[1]))
    if k == 'ref':
        return '&local(%d,%d)' % (v[1], v[2])
    if k == 'sliceelem':
        return '%s[%s]' % (describe(v[1]), describe(v[2]))
    if k == 'field':
        return describe(v[1]) + '.%d' % v[2]
    if k == 'typeid_eq':
        return 'TypeId<%s>==TypeId<%s>' % (ty_str(json.loads(v[1])), ty_str(json.loads(v[2])))
    if k == 'closure':
        return 'closure{%s}' % ', '.join(describe(x) for x in v[2])
    if k == 'ret':
        return 'ret_of_%s' % v[1]
    return str(v)[:80]


def describe_event(e):
    d = {}
    for k, v in e.items():
        if k in ('fn',):
            continue
        if isinstance(v, tuple) and v and isinstance(v[0], str):
            d[k] = describe(v)
        elif isinstance(v, list) and v and all(isinstance(x, tuple) for x in v):
            d[k] = [describe(x) for x in v]
        elif isinstance(v, dict) and 'k' in v:
            d[k] = ty_str(v)
        else:
            d[k] = v
    kind = d.pop('k')
    return kind + ' ' + ' '.join('%s=%s' % (k, v) for k, v in d.items() if k not in ('block',))


def _merge_field_writes(p):
    """`*pointer = a; *capacity = b` on a destructured column slot is the slot write `(a, b)`: add the whole-slot
    event after the second field write (the field events stay), so that rules about what a slot is overwritten
    with see one form."""
    pending = {}
    out = []
    for e in p.events:
        out.append(e)
        if e['k'] == 'slot_field_write' and e['f'] in (0, 1):
            key = tuple(e['slot'][1:4])
            d = pending.setdefault(key, {})
            d[e['f']] = e
            if 0 in d and 1 in d:
                out.append({'k': 'slot_write', 'slot': e['slot'], 'value': ('tuple', [d[0]['value'], d[1]['value']]), 'ln': d[0]['ln'], 'fn': e.get('fn'),
                            'block': e.get('block'), 'synthetic': True})
                pending.pop(key)
        elif e['k'] in ('slot_write', 'tail'):
            pending.clear()
    if len(out) != len(p.events):
        p.events[:] = out


def interpret(prog, fn):
    it = Interp(prog, fn)
    paths = it.run()
    for p in paths:
        _merge_field_writes(p)
    return it, paths
