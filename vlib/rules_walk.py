"""W (registry-walk induction step) and O (ownership of raw parts) rules over absint traces."""
import json
from .engine import rule, Result
from .mir import *
from . import absint

_cache = {}


def walk_fns(prog):
    """Discover walk step functions: methods of impls for a cons cell `(X, T)` (T a type parameter)
    of a trait that also has an impl for a `Null` type, that take an identifier iterator and/or a
    column list. Returns list of (fn, impl)."""
    key = id(prog)
    if key in _cache:
        return _cache[key]
    null_traits = set()
    for imp in prog.facts['impls']:
        if imp['trait'] and imp['self'].get('k') == 'adt' and imp['self']['path'].endswith('::Null'):
            null_traits.add(imp['trait']['path'])
    out = []
    for imp in prog.facts['impls']:
        st = imp['self']
        if not imp['trait'] or st.get('k') != 'tuple' or len(st['e']) != 2 or st['e'][1].get('k') != 'param':
            continue
        for fn in prog.impl_methods(imp):
            b = fn.body
            its = [i for i in range(1, b.argc + 1) if absint.is_iter_ty(b.local_ty(i))]
            cols = [i for i in range(1, b.argc + 1) if absint.is_cols_ty(b.local_ty(i))]
            if its or cols:
                out.append((fn, imp))
    _cache[key] = out
    prog.walk_items = {fn.d.get('trait_item') for fn, _ in out if fn.d.get('trait_item')}
    return out


_traces = {}


def traces(prog, fn):
    k = (id(prog), fn.dp)
    if not hasattr(prog, 'walk_items'):
        walk_fns(prog)
    if k not in _traces:
        _traces[k] = absint.interpret(prog, fn)
    return _traces[k]


def head_elem_key(imp):
    """Type key of the component stored in the head column of this cons cell."""
    h = imp['self']['e'][0]
    if h.get('k') == 'adt' and h['path'] == 'alloc::vec::Vec':
        h = h['args'][0]
    return ty_key(strip_regions(h))


def fn_key(fn, imp):
    """Stable key: trait::method for self type + distinguishing trait args."""
    targs = [ty_str(a) for a in imp['trait']['args'][1:] if a.get('k') != 'region']
    return '%s::%s for %s%s' % (imp['trait']['path'], fn.name, ty_str(imp['self']), ('<' + ', '.join(targs) + '>') if targs else '')


def is_terminal_contained(imp):
    """`Contained` index marker at the head position: the searched component is this cell's head; the
    method acts on column 0 and does not recurse."""
    args = imp['trait']['args'][1:]
    return any(is_adt(a, 'registry::contains::Contained') for a in args)


def view_kind(imp):
    """For CanonicalViews/CanonicalParViews impls: ('ref'|'opt'|'absent'|None, mutable?)"""
    for a in imp['trait']['args'][1:]:
        if a.get('k') == 'tuple' and len(a['e']) == 2:
            v = a['e'][0]
            if v.get('k') == 'ref':
                return ('ref', v['mut'])
            if is_adt(v, 'core::option::Option') and v['args'] and v['args'][0].get('k') == 'ref':
                return ('opt', v['args'][0]['mut'])
            return None
    return None


def tail_events(p):
    return [e for e in p.events if e['k'] == 'tail']


def path_bit(p, it):
    for c in p.conds:
        if c[0] == 'bit' and c[1] == it and c[2] == 1:
            return c[3]
    return None


def path_typeid_true(p):
    return [c for c in p.conds if c[0] == 'typeid_eq' and c[3]]


@rule('W1', props=['C01', 'C03', 'C04', 'C05', 'C06', 'C09', 'C10', 'C11', 'C16'], floor={'all': 39, 'default': 29}, configs=('all', 'default'))
def w1_bit_step(prog):
    """Each step consumes exactly one identifier bit: at most one `next()` per path, exactly one before
    the tail call, and the tail call receives that same advanced iterator."""
    r = Result()
    for fn, imp in walk_fns(prog):
        it, paths = traces(prog, fn)
        key = fn_key(fn, imp)
        its = [i for i in range(1, fn.body.argc + 1) if absint.is_iter_ty(fn.body.local_ty(i))]
        if not its:
            continue
        r.inst('%s: %d paths' % (key, len(paths)), tag=fn.name)
        if it.truncated:
            r.viol('W1', key + '/truncated', fn.loc(), 'path enumeration truncated: function too complex for the walk analysis', tag=fn.name)
        for p in paths:
            if p.ended != 'return':
                continue
            for i in its:
                n = len([e for e in p.events if e['k'] == 'next' and e['it'] == i])
                tails = tail_events(p)
                if n > 1:
                    r.viol('W1', key + '/double-next', fn.loc(), 'identifier iterator advanced %d times in one step: later components are read against the wrong bits' % n, tag=fn.name)
                if tails and all(t.get('delegate') for t in tails):
                    if n != 0:
                        r.viol('W1', key + '/next-in-delegate', fn.loc(), 'a wrapper that hands the whole walk to another trait consumes an identifier bit', tag=fn.name)
                elif tails and n == 0 and not is_terminal_contained(imp):
                    r.viol('W1', key + '/no-next-before-tail', fn.loc(tails[0]['ln']), 'tail call reached without consuming this component\'s identifier bit', tag=fn.name)
                for t in tails:
                    pos = i - 1
                    if t.get('delegate'):
                        # another method: its parameter list is its own; the iterator must be among the arguments
                        if not any(a[0] == 'it' and a[1] == i for a in t['args']):
                            r.viol('W1', key + '/wrong-iterator', fn.loc(t['ln']), 'the walk this wrapper delegates to does not receive this step\'s identifier iterator', tag=fn.name)
                        continue
                    if pos < len(t['args']):
                        a = t['args'][pos]
                        if not (a[0] == 'it' and a[1] == i):
                            r.viol('W1', key + '/wrong-iterator', fn.loc(t['ln']), 'tail call does not receive this step\'s identifier iterator', tag=fn.name)
                        elif a[2] != n:
                            r.viol('W1', key + '/stale-iterator', fn.loc(t['ln']), 'tail call receives the iterator at a different position than this step left it', tag=fn.name)
    return r


@rule('W2', props=['C01', 'C03', 'C04', 'C05', 'C06', 'C09', 'C10', 'C11', 'C16'], floor={'all': 38, 'default': 29}, configs=('all', 'default'))
def w2_column_step(prog):
    """The column list passed to the tail call is advanced past column 0 exactly on the paths where the
    consumed bit is set; only column 0 of the incoming list is ever touched, and never on a bit-clear
    path. Present-by-contract impls (bit not inspected) must use and skip column 0 on every path; the
    TypeId-guarded skip must leave the list untouched."""
    r = Result()
    presence_assumed = []
    for fn, imp in walk_fns(prog):
        it, paths = traces(prog, fn)
        key = fn_key(fn, imp)
        body = fn.body
        cols = [i for i in range(1, body.argc + 1) if absint.is_cols_ty(body.local_ty(i))]
        its = [i for i in range(1, body.argc + 1) if absint.is_iter_ty(body.local_ty(i))]
        if not cols:
            continue
        r.inst('%s: cols=%s' % (key, [body.local_name(c) for c in cols]), tag=fn.name)
        terminal = is_terminal_contained(imp)
        for p in paths:
            if p.ended != 'return':
                continue
            bit = path_bit(p, its[0]) if its else None
            tid = path_typeid_true(p)
            accesses = [e for e in p.events if e['k'] == 'col_access']
            for e in accesses:
                if e['off'] != 0 or e['idx'] != 0:
                    r.viol('W2', key + '/foreign-column', fn.loc(e['ln']), 'step touches column %d of the list at offset %d: only the head column belongs to this component' % (e['idx'], e['off']), tag=fn.name)
                used = any((u['k'] == 'elem_field' and (u['col'], u['off'], u['idx']) == (e['col'], e['off'], e['idx'])) or
                           (u['k'] in ('slot_write', 'slot_field_write') and tuple(u['slot'][1:4]) == (e['col'], e['off'], e['idx'])) for u in p.events)
                if bit is False and used:
                    r.viol('W2', key + '/access-on-clear-bit', fn.loc(e['ln']), 'column 0 is accessed on a path where this component\'s bit is clear (it belongs to another component)', tag=fn.name)
            for e in p.events:
                if e['k'] in ('col_access_dynamic', 'col_other', 'col_clobber'):
                    r.viol('W2', key + '/unrecognised-column-use', fn.loc(e['ln']), 'column list used in a way the step analysis does not model (%s)' % e['k'], tag=fn.name)
            tails = tail_events(p)
            for t in tails:
                for c in cols:
                    pos = c - 1
                    a = t['args'][pos] if pos < len(t['args']) else None
                    cty = peel_refs(body.local_ty(c))
                    if a is not None and a[0] == 'ref':
                        a = p.env.get((a[1], a[2]), a)
                    if a is None:
                        continue
                    if a[0] == 'colvec':
                        pushes = len([e for e in p.events if e['k'] == 'colvec_method' and e['col'] == c and e['name'] == 'push'])
                        others = [e for e in p.events if e['k'] == 'colvec_method' and e['col'] == c and e['name'] not in ('push',)]
                        want = 1 if bit else 0
                        if bit is None and its:
                            want = None
                        if want is not None and pushes != want:
                            r.viol('W2', key + '/colvec-push-mismatch', fn.loc(t['ln']), 'output column list receives %d entries on a path where the bit is %s' % (pushes, bit), tag=fn.name)
                        for e in others:
                            r.viol('W2', key + '/colvec-other', fn.loc(e['ln']), 'output column list modified by %s' % e['name'], tag=fn.name)
                        continue
                    if a[0] != 'col' or a[1] != c:
                        r.viol('W2', key + '/wrong-columns', fn.loc(t['ln']), 'tail call does not receive this step\'s column list (parameter %s)' % body.local_name(c), tag=fn.name)
                        continue
                    off = a[2]
                    used = any(e['col'] == c for e in accesses)
                    if t.get('delegate'):
                        if off != 0 or used:
                            r.viol('W2', key + '/delegate-touches-columns', fn.loc(t['ln']), 'a wrapper that hands the whole walk to another trait must pass the column list untouched', tag=fn.name)
                        continue
                    if bit is True:
                        if off != 1:
                            r.viol('W2', key + '/no-advance-on-set-bit', fn.loc(t['ln']),
                                   'bit set but column list %s passed to the tail at offset %d: every later component is read from the wrong column' % (body.local_name(c), off), tag=fn.name)
                    elif bit is False:
                        if off != 0:
                            r.viol('W2', key + '/advance-on-clear-bit', fn.loc(t['ln']), 'bit clear but column list %s advanced by %d' % (body.local_name(c), off), tag=fn.name)
                    else:
                        if tid:
                            if off != 0 or used:
                                r.viol('W2', key + '/skip-touches-columns', fn.loc(t['ln']), 'TypeId-guarded skip path must leave the column list untouched', tag=fn.name)
                        elif its and not [e for e in p.events if e['k'] == 'next']:
                            pass   # W1 reports
                        else:
                            # present by contract: bit ignored (or no iterator at all)
                            if off != 1 or not used:
                                r.viol('W2', key + '/presence-assumed-but-not-consumed', fn.loc(t['ln']),
                                       'component assumed present (bit not inspected) but column 0 is %s and the list is advanced by %d' % ('used' if used else 'not used', off), tag=fn.name)
                            presence_assumed.append(key)
            if not tails and not terminal:
                # early return: must be caused by a non-bit condition
                other = [c for c in p.conds if c[0] not in ('bit', 'typeid_eq')]
                if not other:
                    r.viol('W2', key + '/missing-tail-call', fn.loc(), 'a path returns without recursing into the tail registry: remaining components are skipped', tag=fn.name)
            if len(tails) > 1:
                r.viol('W2', key + '/double-tail', fn.loc(tails[1]['ln']), 'tail walk invoked twice on one path', tag=fn.name)
    r.presence_assumed = sorted(set(presence_assumed))
    return r


@rule('W3', props=['C01', 'C03', 'C04', 'C05', 'C06', 'C09', 'C10', 'C11', 'C16'], floor={'all': 42, 'default': 32}, configs=('all', 'default'))
def w3_typed_access(prog):
    """Every typed use of column 0 / the packed buffer in a step (pointer cast, Vec/slice from raw parts,
    unaligned read/write, size_of advance, fresh Vec) is at the head component type of the cons cell;
    another type parameter is allowed only under the true edge of a TypeId equality with the head."""
    r = Result()
    for fn, imp in walk_fns(prog):
        it, paths = traces(prog, fn)
        key = fn_key(fn, imp)
        head = head_elem_key(imp)
        r.inst('%s: head=%s' % (key, ty_str(json.loads(head))), tag=fn.name)
        for p in paths:
            ok_other = set()
            for c in path_typeid_true(p):
                if head in (c[1], c[2]):
                    ok_other.add(c[1])
                    ok_other.add(c[2])
            for e in p.events:
                T = None
                if e['k'] == 'cast':
                    src = e['src']
                    if src[0] in ('elemf', 'buf') or (src[0] == 'tptr'):
                        T = ty_key(strip_regions(e['ty']))
                elif e['k'] == 'from_raw':
                    root = e['ptr']
                    while root[0] == 'tptr':
                        root = root[1]
                    if root[0] in ('elemf', 'buf'):
                        T = ty_key(strip_regions(e['ty']))
                elif e['k'] in ('ptr_read', 'ptr_write') and e.get('ty') is not None:
                    s = e.get('src') or e.get('dst')
                    if s is not None and (s[0] == 'tptr' or s[0] == 'buf'):
                        T = ty_key(strip_regions(e['ty']))
                elif e['k'] == 'buf_adv':
                    T = e['by']
                elif e['k'] == 'fresh_vec':
                    T = ty_key(strip_regions(e['ty']))
                if T is None:
                    continue
                if T == head or T in ok_other:
                    continue
                # MaybeUninit<C> slices etc. wrap the head type: still wrong for raw parts
                r.viol('W3', key + '/wrong-type/' + e['k'], fn.loc(e.get('ln')),
                       '%s at type %s in the step for component %s: the column would be reinterpreted as another type' % (e['k'], ty_str(json.loads(T)), ty_str(json.loads(head))), tag=fn.name)
    return r


def length_pairing(prog):
    """For every walk trait method: map column-parameter position -> length-parameter position, learned
    from external call sites (non-step functions) where both come from the same archetype
    (`X.components` and `X.length`). Name-free oracle."""
    step_dps = {fn.dp for fn, _ in walk_fns(prog)}
    methods = {}
    for fn, imp in walk_fns(prog):
        ti = fn.d.get('trait_item')
        if ti:
            methods.setdefault(ti, []).append(fn)
    pairing = {}
    for f in prog.fns.values():
        if f.dp in step_dps:
            continue
        body = f.body
        for b, t in body.calls(lambda c: c['path'] in methods):
            names = []
            for a in t['args']:
                p = op_place(a)
                names.append(receiver_name(prog, body, a) if p else None)
            ti = t['f']['path']
            for i, n in enumerate(names):
                if n and n.endswith('.components'):
                    root = n[:-len('.components')]
                    for j, m in enumerate(names):
                        if m == root + '.length':
                            pairing.setdefault(ti, {}).setdefault(i, set()).add(j)
    return pairing


@rule('W6', props=['C03', 'C04', 'C05', 'C09', 'C10', 'C16', 'C06', 'C01', 'C17'], floor={'all': 40, 'default': 30}, configs=('all', 'default'))
def w6_scalars_forwarded_unchanged(prog):
    """Recursion of a registry walk into the tail of the registry hands every scalar (usize) parameter of the
    step — the row count(s) `length`/`length_a`/`length_b`, `index`, `capacity`, `additional` — to the
    tail step unchanged and in its own position: all columns of one archetype share one length, so a step that
    forwards a modified or different count makes every later column be rebuilt, freed or compared with the wrong
    length. The only scalar that may change is the element counter `current_index` of the row/column
    deserialisers (+1 when this component was read)."""
    r = Result()
    for fn, imp in walk_fns(prog):
        it, paths = traces(prog, fn)
        key = fn_key(fn, imp)
        body = fn.body
        scal = [i for i in range(1, body.argc + 1) if body.local_ty(i).get('name') == 'usize']
        if not scal:
            continue
        seen = False
        reported = set()
        for p in paths:
            if p.ended != 'return':
                continue
            for e in p.events:
                if e['k'] != 'tail' or e.get('delegate'):
                    continue
                seen = True
                for i in scal:
                    if i - 1 >= len(e['args']):
                        continue
                    a = e['args'][i - 1]
                    nm = body.local_name(i) or '_%d' % i
                    if a[0] == 'param' and a[1] == i:
                        continue
                    if nm == 'current_index' and a[0] == 'binop' and a[1] == 'Add' and {a[2], a[3]} == {('param', i, nm), ('const', 1)}:
                        continue
                    if nm not in reported:
                        reported.add(nm)
                        r.viol('W6', '%s/scalar-not-forwarded/%s' % (key, nm), fn.loc(e['ln']),
                               'the tail step receives %s for `%s` instead of this step\'s own `%s`: the remaining columns are handled with a different count' % (absint.describe(a) if hasattr(absint, 'describe') else a[0], nm, nm), tag=fn.name)
        if seen:
            r.inst(key, tag=fn.name)
    return r


@rule('W7', props=['C04', 'C05', 'C11', 'C17', 'C01', 'C06'], floor={'all': 50, 'default': 38}, configs=('all', 'default'))
def w7_rebuild_after_growth(prog):
    """Within one step, a column that is rebuilt a second time (Vec::from_raw_parts on the same slot) after the
    first rebuilt Vec pushed or removed an element must be rebuilt with the length that accounts for it: the
    step's `length` parameter describes the column *before* the step. Rebuilding with the stale `length` after a
    push (e.g. to "roll back" the pushed value with pop()) operates on the previous row's value instead."""
    r = Result()
    DELTA = {'push': 1, 'pop': -1, 'swap_remove': -1, 'remove': -1, 'insert': 1}
    for fn, imp in walk_fns(prog):
        it, paths = traces(prog, fn)
        key = fn_key(fn, imp)
        r.inst(key, tag=fn.name)
        done = False
        for p in paths:
            if done:
                break
            first = {}     # slot -> (obj, len)
            net = {}       # slot -> net growth or None (unknown)
            owner = {}     # vec obj -> slot
            for e in p.events:
                if e['k'] == 'from_raw' and e.get('what') == 'vec':
                    ptr = e['ptr']
                    while ptr[0] in ('tptr',):
                        ptr = ptr[1]
                    if ptr[0] != 'elemf':
                        continue
                    slot = tuple(ptr[1:4])
                    if slot in first:
                        n = net.get(slot, 0)
                        if n not in (0, None) and e['len'] == first[slot][1]:
                            r.viol('W7', key + '/stale-length', fn.loc(e['ln']),
                                   'the column is rebuilt with the step\'s `length` although %d element(s) were %s through an earlier rebuild in this step: the Vec\'s last element is not the one just written' % (abs(n), 'pushed' if n > 0 else 'removed'), tag=fn.name)
                            done = True
                            break
                    else:
                        first[slot] = (e['obj'], e['len'])
                    owner[e['obj']] = slot
                elif e['k'] == 'vec_method' and e['vec'][0] == 'vec' and e['vec'][1] in owner:
                    slot = owner[e['vec'][1]]
                    if e['name'] in DELTA:
                        if net.get(slot, 0) is not None:
                            net[slot] = net.get(slot, 0) + DELTA[e['name']]
                    elif e['name'] in ('extend', 'append', 'clear', 'truncate', 'extend_from_slice', 'clone_from', 'drain', 'retain', 'resize', 'set_len', 'split_off', 'dedup'):
                        net[slot] = None
    return r


@rule('W5', props=['C03', 'C04', 'C05', 'C09', 'C10', 'C16', 'C06', 'C11'], floor={'all': 30, 'default': 23}, configs=('all', 'default'))
def w5_length_provenance(prog):
    """Every Vec/slice rebuilt from column 0 uses, as its length, the step's own length parameter that
    belongs to that column list (pairing learned from call sites: `X.components` <-> `X.length`), its
    capacity from the same slot, and a slice constructor whose mutability equals the view kind."""
    r = Result()
    pairing = length_pairing(prog)
    for fn, imp in walk_fns(prog):
        it, paths = traces(prog, fn)
        key = fn_key(fn, imp)
        body = fn.body
        ti = fn.d.get('trait_item')
        pr = pairing.get(ti, {})
        vk = view_kind(imp) if imp['trait']['path'].endswith(('CanonicalViews', 'CanonicalParViews')) else None
        seen = False
        for p in paths:
            for e in p.events:
                if e['k'] != 'from_raw':
                    continue
                ptr = e['ptr']
                src = ptr
                while src[0] == 'tptr':
                    src = src[1]
                if src[0] != 'elemf':
                    continue
                seen = True
                c = src[1]
                ln = e['len']
                want_pos = pr.get(c - 1)
                if want_pos:
                    ok = ln[0] == 'param' and (ln[1] - 1) in want_pos
                    oracle = 'call-site pairing'
                else:
                    # fallback: usize parameter named like length / length_<suffix of the column list>
                    cname = body.local_name(c) or ''
                    suffix = cname.split('_')[-1] if '_' in cname else ''
                    ok = ln[0] == 'param' and (ln[2] == 'length' or (suffix and ln[2] == 'length_' + suffix) or ln[2].startswith('length') and not suffix)
                    oracle = 'parameter naming (no external call site pairs this column list with a length)'
                if not ok:
                    r.viol('W5', key + '/wrong-length', fn.loc(e['ln']),
                           'column of %s rebuilt with length %s, which is not the length belonging to that column list [%s]' % (body.local_name(c), absint.describe(ln), oracle), tag=fn.name)
                if src[4] != 0:
                    r.viol('W5', key + '/ptr-from-cap', fn.loc(e['ln']), 'pointer of the rebuilt column is not the slot\'s pointer field', tag=fn.name)
                if e['what'] == 'vec':
                    cap = e['cap']
                    if not (cap[0] == 'elemf' and cap[1:4] == src[1:4] and cap[4] == 1):
                        r.viol('W5', key + '/wrong-capacity', fn.loc(e['ln']), 'capacity of the rebuilt Vec is not the capacity stored in the same column slot', tag=fn.name)
                if vk is not None and e['what'].startswith('slice'):
                    if (e['what'] == 'slice_mut') != vk[1]:
                        r.viol('W5', key + '/slice-mutability', fn.loc(e['ln']),
                               'view kind is %s but the column is exposed through %s' % ('mutable' if vk[1] else 'shared', e['what']), tag=fn.name)
        if seen:
            r.inst('%s%s' % (key, ' [pairing %s]' % pr if pr else ' [by name]'), tag=fn.name)
    return r


REALLOC = ('push', 'extend', 'reserve', 'reserve_exact', 'shrink_to_fit', 'shrink_to', 'clone_from', 'insert', 'append',
           'resize', 'resize_with', 'extend_from_slice', 'extend_from_within', 'try_reserve', 'try_reserve_exact', 'push_within_capacity')
FREE_ROLE = ('free_components', 'try_free_components')


def vec_slot(v):
    """The column slot (c, off, idx) a reconstructed vec came from."""
    ptr = v[3]
    while ptr[0] == 'tptr':
        ptr = ptr[1]
    if ptr[0] == 'elemf':
        return ptr[1:4]
    return None


@rule('O1', props=['C04', 'C05', 'C10', 'C11', 'C17'], floor={'all': 16, 'default': 13}, configs=('all', 'default'))
def o1_reconstructed_owner(prog):
    """A Vec rebuilt from a stored column is a second owner: it must be wrapped in ManuallyDrop (never
    dropped) everywhere except in the free-role walks (free_components / try_free_components), which
    must drop it exactly once on set-bit paths."""
    r = Result()
    for fn, imp in walk_fns(prog):
        it, paths = traces(prog, fn)
        key = fn_key(fn, imp)
        body = fn.body
        any_vec = False
        its = [i for i in range(1, body.argc + 1) if absint.is_iter_ty(body.local_ty(i))]
        for p in paths:
            if p.ended != 'return':
                continue
            vecs = [e for e in p.events if e['k'] == 'from_raw' and e['what'] == 'vec']
            if vecs:
                any_vec = True
            drops = [e for e in p.events if e['k'] == 'drop' and not e.get('cleanup') and e['value'][0] == 'vec']
            if fn.name in FREE_ROLE:
                bit = path_bit(p, its[0]) if its else None
                if bit is True and tail_events(p) and len(drops) != 1:
                    r.viol('O1', key + '/free-count', fn.loc(), 'free-role walk drops %d Vecs on a set-bit path (must free this column exactly once)' % len(drops), tag=fn.name)
                if bit is False and drops:
                    r.viol('O1', key + '/free-on-clear-bit', fn.loc(), 'free-role walk frees a column on a clear-bit path', tag=fn.name)
            else:
                for d in drops:
                    r.viol('O1', key + '/drops-live-column', fn.loc(d['ln']),
                           'a Vec rebuilt from a live column is dropped here (not wrapped in ManuallyDrop): the column would be freed twice', tag=fn.name)
            for e in p.events:
                if e['k'] == 'md_unwrap' and e['value'][0] == 'vec' and fn.name not in FREE_ROLE:
                    r.viol('O1', key + '/md-unwrapped', fn.loc(e['ln']), 'ManuallyDrop around a rebuilt column is unwrapped', tag=fn.name)
        if any_vec:
            r.inst(key, tag=fn.name)
    return r


@rule('O2', props=['C04', 'C05', 'C01', 'C10', 'C11', 'C17'], floor={'all': 8, 'default': 7}, configs=('all', 'default'))
def o2_write_back(prog):
    """After any call that may reallocate a rebuilt column (push/extend/reserve/shrink/clone_from/...)
    the slot it came from is overwritten with (as_mut_ptr, capacity) of that same Vec on every path to
    the tail call / return."""
    r = Result()
    for fn, imp in walk_fns(prog):
        it, paths = traces(prog, fn)
        key = fn_key(fn, imp)
        found = False
        for p in paths:
            if p.ended != 'return':
                continue
            evs = p.events
            for i, e in enumerate(evs):
                if e['k'] == 'vec_method' and e['name'] in REALLOC and e['vec'][0] == 'vec':
                    v = e['vec']
                    slot = vec_slot(v)
                    if slot is None:
                        continue
                    found = True
                    ok = False
                    fw = {}
                    for w in evs[i + 1:]:
                        if w['k'] == 'slot_write' and w['slot'][1:4] == slot:
                            val = w['value']
                            if val[0] == 'tuple' and len(val[1]) == 2:
                                pv, cv = val[1]
                                if pv[0] in ('vecptr_u8', 'vecptr') and pv[1][:2] == v[:2] and cv[0] == 'veccap' and cv[1][:2] == v[:2]:
                                    ok = True
                                else:
                                    r.viol('O2', key + '/write-back-other', fn.loc(w['ln']), 'column slot overwritten with something other than (ptr, capacity) of the Vec rebuilt from it', tag=fn.name)
                                    ok = True
                            break
                        if w['k'] == 'slot_field_write' and w['slot'][1:4] == slot:
                            val = w['value']
                            if w['f'] == 0 and val[0] in ('vecptr_u8', 'vecptr') and val[1][:2] == v[:2]:
                                fw[0] = True
                            elif w['f'] == 1 and val[0] == 'veccap' and val[1][:2] == v[:2]:
                                fw[1] = True
                            else:
                                r.viol('O2', key + '/write-back-other', fn.loc(w['ln']), 'column slot field overwritten with something other than ptr/capacity of the Vec rebuilt from it', tag=fn.name)
                                fw[w['f']] = True
                            if fw.get(0) and fw.get(1):
                                ok = True
                                break
                            continue
                        if w['k'] == 'tail':
                            break
                    if not ok:
                        r.viol('O2', key + '/missing-write-back', fn.loc(e['ln']),
                               'Vec::%s may move the column\'s buffer but the slot is not updated with the new (ptr, capacity) before the step continues: dangling column pointer' % e['name'], tag=fn.name)
            # slot writes with values not derived from the Vec rebuilt from that slot
            for w in evs:
                if w['k'] == 'slot_write':
                    val = w['value']
                    good = val[0] == 'tuple' and len(val[1]) == 2 and val[1][0][0] in ('vecptr_u8', 'vecptr') and val[1][1][0] == 'veccap' and val[1][0][1][:2] == val[1][1][1][:2]
                    if good and val[1][0][1][0] == 'fresh':
                        continue   # adoption / fresh column: O3 and O6 decide
                    if not good:
                        r.viol('O2', key + '/odd-slot-write', fn.loc(w['ln']), 'column slot written with a value that is not (ptr, capacity) of one Vec', tag=fn.name)
                    else:
                        src = val[1][0][1]
                        if src[0] == 'vec' and vec_slot(src) != w['slot'][1:4]:
                            r.viol('O2', key + '/cross-slot-write', fn.loc(w['ln']), 'column slot overwritten with the raw parts of a Vec rebuilt from a different slot', tag=fn.name)
        if found:
            r.inst(key, tag=fn.name)
    return r


@rule('O3', props=['C04', 'C05', 'C10', 'C11'], floor=3, configs=('all', 'default'))
def o3_fresh_owner_escapes(prog):
    """A freshly created Vec (with_capacity/new/clone/deserialised) whose pointer and capacity are stored
    into a column slot or pushed onto a column list must never be dropped on a normal path (it is
    wrapped in ManuallyDrop); otherwise the column points to freed memory."""
    r = Result()
    for fn, imp in walk_fns(prog):
        it, paths = traces(prog, fn)
        key = fn_key(fn, imp)
        found = False
        for p in paths:
            if p.ended != 'return':
                continue
            escaped = {}
            for e in p.events:
                vals = []
                if e['k'] == 'slot_write':
                    vals = [e['value']]
                elif e['k'] == 'colvec_method' and e['name'] == 'push':
                    vals = e['args']
                for val in vals:
                    if val[0] == 'tuple':
                        for x in val[1]:
                            if x[0] in ('vecptr', 'vecptr_u8', 'veccap') and x[1][0] == 'fresh':
                                escaped[x[1][1]] = e
                                found = True
            for e in p.events:
                if e['k'] == 'drop' and not e.get('cleanup') and e['value'][0] == 'fresh' and e['value'][1] in escaped:
                    r.viol('O3', key + '/escaped-vec-dropped', fn.loc(e['ln']),
                           'a fresh Vec whose (ptr, capacity) were stored as a column is dropped at the end of the step: the stored column dangles', tag=fn.name)
        if found:
            r.inst(key, tag=fn.name)
    return r


@rule('W8', props=['C04', 'C10', 'C16', 'C05'], floor=1, configs=('all', 'default'))
def w8_copied_column_holds_the_rows(prog):
    """A step that reads a source column of `length` rows (rebuilds it from its slot) and pushes a new column onto
    another column list for the same component must push a column holding those rows: the pushed Vec derives from
    the rebuilt one by an element-count preserving copy (clone / to_vec / to_owned), never from `Vec::new()` /
    `with_capacity` (zero rows under a length that says otherwise: later walks read or drop `length` elements that
    were never constructed)."""
    r = Result()
    for fn, imp in walk_fns(prog):
        it, paths = traces(prog, fn)
        key = fn_key(fn, imp)
        found = False
        for p in paths:
            if p.ended != 'return':
                continue
            rebuilt = [e for e in p.events if e['k'] == 'from_raw']
            if not rebuilt:
                continue
            src_cols = set()
            for e in rebuilt:
                s_ = e['ptr']
                while s_[0] == 'tptr':
                    s_ = s_[1]
                if s_[0] == 'elemf':
                    src_cols.add(s_[1])
            for e in p.events:
                if e['k'] != 'colvec_method' or e['name'] != 'push' or e['col'] in src_cols:
                    continue
                for val in e['args']:
                    if val[0] != 'tuple':
                        continue
                    for x in val[1]:
                        if x[0] in ('vecptr', 'vecptr_u8') and x[1][0] == 'fresh':
                            found = True
                            how = x[1][3] if len(x[1]) > 3 else None
                            if how != 'clone':
                                r.viol('W8', key + '/empty-column-for-rows', fn.loc(e['ln']),
                                       'the column pushed for a present component is a fresh Vec (%s) rather than a copy of the source column: it holds no rows while the archetype length counts the source\'s rows' % how, tag=fn.name)
        if found:
            r.inst(key, tag=fn.name)
    return r


@rule('W11', props=['C04', 'C10', 'C05', 'C01', 'C17'], floor={'all': 15, 'default': 14}, configs=('all', 'default'))
def w11_total_walks_reach_the_tail(prog):
    """A walk step whose result is `()` has no verdict to return early with: every returning path of such a step
    (push/extend/reserve/clear/shrink/free/clone_from/debug-pointer walks, ...) recurses into the tail of the registry,
    unless it is the terminal cell of a search (index marker `Contained`: the component was found, nothing to the right
    matters). An early `return` — "the source is empty, nothing to do" — leaves the columns of all later components
    (and of this one) untouched while the caller goes on to publish the new length."""
    r = Result()
    for fn, imp in walk_fns(prog):
        out = fn.d.get('output')
        if not (out is None or (out.get('k') == 'tuple' and not out.get('e'))):
            continue
        if is_terminal_contained(imp):
            continue
        it, paths = traces(prog, fn)
        key = fn_key(fn, imp)
        rets = [p for p in paths if p.ended == 'return']
        if not rets:
            continue
        r.inst(key, tag=fn.name)
        for p in rets:
            # a checked look at the column list that found it exhausted (`components.get(0)` is None) ends a walk
            # over a possibly partial list (try_free_components)
            exhausted = any(c[0] == 'switch' and isinstance(c[1], tuple) and c[1][0] == 'discr' and isinstance(c[1][1], tuple) and c[1][1][0] == 'optelem' for c in p.conds)
            if not any(e['k'] == 'tail' for e in p.events) and not exhausted:
                r.viol('W11', key + '/returns-without-tail', fn.loc(), 'a path through this step returns without recursing into the tail of the registry: the columns of the remaining components are skipped', tag=fn.name)
                break
    return r


@rule('O5', props=['C04', 'C01', 'C05'], floor=3, configs=('all', 'default'))
def o5_packed_buffer_linearity(prog):
    """Packed row buffer: every cursor advance by size_of::<T>() is accompanied on the same path by a read
    (consumed: pushed or dropped) or a write of a T at the pre-advance cursor position; the spare component is
    `assume_init`-ed at most once and only under its TypeId guard."""
    r = Result()
    for fn, imp in walk_fns(prog):
        it, paths = traces(prog, fn)
        key = fn_key(fn, imp)
        has_buf = any(e['k'] == 'buf_adv' for p in paths for e in p.events)
        if not has_buf:
            continue
        r.inst(key, tag=fn.name)
        for p in paths:
            if p.ended != 'return':
                continue
            evs = p.events
            for i, e in enumerate(evs):
                if e['k'] == 'buf_adv_other':
                    r.viol('O5', key + '/odd-advance', fn.loc(e['ln']), 'buffer cursor advanced by something other than size_of of the head component', tag=fn.name)
                if e['k'] != 'buf_adv':
                    continue
                cur = e['buf']
                T = e['by']
                ok = False
                # the read (or write) of the value at the pre-advance position may come before or after the cursor
                # is bumped (a `read_next(&mut cursor)` helper bumps first and reads through the saved pointer)
                for j in list(range(i - 1, -1, -1)) + list(range(i + 1, len(evs))):
                    w = evs[j]
                    if w['k'] == 'ptr_read' and w['src'][0] == 'tptr' and w['src'][1] == cur and w['src'][2] == T:
                        # consumed?
                        vid = None
                        consumed = False
                        for x in evs[j + 1:]:
                            if x['k'] == 'vec_method' and x['name'] == 'push' and any(a[0] == 'moved_out' and a[2] == w['src'] for a in x['args']):
                                consumed = True
                            if x['k'] == 'drop' and x['value'][0] == 'moved_out' and x['value'][2] == w['src']:
                                consumed = True
                        if consumed:
                            ok = True
                        else:
                            r.viol('O5', key + '/read-not-consumed', fn.loc(w['ln']), 'value read out of the packed buffer is neither stored nor dropped', tag=fn.name)
                            ok = True
                        break
                    if w['k'] == 'ptr_write' and w['dst'][0] == 'tptr' and w['dst'][1] == cur and w['dst'][2] == T:
                        ok = True
                        break
                if not ok:
                    r.viol('O5', key + '/advance-without-consume', fn.loc(e['ln']),
                           'packed-buffer cursor skips a %s without reading (and storing or dropping) it: the value is leaked' % ty_str(json.loads(T)), tag=fn.name)
            # the component identified by the TypeId guard (the one being detached / attached) must be
            # consumed exactly once on every path under the guard, whatever its size
            if path_typeid_true(p) and tail_events(p):
                head = head_elem_key(imp)
                consumed = 0
                for j, w in enumerate(evs):
                    if w['k'] == 'ptr_read' and w['src'][0] == 'tptr' and w['src'][2] == head:
                        if any((x['k'] == 'vec_method' and x['name'] == 'push' and any(a[0] == 'moved_out' and a[2] == w['src'] for a in x['args']))
                               or (x['k'] == 'drop' and x['value'][0] == 'moved_out' and x['value'][2] == w['src']) for x in evs[j + 1:]):
                            consumed += 1
                    if w['k'] == 'assume_init':
                        consumed += 1
                if consumed != 1:
                    r.viol('O5', key + '/guarded-component-not-consumed-once', fn.loc(), 'under the TypeId guard the attached/detached component is consumed %d times on a path (must be exactly once, also for zero-sized components with Drop)' % consumed, tag=fn.name)
            inits = [e for e in evs if e['k'] == 'assume_init']
            if len(inits) > 1:
                r.viol('O5', key + '/double-assume-init', fn.loc(inits[1]['ln']), 'spare component assume_init-ed twice on one path (double use of one value)', tag=fn.name)
            for e in inits:
                if not path_typeid_true(p):
                    r.viol('O5', key + '/unguarded-assume-init', fn.loc(e['ln']), 'spare component consumed outside its TypeId guard', tag=fn.name)
            # reads from the buffer must be at the current cursor (no re-read of an already consumed position)
            reads = [e for e in evs if e['k'] == 'ptr_read' and e['src'][0] == 'tptr' and e['src'][1][0] == 'buf']
            seen_pos = set()
            for e in reads:
                if e['src'][1] in seen_pos:
                    r.viol('O5', key + '/double-read', fn.loc(e['ln']), 'the same packed-buffer position is read twice (value duplicated)', tag=fn.name)
                seen_pos.add(e['src'][1])
    return r


@rule('O6', props=['C05', 'C04', 'C01', 'C17'], floor=1, configs=('all', 'default'))
def o6_adoption_guard(prog):
    """A column slot may be overwritten with the raw parts of a Vec that was NOT rebuilt from that slot
    (adoption of a caller's Vec) only on paths where the step has checked that the old column holds
    no rows (its length parameter == 0) AND owns no buffer (slot capacity == 0); otherwise the old
    buffer is leaked or its rows are lost."""
    r = Result()
    for fn, imp in walk_fns(prog):
        it, paths = traces(prog, fn)
        key = fn_key(fn, imp)
        found = False
        for p in paths:
            if p.ended != 'return':
                continue
            for w in p.events:
                if w['k'] != 'slot_write':
                    continue
                val = w['value']
                if not (val[0] == 'tuple' and len(val[1]) == 2 and val[1][0][0] in ('vecptr', 'vecptr_u8') and val[1][0][1][0] == 'fresh'):
                    continue
                found = True
                slot = w['slot'][1:4]
                cap_zero = any(c[0] == 'cond' and c[2] is True and c[1][0] == 'binop' and c[1][1] == 'Eq'
                               and c[1][2][0] == 'elemf' and c[1][2][1:4] == slot and c[1][2][4] == 1 and c[1][3] == ('const', 0)
                               for c in p.conds)
                len_zero = any(c[0] == 'cond' and c[2] is True and c[1][0] == 'binop' and c[1][1] == 'Eq'
                               and c[1][2][0] == 'param' and c[1][3] == ('const', 0) for c in p.conds)
                if not cap_zero:
                    r.viol('O6', key + '/adopt-over-allocated', fn.loc(w['ln']),
                           'column slot overwritten with a caller-provided Vec without checking that the old column owns no buffer (capacity == 0): the old allocation leaks', tag=fn.name)
                if not len_zero:
                    r.viol('O6', key + '/adopt-over-rows', fn.loc(w['ln']),
                           'column slot overwritten with a caller-provided Vec without checking that the column is empty (length == 0): stored rows are lost', tag=fn.name)
        if found:
            r.inst(key, tag=fn.name)
    return r


@rule('O7', props=['C05', 'C04', 'C01', 'C13', 'C17'], floor={'all': 8, 'default': 7}, configs=('all', 'default'))
def o7_identifier_column(prog):
    """The archetype's identifier column obeys the same raw-parts discipline as the component columns: every
    Vec<entity::Identifier> rebuilt from `X.entity_identifiers` takes its pointer from `.0`, its capacity
    from `.1` and its length from `X.length` of the same archetype; it is wrapped in ManuallyDrop and never
    dropped, except where the archetype itself is being destroyed; after a call that may reallocate it the
    field is written back with (as_mut_ptr, capacity) of that same Vec on every path to return."""
    r = Result()
    step_dps = {fn.dp for fn, _ in walk_fns(prog)}
    adt = prog.adts.get('archetype::Archetype')
    names = [x['name'] for x in adt['variants'][0]['fields']]
    ki, kl = names.index('entity_identifiers'), names.index('length')
    for fn in prog.fns.values():
        if fn.dp in step_dps or fn.kind == 'Closure':
            continue
        if not any(t['f']['name'] == 'from_raw_parts' and t['f']['path'].startswith('alloc::vec') and any(is_adt(a, 'entity::identifier::Identifier') for a in t['f']['args']) for b, t in fn.body.calls()):
            continue
        it, paths = traces(prog, fn)
        key = fn.path.split('::<impl')[0] if False else fn.path
        found = False
        destroying = fn.name == 'drop' or fn.name.startswith('visit_') or fn.name in ('deserialize',)
        for p in paths:
            if p.ended != 'return':
                continue
            evs = p.events
            for i, e in enumerate(evs):
                if e['k'] != 'from_raw' or e['what'] != 'vec' or not is_adt(e['ty'], 'entity::identifier::Identifier'):
                    continue
                ptr, ln_, cap = e['ptr'], e['len'], e['cap']
                if not (ptr[0] == 'field' and ptr[1][0] == 'field'):
                    continue   # not rebuilt from a stored pair (e.g. deserialiser locals): covered by G5
                base = ptr[1][1]
                if not (ptr[1][2] == ki):
                    continue
                found = True
                if ptr[2] != 0 or not (cap[0] == 'field' and cap[1] == ptr[1] and cap[2] == 1):
                    r.viol('O7', fn.path + '/parts-mismatch', fn.loc(e['ln']), 'identifier column rebuilt with pointer/capacity that are not the two halves of the same entity_identifiers pair')
                if not (ln_[0] == 'field' and ln_[1] == base and ln_[2] == kl):
                    r.viol('O7', fn.path + '/wrong-length', fn.loc(e['ln']), 'identifier column rebuilt with a length that is not the same archetype\'s `length`')
                v = ('vec', e['obj'])
                drops = [d for d in evs if d['k'] == 'drop' and not d.get('cleanup') and d['value'][:2] == v]
                if destroying:
                    pass
                else:
                    for d in drops:
                        r.viol('O7', fn.path + '/drops-live-column', fn.loc(d['ln']), 'a Vec rebuilt from the live identifier column is dropped (double free)')
                    for m in evs:
                        if m['k'] == 'vec_method' and m['vec'][:2] == v and m.get('unwrapped'):
                            r.viol('O7', fn.path + '/unwrapped-owner/' + m['name'], fn.loc(m['ln']), 'the rebuilt identifier column is used without being wrapped in ManuallyDrop')
                            break
                for j, m in enumerate(evs):
                    if m['k'] == 'vec_method' and m['vec'][:2] == v and m['name'] in REALLOC:
                        ok = False
                        for w in evs[j + 1:]:
                            if w['k'] == 'field_write' and w['base'] == base and ("'f': %d" % ki) in w['proj']:
                                val = w['value']
                                if val[0] == 'tuple' and len(val[1]) == 2 and val[1][0][0] in ('vecptr', 'vecptr_u8') and val[1][0][1][:2] == v and val[1][1][0] == 'veccap' and val[1][1][1][:2] == v:
                                    ok = True
                                else:
                                    r.viol('O7', fn.path + '/write-back-other', fn.loc(w['ln']), 'entity_identifiers overwritten with something other than (ptr, capacity) of the Vec rebuilt from it')
                                    ok = True
                                break
                        if not ok:
                            r.viol('O7', fn.path + '/missing-write-back/' + m['name'], fn.loc(m['ln']), 'Vec::%s may move the identifier column but entity_identifiers is not updated before returning' % m['name'])
        if found:
            r.inst(fn.path)
    return r
