"""Archetype-level row protocol rules: P4 swap-remove fix-up, P9 length bookkeeping, P3 delete=>free."""
from .engine import rule, Result
from .mir import *
from .sym import *
from . import pathsem

ID_T = 'entity::identifier::Identifier'


def is_ident_vec_call(body, t, names):
    f = t['f']
    if 'path' not in f or f['name'] not in names or not t['args']:
        return False
    if not (f['path'].startswith('alloc::vec::Vec::<') or f['path'].startswith('core::slice::<impl [T]>')):
        return False
    a = f['args'][0] if f['args'] else None
    return a is not None and is_adt(a, ID_T)


def archetype_methods(prog):
    return [f for f in prog.fns.values() if f.path.startswith('archetype::Archetype::<R>::') and f.kind == 'AssocFn']


def batch_len_term_ok(prog, f, t):
    """Is term t (inside row operation f) the number of rows of the batch being stored? Either `len()` /
    `component_len()` of the entities, or a usize parameter for which every caller of f passes `len()` /
    `component_len()` of the entities value it passes in the same call."""
    S = pathsem.strip_refs
    t = S(t)
    if isinstance(t, tuple) and t[0] == 'call' and t[1].rsplit('::', 1)[-1] in ('component_len', 'len'):
        return True
    if not (isinstance(t, tuple) and t[0] == 'p' and isinstance(t[1], int)):
        return False
    pos = t[1] - 1
    callers = [g for g in prog.fns.values() if g.kind != 'Closure' and any(True for g2 in [g] + g.closures() for _ in g2.body.calls(lambda c: (c.get('res') or c).get('dp') == f.dp or c.get('dp') == f.dp))]
    if not callers:
        return False
    for g in callers:
        Eg = pathsem.analyse(prog, g, max_paths=20000)
        if Eg.truncated:
            return False
        for p in Eg.paths:
            for e in p.calls(lambda e: e['path'] == f.path):
                if pos >= len(e['vals']):
                    return False
                a = S(e['vals'][pos])
                if not (isinstance(a, tuple) and a[0] == 'call' and a[1].rsplit('::', 1)[-1] in ('component_len', 'len') and a[2]):
                    return False
                src = pathsem.canon(S(a[2][0]))
                while isinstance(src, tuple) and src[0] == 'd':
                    src = S(src[1])
                # the same batch/entities value is what the other arguments are made of
                if not any(j != pos and pathsem.mentions(pathsem.canon(v), lambda u: u == src) for j, v in enumerate(e['vals'])):
                    return False
    return True


def location_fixups(prog, p):
    """Updates of an allocated entity's location *index* on path p, however they are spelled: the allocator's
    `modify_location_index_unchecked(identifier, index)`, or a store into `Location.index` of the slot selected by an
    identifier's index (the same method written out, e.g. in a helper the rule set has never seen).
    -> [{'i', 'ln', 'ident' (ref-stripped term), 'new' (term)}]"""
    S = pathsem.strip_refs
    out = []
    for e in p.calls(lambda e: e['name'] == 'modify_location_index_unchecked'):
        out.append({'i': e['i'], 'ln': e['ln'], 'ident': S(e['args'][1]), 'new': e['args'][2]})
    try:
        li = adt_field_index(prog, 'entity::allocator::location::Location', 'index')
        si = adt_field_index(prog, 'entity::allocator::Allocator', 'slots')
        ii = adt_field_index(prog, 'entity::identifier::Identifier', 'index')
    except Exception:
        return out
    for e in p.events:
        if e['k'] != 'store' or e.get('synthetic') or not pathsem.is_field_of(e['loc'], 'entity::allocator::location::Location', li):
            continue
        sel = [t for t in pathsem.subterms(e['loc']) if t[0] == 'call' and t[1].rsplit('::', 1)[-1] in ('get_unchecked_mut', 'get_mut', 'index_mut')
               and len(t[2]) == 2 and pathsem.mentions(t[2][0], lambda u: pathsem.is_field_of(u, 'entity::allocator::Allocator', si))]
        for t in sel:
            k = S(t[2][1])
            if pathsem.is_field_of(k, 'entity::identifier::Identifier', ii):
                out.append({'i': e['i'], 'ln': e.get('ln'), 'ident': S(k[1]), 'new': e['value']})
                break
    out.sort(key=lambda x: x['i'])
    return out


@rule('P4', props=['C01', 'C02', 'C13', 'C05', 'C03', 'C06', 'C04'], floor=2)
def p4_swap_remove_fixup(prog):
    """Wherever the archetype's identifier column is swap_removed at `index`, the entity that the swap moves into
    `index` gets its location index updated — exactly when there is one: for row counts L and indices i < L the
    path conditions of every CFG path are evaluated (index := i, length := L, Vec lengths before/after the swap,
    `get(i)`/`last()` being Some), and on the feasible paths a `modify_location_index_unchecked(moved id, index)`
    must be present iff i < L-1, where the moved id is row L-1 read before the swap or row i read after it.
    Any way of writing the guard (`index < len-1`, `index + 1 < len`, `index != len-1`, post-swap `get(index)`,
    `if let Some(..)`) is decided by this evaluation rather than matched."""
    r = Result()
    ei = adt_field_index(prog, 'archetype::Archetype', 'entity_identifiers')
    li = adt_field_index(prog, 'archetype::Archetype', 'length')
    S = pathsem.strip_refs
    deferred_fns = []
    for f in archetype_methods(prog):
        if not any(is_ident_vec_call(f.body, t, ('swap_remove',)) for b_, t in f.body.calls()):
            continue
        key = f.path
        E = pathsem.analyse(prog, f)
        rets = [p for p in E.paths if p.ended == 'return']
        rep = set()

        def once(k, ln, msg, key=key, f=f, rep=rep):
            if k not in rep:
                rep.add(k)
                r.viol('P4', key + '/' + k, f.loc(ln), msg)
        if E.truncated or not rets:
            once('not-analysable', None, 'path enumeration cut off')
            continue
        me = ('p', 1, f.body.local_name(1) or 'self')
        idx_p = ('p', f.body.arg_local('index'), 'index')
        oldlen = ('f', ('d', me), li, 'archetype::Archetype')

        def is_idvec(t):
            return pathsem.mentions(t, lambda u: pathsem.is_field_of(u, 'archetype::Archetype', ei) and pathsem.mentions(u, lambda w: w == me))
        n_swaps = 0
        for p in rets:
            sw = [e for e in p.calls(lambda e: e['name'] == 'swap_remove' and e['path'].startswith('alloc::vec')) if is_idvec(e['args'][0])]
            n_swaps += len(sw)
            if len(sw) != 1:
                once('swap-count', None, 'expected exactly one swap_remove of the identifier column per path (found %d)' % len(sw))
                continue
            if S(sw[0]['args'][1]) != idx_p:
                once('swap-index', sw[0]['ln'], 'the identifier column is not swap_removed at `index`')
        r.inst('%s: swap_remove on the identifier column on %d path(s)' % (f.path, len(rets)))
        if rep:
            continue
        deferred = None
        for L in (1, 2, 3, 6):
            for i in sorted({0, L // 2, L - 1}):
                feas = []
                for p in rets:
                    sw = [e for e in p.calls(lambda e: e['name'] == 'swap_remove' and e['path'].startswith('alloc::vec')) if is_idvec(e['args'][0])][0]
                    sw_epoch = sw['epoch']

                    def vlen(t):
                        """length of the identifier Vec as seen by the pure call term t"""
                        return L if (len(t) > 4 and t[4] is not None and t[4] < sw_epoch) else L - 1

                    def leaf(t):
                        if t == idx_p:
                            return i
                        if t == oldlen or (t[0] == 'd' and t[1:] == oldlen[1:]):
                            return L
                        if t[0] == 'call' and t[1].rsplit('::', 1)[-1] == 'len' and is_idvec(t):
                            return vlen(t)
                        if t[0] == 'call' and t[1].rsplit('::', 1)[-1] == 'is_empty' and is_idvec(t):
                            return int(vlen(t) == 0)
                        return None
                    ok = True
                    for a_, v in p.conds:
                        if isinstance(v, tuple):
                            continue
                        val = None
                        if a_[0] == 'discr' and isinstance(a_[1], tuple) and a_[1][0] == 'call' and is_idvec(a_[1]):
                            c = a_[1]
                            nm = c[1].rsplit('::', 1)[-1]
                            if nm in ('last', 'first', 'last_mut', 'first_mut', 'pop'):
                                val = int(vlen(c) > 0)
                            elif nm in ('get', 'get_mut') and len(c[2]) == 2:
                                k_ = pathsem.evaluate(c[2][1], leaf)
                                val = None if k_ is None else int(k_ < vlen(c))
                            if val is not None and val != v:
                                ok = False
                                break
                            continue
                        val = pathsem.evaluate(a_, leaf)
                        if val is not None and bool(val) != bool(v):
                            ok = False
                            break
                    if ok:
                        feas.append((p, sw, leaf, vlen))
                if not feas:
                    once('wrong-guard', None, 'no path is feasible for index=%d with %d rows' % (i, L))
                    continue
                def moved_id_ok(ident, leaf, vlen):
                    reads = [t for t in pathsem.subterms(ident) if t[0] == 'call' and is_idvec(t) and t[1].rsplit('::', 1)[-1] in ('last', 'get', 'get_unchecked', 'index', 'first', 'get_mut', 'get_unchecked_mut', 'last_mut')]
                    for t in reads:
                        nm = t[1].rsplit('::', 1)[-1]
                        before = vlen(t) == L
                        if nm.startswith('last'):
                            row = vlen(t) - 1
                        elif nm.startswith('first'):
                            row = 0
                        else:
                            row = pathsem.evaluate(t[2][1], leaf) if len(t[2]) > 1 else None
                        if (before and row == L - 1) or ((not before) and row == i):
                            return True
                    return False
                if deferred is not False and not any(location_fixups(prog, q) for q in rets):
                    # the function does not fix the moved entity's location itself: it may hand the obligation to its
                    # callers by returning the moved identifier (Some exactly when a row was moved)
                    for p, sw, leaf, vlen in feas:
                        v = p.ret
                        parts = list(v[4]) if isinstance(v, tuple) and v[0] == 'agg' and v[1] == 'tuple' else [v]
                        opts = [(k_, x) for k_, x in enumerate(parts) if isinstance(x, tuple) and x[0] == 'agg' and x[1] == 'core::option::Option']
                        good = None
                        for k_, x in opts:
                            if i < L - 1 and x[2] == 'Some' and moved_id_ok(S(x[4][0]), leaf, vlen):
                                good = k_
                            if i == L - 1 and x[2] == 'None':
                                good = k_
                        if good is None or (deferred not in (None, False) and deferred != good):
                            deferred = False
                            break
                        deferred = good
                    if deferred is not False:
                        continue
                for p, sw, leaf, vlen in feas:
                    fixes = location_fixups(prog, p)
                    if i < L - 1:
                        if not fixes:
                            once('no-fixup' if not any(location_fixups(prog, q) for q in rets) else 'wrong-guard', sw['ln'],
                                 'index=%d of %d rows: the last row is swapped into `index` but its entity\'s location index is not updated (guard equivalent to index < rows - 1 expected)' % (i, L))
                            continue
                        if len(fixes) > 1:
                            once('wrong-guard', fixes[1]['ln'], 'the moved entity\'s location is updated more than once')
                        fx = fixes[0]
                        ni = pathsem.evaluate(fx['new'], leaf)
                        if ni != i:
                            once('wrong-new-index', fx['ln'], 'location fix-up does not store the swap_remove index as the moved entity\'s new index (index=%d of %d rows: stores %s)' % (i, L, ni))
                        ident = fx['ident']
                        reads = [t for t in pathsem.subterms(ident) if t[0] == 'call' and is_idvec(t) and t[1].rsplit('::', 1)[-1] in ('last', 'get', 'get_unchecked', 'index', 'first', 'get_mut', 'get_unchecked_mut', 'last_mut')]
                        okid = False
                        for t in reads:
                            nm = t[1].rsplit('::', 1)[-1]
                            before = vlen(t) == L
                            if nm.startswith('last'):
                                row = vlen(t) - 1
                            elif nm.startswith('first'):
                                row = 0
                            else:
                                row = pathsem.evaluate(t[2][1], leaf) if len(t[2]) > 1 else None
                            if (before and row == L - 1) or ((not before) and row == i):
                                okid = True
                        if not okid:
                            once('wrong-identifier', fx['ln'], 'the entity whose location is fixed up is not the one the swap moves (row rows-1 before the swap / row `index` after it)')
                    else:
                        if fixes:
                            once('unguarded-fixup' if all(location_fixups(prog, q) for q in rets) else 'wrong-guard', fixes[0]['ln'],
                                 'index=%d is the last of %d rows: nothing is swapped in, yet a location index is rewritten' % (i, L))
        if deferred not in (None, False) and not rep:
            deferred_fns.append((f, deferred))
    # callers of a function that returns the moved identifier instead of fixing its location: on every path where
    # that identifier is Some, its location index becomes the index the row was taken from (the value passed in)
    for f, k_ in deferred_fns:
        callers = [g for g in prog.fns.values() if g.kind != 'Closure' and any(True for _ in g.body.calls(lambda c: (c.get('res') or c).get('dp') == f.dp or c.get('dp') == f.dp))]
        if not callers:
            r.viol('P4', f.path + '/deferred-fixup-missing', f.loc(), 'the moved identifier is returned to callers, but no caller was found')
        for g in callers:
            r.inst('%s: deferred fix-up for %s' % (g.path[:70], f.name))
            Eg = pathsem.analyse(prog, g, max_paths=20000)
            bad = None
            for p in Eg.paths:
                if p.ended != 'return':
                    continue
                for e in p.calls(lambda e: e['name'] == f.name and e['path'] == f.path):
                    opt = ('f', e['ret'], k_, 'tuple')
                    d = p.lookup(('discr', opt))
                    if d is None:
                        bad = bad or 'the returned moved identifier is not inspected'
                        continue
                    if d != 1:
                        continue
                    payload = ('f', ('down', opt, 'Some', 1), 0, 'core::option::Option')
                    idx_arg = S(e['args'][1]) if len(e['args']) > 1 else None
                    fx = [q for q in location_fixups(prog, p) if q['i'] > e['i'] and q['ident'] == payload]
                    if len(fx) != 1:
                        bad = bad or 'a row was moved (Some) but its entity\'s location index is updated %d times' % len(fx)
                    elif S(fx[0]['new']) != idx_arg:
                        bad = bad or 'the moved entity\'s new index (%s) is not the index its row was swapped into (%s, the value passed to %s)' % (pathsem.tstr(fx[0]['new'])[:50], pathsem.tstr(idx_arg)[:40], f.name)
            if bad or Eg.truncated:
                r.viol('P4', '%s/deferred-fixup' % g.path, g.loc(), bad or 'path enumeration cut off')
    return r


@rule('P9', props=['C01', 'C05', 'C13', 'C03', 'C04', 'C10', 'C17'], floor=8)
def p9_length_bookkeeping(prog):
    """Archetype.length is written only by the row operations, with the matching delta, and only
    after the column walk it accounts for: +1 after the three push walks, +component_len after the
    extend walk, -1 after the column swap-removes, =0 in both clears, =source.length in clone_from."""
    r = Result()
    expect = {
        'push': ('delta', 1, ('push_components',)),
        'push_from_buffer_and_component': ('delta', 1, ('push_components_from_buffer_and_component',)),
        'push_from_buffer_skipping_component': ('delta', 1, ('push_components_from_buffer_skipping_component',)),
        'extend': ('delta_len', None, ('extend_components',)),
        'remove_row_unchecked': ('delta', -1, ('remove_component_row',)),
        'pop_row_unchecked': ('delta', -1, ('pop_component_row',)),
        'clear': ('set', 0, ('clear_components',)),
        'clear_detached': ('set', 0, ('clear_components',)),
    }
    seen = set()
    for f in prog.fns.values():
        body = f.body
        writes = []
        for b, i, s in body.stmts():
            if s['k'] == 'assign' and s['place']['p']:
                lf = last_field(body, {'copy': s['place']})
                if lf and lf[0] == 'archetype::Archetype' and lf[1] == adt_field_index(prog, 'archetype::Archetype', 'length'):
                    writes.append((b, i, s))
        if not writes:
            continue
        is_method = f.path.startswith('archetype::Archetype::<R>::')
        name = f.name
        r.inst('%s: %d write(s) to Archetype.length' % (f.path, len(writes)))
        if f.name == 'clone_from' and 'core::clone::Clone for archetype::Archetype' in f.path:
            seen.add('clone_from')
            for b, i, s in writes:
                rv = s['rv']
                lf = last_field(body, rv['op']) if rv['k'] == 'use' else None
                src_ok = lf and lf[0] == 'archetype::Archetype' and lf[1] == adt_field_index(prog, 'archetype::Archetype', 'length') \
                    and rv['k'] == 'use' and (receiver_name(prog, body, rv['op']) or '').startswith('source')
                if not src_ok:
                    r.viol('P9', f.path + '/clone_from-length', f.loc(s['ln']), 'clone_from must set length to source.length')
                walk = [cb for cb, ct in body.calls(lambda c: c['name'] == 'clone_from_components')]
                if not body.must_pass(0, [b], body.return_blocks()) or (walk and not body.must_pass(0, walk, body.return_blocks())):
                    r.viol('P9', f.path + '/clone_from-skippable', f.loc(s['ln']), 'a path through Archetype::clone_from returns without rebuilding the columns and publishing the length (e.g. a fast path for an empty source): the destination keeps its old rows')
                if not walk or not all(body.dominates(w, b) for w in walk):
                    r.viol('P9', f.path + '/clone_from-order', f.loc(s['ln']), 'length is published before clone_from_components has rebuilt the columns')
            continue
        if not is_method or name not in expect:
            r.viol('P9', f.path + '/unexpected-writer', f.loc(writes[0][2]['ln']),
                   'Archetype.length is written outside the row operations (push*/extend/remove_row/pop_row/clear*/clone_from)')
            continue
        seen.add(name)
        kind, val, walks = expect[name]
        E = pathsem.analyse(prog, f)
        if E.truncated:
            r.viol('P9', f.path + '/not-analysable', f.loc(), 'path enumeration cut off')
            continue
        lidx = adt_field_index(prog, 'archetype::Archetype', 'length')
        done = set()

        def once(k, ln, msg):
            if k not in done:
                done.add(k)
                r.viol('P9', f.path + '/' + k, f.loc(ln), msg)
        for p in E.paths:
            if p.ended != 'return':
                continue
            stores = [e for e in p.events if e['k'] == 'store' and pathsem.is_field_of(e['loc'], 'archetype::Archetype', lidx)]
            wcalls = [e for e in p.events if e['k'] == 'call' and e['name'] in walks]
            if not wcalls:
                once('no-walk', None, 'row operation does not call its column walk %s on some path' % (walks,))
            if not stores:
                once('length-skippable', None, 'a path through %s returns without updating self.length' % name)
                continue
            st = stores[-1]
            old = st['loc']
            ok = False
            if kind == 'set':
                ok = st['value'] == ('c', val)
            else:
                d = pathsem.lin(st['value']) - pathsem.lin(old)
                if kind == 'delta':
                    ok = d.is_const() and d.const == val
                else:
                    ok = d.const == 0 and len(d.terms) == 1 and list(d.terms.values()) == [1] and all(batch_len_term_ok(prog, f, t) for t in d.terms)
            if not ok:
                once('wrong-delta', st['ln'], 'write to self.length (%s) is not the expected %s %s' % (pathsem.tstr(st['value']), kind, val))
            if any(w['i'] > s2['i'] for w in wcalls for s2 in stores):
                once('length-before-walk', st['ln'], 'self.length is updated before the column walk it accounts for')
    for name in list(expect) + ['clone_from']:
        if name not in seen:
            # a row operation that exists must publish the length; one that no longer exists (merged into its twin)
            # has nothing left to get wrong - the count of writers is guarded by the rule's floor
            exists = any(f.path == 'archetype::Archetype::<R>::' + name or (name == 'clone_from' and f.name == 'clone_from' and 'core::clone::Clone for archetype::Archetype' in f.path) for f in prog.fns.values())
            if exists or name in ('push', 'extend', 'remove_row_unchecked', 'clear', 'clone_from'):
                r.viol('P9', 'missing/' + name, '-', 'expected writer of Archetype.length not found: %s' % name)
    return r


@rule('P3', props=['C13', 'C02', 'C01'], floor=3)
def p3_delete_frees(prog):
    """World::remove frees the identifier exactly where it removes the row; Archetype::clear frees
    every stored identifier; pop_row / clear_detached (moves, detached clears) free nothing."""
    r = Result()
    # (a) World::remove
    cands = [f for f in prog.fns.values() if f.path == 'world::World::<Registry, Resources>::remove']
    if len(cands) != 1:
        r.viol('P3', 'missing/World::remove', '-', 'anchor not found')
    else:
        f = cands[0]
        E = pathsem.analyse(prog, f)
        rets = [p for p in E.paths if p.ended == 'return']
        S = pathsem.strip_refs
        idp = ('p', 2, f.body.local_name(2) or 'entity_identifier')
        n_rm = n_fr = 0
        rep = set()

        def once(k, ln, msg, f=f, rep=rep):
            if k not in rep:
                rep.add(k)
                r.viol('P3', f.path + '/' + k, f.loc(ln), msg)
        if E.truncated or not rets:
            once('missing-call', None, 'World::remove not analysable')
        for p in rets:
            rm = p.calls(lambda e: e['name'] == 'remove_row_unchecked')
            fr = p.calls(lambda e: e['name'] == 'free_unchecked')
            n_rm += len(rm)
            n_fr += len(fr)
            if rm and not fr:
                once('row-removed-not-freed', rm[0]['ln'], 'a path removes the row without freeing the identifier')
            if fr and not rm:
                once('freed-not-removed', fr[0]['ln'], 'identifier freed on a path that does not remove the row')
            if len(rm) > 1 or len(fr) > 1:
                once('missing-call', None, 'a path removes or frees more than once')
            for e in fr:
                if S(e['vals'][1]) != idp:
                    once('frees-other', e['ln'], 'free_unchecked is not applied to the removed identifier (got %s)' % pathsem.tstr(e['vals'][1]))
            for e in rm:
                # the row removed is the one the allocator has on record for this identifier
                looks = [g for g in p.calls(lambda g: g['name'] == 'get' and 'allocator' in g['path'].lower() and g['i'] < e['i']) if S(g['vals'][1]) == idp and p.lookup(('discr', g['ret'])) == 1]
                if not looks or not pathsem.mentions(e['args'][1], lambda t: t == looks[0]['ret']):
                    once('removes-other-row', e['ln'], 'the row removed is not the location the allocator holds for this identifier')
        r.inst('%s: %d remove_row, %d free' % (f.path, n_rm, n_fr))
        if not n_rm or not n_fr:
            once('missing-call', None, 'World::remove must call both remove_row_unchecked and free_unchecked')
    # (b) Archetype::clear frees each identifier, before length = 0
    for f in prog.fns.values():
        if f.path == 'archetype::Archetype::<R>::clear':
            ei = adt_field_index(prog, 'archetype::Archetype', 'entity_identifiers')

            def S(t):
                return pathsem.canon(pathsem.strip_refs(t))

            def frees_in(root, inl=None):
                """-> (truncated, n_el, n_free, bad) over the paths of `root` (with Archetype::clear walked inline when
                the freeing was handed to the caller)"""
                E = pathsem.analyse(prog, root, inline=inl) if inl else pathsem.analyse(prog, root)
                n_el = n_free = 0
                bad = None
                for p in E.paths:
                    if p.ended not in ('return', 'cutoff'):
                        continue
                    els = []
                    for a_, v in p.conds:
                        if isinstance(a_, tuple) and ((a_[0] == 'next' and v == 1) or (a_[0] == 'nonempty' and v is True)):
                            root_ = pathsem.iter_chain(a_[1])[0]
                            if pathsem.mentions(root_, lambda t: pathsem.is_field_of(t, 'archetype::Archetype', ei)):
                                els.append(pathsem.canon(('elem', a_[1]) + tuple(a_[2:3] if a_[0] == 'next' else ())))
                    frees = p.calls(lambda e: e['name'] == 'free_unchecked')
                    n_el += len(els)
                    n_free += len(frees)
                    for el in els:
                        if not any(S(e['args'][1]) in (el, ('d', el)) or S(e['vals'][1]) in (el, ('d', el)) for e in frees) and p.ended == 'return':
                            bad = bad or 'an identifier of the column is dropped without being freed'
                    for e in frees:
                        if not any(S(e['args'][1]) in (el, ('d', el)) or S(e['vals'][1]) in (el, ('d', el)) for el in els):
                            bad = bad or 'free_unchecked is applied to something that is not an element of the identifier column'
                return E.truncated, n_el, n_free, bad
            trunc, n_el, n_free, bad = frees_in(f)
            where = f
            if not trunc and not n_free and not n_el:
                # the body frees nothing itself: the freeing may have been handed to the callers (a closure run by this
                # body, or a column it hands back) - then every caller has to do it, seen with this body walked inline
                callers = [g for g in prog.fns.values() if g.dp != f.dp and g.kind != 'Closure' and g.body is not None and g.body.calls(lambda c: (c.get('res') or c).get('dp') == f.dp)]
                def reaches_allocator(g):
                    # does the function hold an allocator at all (parameter, or a field it projects)? one that does not
                    # cannot free: it is a detached context (the clearing pass of clone_from), like clear_detached's callers
                    def is_alloc(t, depth=0, seen=None):
                        # the type, or a field of a crate type it contains (to depth 3), is the allocator
                        seen = seen if seen is not None else set()
                        hit = [False]

                        def visit(n):
                            if is_adt(n, 'entity::allocator::Allocator'):
                                hit[0] = True
                            elif n.get('k') == 'adt' and n['path'] in prog.adts and n['path'] not in seen and depth < 3:
                                seen.add(n['path'])
                                for v_ in prog.adts[n['path']]['variants']:
                                    for fl in v_['fields']:
                                        if is_alloc(fl['ty'], depth + 1, seen):
                                            hit[0] = True
                            return False
                        ty_mentions(t, visit)
                        return hit[0]
                    for h in [g] + g.closures():
                        for i_ in range(1, len(h.body.locals)):
                            if is_alloc(h.body.local_ty(i_) or {}):
                                return True
                    return False
                detached = [g for g in callers if not reaches_allocator(g)]
                callers = [g for g in callers if reaches_allocator(g)]
                for g in detached:
                    r.inst('%s: clears tables without an allocator in reach (detached)' % g.path[:70])
                if callers:
                    tot = [0, 0]
                    for g in callers:
                        t_, e_, fr_, b_ = frees_in(g, lambda c: c.dp == f.dp)
                        tot[0] += e_
                        tot[1] += fr_
                        if t_ or not fr_ or not e_ or b_:
                            trunc, n_el, n_free, bad, where = t_, e_, fr_, b_, g
                            break
                    else:
                        trunc, n_el, n_free, bad = False, tot[0], tot[1], None
            r.inst('%s: %d free in loop' % (f.path, n_free))
            if trunc or not n_free:
                r.viol('P3', f.path + '/no-free', where.loc(), 'Archetype::clear does not free the identifiers it drops')
            elif not n_el:
                r.viol('P3', f.path + '/loop-source', where.loc(), 'the freeing loop does not iterate the identifier column')
            elif bad:
                r.viol('P3', f.path + '/free-not-in-loop', where.loc(), bad)
        if f.path in ('archetype::Archetype::<R>::clear_detached', 'archetype::Archetype::<R>::pop_row_unchecked'):
            r.inst('%s: must not free' % f.path)
            # on feasible paths only: a shared helper taking `Option<&mut Allocator>` frees under `Some`, which the
            # detached twin never passes
            Ed = pathsem.analyse(prog, f)
            hit = None
            for p in Ed.paths:
                if p.ended not in ('return', 'cutoff'):
                    continue
                fr = p.calls(lambda e: e['name'] in ('free_unchecked', 'deactivate'))
                if fr:
                    hit = fr[0]
            if hit is not None or Ed.truncated:
                r.viol('P3', f.path + '/frees', f.loc(hit['ln'] if hit else None), 'a move/detached clear must not free identifiers')
    return r


def _length_versioned_atomizer(prog, body, lwrites):
    def atomizer(kind, payload, pos):
        if kind == 'place':
            name = access_field_names(prog, body, normalize_access(access_of_place(body, payload)))
            if name == 'self.length':
                after = any(pos_after(body, pos, w) for w in lwrites)
                return Lin({'oldlen': 1, 'delta': 1 if after else 0})
            return name
        if kind == 'call' and payload['f'].get('name') in ('component_len',):
            return 'component_len'
        return None
    return atomizer


@rule('P10', props=['C01', 'C02', 'C13'], floor=4, configs=('all', 'default'))
def p10_row_identifier_correspondence(prog):
    """New rows and their identifiers correspond one to one and in order: Archetype::push allocates the
    identifier for location (this archetype, old length), appends exactly that identifier to the
    identifier column and returns it; Archetype::extend allocates identifiers for locations
    old_length .. old_length + batch_len of this archetype, appends exactly the returned identifiers (in
    that order) and returns that same Vec; allocate_batch pairs the k-th location with the k-th identifier
    (one `next()` and one push per reused slot; fresh slots numbered slots_len + i in iteration order);
    Locations yields increasing indices with its own archetype identifier."""
    r = Result()
    def meth(name):
        c = [f for f in prog.fns.values() if f.path == 'archetype::Archetype::<R>::' + name]
        return c[0] if len(c) == 1 else None
    S = pathsem.strip_refs
    ei = adt_field_index(prog, 'archetype::Archetype', 'entity_identifiers')
    li = adt_field_index(prog, 'archetype::Archetype', 'length')
    idf = adt_field_index(prog, 'archetype::Archetype', 'identifier')
    LOC = 'entity::allocator::location::Location'

    def names_this_archetype(t, me):
        """t is (a call on) the archetype's own identifier: self.identifier.as_ref() / self.identifier()"""
        return pathsem.mentions(t, lambda u: (pathsem.is_field_of(u, 'archetype::Archetype', idf) and pathsem.mentions(u, lambda w: w == me)) or
                                (u[0] == 'call' and u[1].endswith('::identifier') and u[2] and S(u[2][0]) in (me, ('d', me))))

    def is_idcol(t, me):
        return pathsem.mentions(t, lambda u: pathsem.is_field_of(u, 'archetype::Archetype', ei) and pathsem.mentions(u, lambda w: w == me))
    direct_batch = []
    # ---- push
    f = meth('push')
    if f is None:
        r.viol('P10', 'push/missing', '-', 'Archetype::push not found')
    else:
        r.inst('Archetype::push')
        E = pathsem.analyse(prog, f)
        me = ('p', 1, f.body.local_name(1) or 'self')
        oldlen = ('f', ('d', me), li, 'archetype::Archetype')
        rep = set()

        def once(k, ln, msg, f=f, rep=rep):
            if k not in rep:
                rep.add(k)
                r.viol('P10', k, f.loc(ln), msg)
        rets = [p for p in E.paths if p.ended == 'return']
        if E.truncated or not rets:
            once('push/allocate-count', None, 'Archetype::push not analysable')
        for p in rets:
            al = p.calls(lambda e: e['name'] == 'allocate' and 'Allocator' in e['path'])
            if len(al) != 1:
                once('push/allocate-count', None, 'push must allocate exactly one identifier')
                continue
            at = al[0]
            lv = S(at['vals'][1])
            parts = None
            if isinstance(lv, tuple) and lv[0] == 'agg' and lv[1] == LOC:
                parts = (lv[4][adt_field_index(prog, LOC, 'identifier')], lv[4][adt_field_index(prog, LOC, 'index')])
            elif isinstance(lv, tuple) and lv[0] == 'call' and lv[1].endswith('Location::<R>::new') and len(lv[2]) == 2:
                parts = (lv[2][0], lv[2][1])
            if parts is None:
                once('push/location-shape', at['ln'], 'cannot see the location handed to the allocator')
            else:
                d = pathsem.lin(parts[1]) - pathsem.lin(oldlen)
                if not (d.is_const() and d.const == 0) or (at['epoch'] > min([e['epoch'] for e in p.events if e['k'] == 'store' and e['loc'] == oldlen] or [10 ** 9]) and False):
                    once('push/location-index', at['ln'], 'the new entity\'s location index is %s, expected the row it is pushed to (the length before the push)' % pathsem.tstr(parts[1]))
                if not names_this_archetype(parts[0], me):
                    once('push/location-identifier', at['ln'], 'the new entity\'s location does not name this archetype')
            pushes = [e for e in p.calls(lambda e: e['name'] == 'push' and e['path'].startswith('alloc::vec')) if is_idcol(e['args'][0], me)]
            if len(pushes) != 1 or S(pushes[0]['vals'][1]) != at['ret']:
                once('push/identifier-column', None, 'the identifier appended to the identifier column is not the one just allocated for this row')
            if S(p.ret) != at['ret']:
                once('push/returned-identifier', None, 'push does not return the identifier it stored')
    # ---- extend
    f = meth('extend')
    if f is None:
        r.viol('P10', 'extend/missing', '-', 'Archetype::extend not found')
    else:
        r.inst('Archetype::extend')
        E = pathsem.analyse(prog, f)
        me = ('p', 1, f.body.local_name(1) or 'self')
        oldlen = ('f', ('d', me), li, 'archetype::Archetype')
        rep = set()

        def once(k, ln, msg, f=f, rep=rep):
            if k not in rep:
                rep.add(k)
                r.viol('P10', k, f.loc(ln), msg)
        rets = [p for p in E.paths if p.ended == 'return']
        if E.truncated or not rets:
            once('extend/shape', None, 'Archetype::extend not analysable')
        ORDER = ('deref', 'iter', 'into_iter', 'copied', 'cloned', 'as_slice', 'as_ref', 'borrow', 'by_ref', 'drain')
        for p in rets:
            ab_ = p.calls(lambda e: e['name'] == 'allocate_batch')
            ln_ = p.calls(lambda e: e['name'] == 'new' and 'Locations' in e['path'])
            direct = len(ab_) == 1 and not ln_ and len(ab_[0]['vals']) >= 3 and isinstance(S(ab_[0]['vals'][1]), tuple) and S(ab_[0]['vals'][1])[0] == 'agg' and S(ab_[0]['vals'][1])[1] == 'core::ops::Range'
            if len(ab_) != 1 or (len(ln_) != 1 and not direct):
                once('extend/shape', None, 'extend must build one Locations range and allocate one batch of identifiers')
                continue
            bt = ab_[0]
            # the row range and this archetype's identifier reach allocate_batch as a Locations value or as they are
            lt = ln_[0] if not direct else {'vals': (bt['vals'][1], bt['vals'][2]), 'ret': None, 'ln': bt['ln']}
            rng = S(lt['vals'][0])
            if isinstance(rng, tuple) and rng[0] == 'agg' and rng[1] == 'core::ops::Range' and len(rng[4]) == 2:
                lo = pathsem.lin(rng[4][0]) - pathsem.lin(oldlen)
                hi = pathsem.lin(rng[4][1]) - pathsem.lin(oldlen)
                hit = list(hi.terms.items())
                ok_hi = hi.const == 0 and len(hit) == 1 and hit[0][1] == 1 and batch_len_term_ok(prog, f, hit[0][0])
                if not (lo.is_const() and lo.const == 0) or not ok_hi:
                    once('extend/location-range', lt['ln'], 'new rows are given locations %s..%s, expected old_length..old_length + batch length' % (pathsem.tstr(rng[4][0]), pathsem.tstr(rng[4][1])))
            else:
                once('extend/location-range-shape', lt['ln'], 'cannot see the range of row indices handed to Locations::new')
            if not names_this_archetype(lt['vals'][1], me):
                once('extend/location-identifier', lt['ln'], 'new rows\' locations do not name this archetype')
            if not direct and S(bt['vals'][1]) != lt['ret']:
                once('extend/locations-not-used', bt['ln'], 'allocate_batch is not given the locations built for the new rows')
            if direct:
                direct_batch.append(bt)
            exts = [e for e in p.calls(lambda e: e['name'] in ('extend', 'extend_from_slice', 'append')) if is_idcol(e['args'][0], me)]
            src_ok = False
            for e in exts:
                root, kinds = pathsem.iter_chain(e['vals'][-1])
                if S(root) == bt['ret'] and all(k_ in ORDER for k_ in kinds):
                    src_ok = True
            if not src_ok:
                once('extend/identifier-column', None, 'the identifier column is not extended with the identifiers allocated for this batch (in their order)')
            if S(p.ret) != bt['ret']:
                once('extend/returned-identifiers', None, 'extend does not return the identifiers it stored')
    # ---- allocate_batch pairing
    fs = [g for g in prog.fns.values() if g.path == 'entity::allocator::Allocator::<R>::allocate_batch']
    if len(fs) != 1:
        r.viol('P10', 'allocate_batch/missing', '-', 'allocate_batch not found')
    else:
        f = fs[0]
        r.inst('Allocator::allocate_batch')
        E0 = pathsem.analyse(prog, f)
        bad = None
        if direct_batch:
            # the batch arrives as (row range, identifier): allocate_batch itself pairs them up, from exactly those
            for p in E0.paths:
                if p.ended != 'return':
                    continue
                mk = p.calls(lambda e: e['name'] == 'new' and 'Locations' in e['path'])
                if len(mk) != 1 or S(mk[0]['vals'][0]) != ('p', 2, f.body.local_name(2) or '') or S(mk[0]['vals'][1]) != ('p', 3, f.body.local_name(3) or ''):
                    bad = 'allocate_batch does not build its Locations from the row range and identifier it was given'
        for p in E0.paths:
            if p.ended not in ('return', 'cutoff'):
                continue
            acts = p.calls(lambda e: e['name'] in ('activate_unchecked', 'activate'))
            used_locs = []
            pushed = p.calls(lambda e: e['name'] == 'push' and e['path'].startswith('alloc::vec') and any(is_adt(a_, ID_T) for a_ in e['f'].get('args', [])))
            for n_, e in enumerate(acts):
                loc = S(e['vals'][1]) if len(e['vals']) > 1 else None
                # the location is one fresh element of the `locations` iterator: its `next()`, or the element a `zip` with
                # the batch's iterator pairs with this slot
                loc_par = ('p', 2, f.body.local_name(2) or '')

                def batch_root(it):
                    t = pathsem.iter_chain(it)[0]
                    while isinstance(t, tuple) and t and t[0] in ('r', 'd'):
                        t = t[1]
                    if isinstance(t, tuple) and t and t[0] == 'L' and t[1] == 0:
                        t = ('p', t[2], f.body.local_name(t[2]) or '')
                    return t == loc_par or (isinstance(t, tuple) and t[0] == 'call' and 'Locations' in t[1] and t[1].endswith('::new'))
                zipped = isinstance(loc, tuple) and loc[0] == 'elem' and batch_root(loc[1]) and \
                    any(any(S(v) == S(loc[1]) or pathsem.mentions(v, lambda t: t == loc[1]) for v in z['vals']) for z in p.calls(lambda z: z['name'] == 'zip'))
                if not (isinstance(loc, tuple) and (pathsem.mentions(loc, lambda t: t[0] == 'call' and t[1].endswith('::next')) or zipped) and loc not in used_locs):
                    bad = bad or 'a reused slot is activated with something other than the next location of the batch'
                used_locs.append(loc)
                # ... and exactly one identifier is pushed for it, naming that slot's index, in the same order
                later = [q for q in pushed if q['i'] > e['i'] and (n_ + 1 >= len(acts) or q['i'] < acts[n_ + 1]['i'])]
                slot_idx = [t[2][1] for t in pathsem.subterms(e['args'][0]) if t[0] == 'call' and t[1].rsplit('::', 1)[-1] in ('get_unchecked_mut', 'index_mut', 'get_mut') and len(t[2]) == 2]
                mine = [q for q in later if slot_idx and pathsem.mentions(q['vals'][1], lambda t: t == S(slot_idx[0]))]
                if zipped and not pushed:
                    # the identifier is what the mapping closure hands to `extend` of the returned Vec
                    stop = acts[n_ + 1]['i'] if n_ + 1 < len(acts) else len(p.events)
                    stop = min([stop] + [q['i'] for q in p.events if q['k'] == 'consume_end' and q['i'] > e['i']])
                    outs = [q for q in p.events if q['k'] == 'leave' and e['i'] < q['i'] < stop and isinstance(q.get('ret'), tuple) and q['ret'][0] == 'call' and q['ret'][1].endswith('identifier::Identifier::new')]
                    mine = [q for q in outs if slot_idx and q['ret'][2] and S(q['ret'][2][0]) == S(slot_idx[0])]
                    into = [c for c in p.calls(lambda c: c.get('consumer') and c['i'] < e['i']) if p.ret is not None and S(c['vals'][0]) == S(p.ret)]
                    if p.ended == 'return' and not into:
                        bad = bad or 'the identifiers of reused slots are not collected into the Vec that is returned'
                    if [q for q in outs if q not in mine]:
                        bad = bad or 'the identifier produced for a reused slot does not carry that slot\'s index'
                # pushes after the last activation may also belong to the fresh part (identifiers with the constant
                # generation 0): they are judged there
                others = [q for q in later if q not in mine and not pathsem.mentions(q['vals'][1], lambda t: t == ('c', 0))]
                if p.ended == 'return' and len(mine) != 1:
                    bad = bad or 'the reuse loop must push exactly one identifier per reused slot, carrying that slot\'s index (found %d)' % len(mine)
                if others:
                    bad = bad or 'the identifier pushed for a reused slot does not carry that slot\'s index'
        if bad or E0.truncated:
            r.viol('P10', 'allocate_batch/loop-shape', f.loc(), 'the reuse loop must pair the k-th location with the k-th identifier: %s' % (bad or 'not analysable'))
        # fresh part: Identifier::new(slots_len + i, 0) for i in 0..remaining, in iteration order
        E = pathsem.analyse(prog, f)
        slots_i = adt_field_index(prog, 'entity::allocator::Allocator', 'slots')
        bad = None
        nret = 0
        nnew = 0
        for p in E.paths:
            if p.ended != 'return':
                continue
            nret += 1
            def is_range(u):
                return isinstance(u, tuple) and u and u[0] == 'agg' and isinstance(u[1], str) and u[1] in ('core::ops::Range', 'core::ops::range::Range', 'core::ops::RangeInclusive', 'core::ops::range::RangeInclusive')
            # fresh identifiers: generation is the constant 0
            news = [e for e in p.calls(lambda e: e['name'] == 'new' and 'entity::identifier::Identifier' in e['path']) if len(e['args']) > 1 and e['args'][1] == ('c', 0)]
            ext = [e for e in p.calls(lambda e: e.get('consumer') and pathsem.tstr(e['args'][0]).endswith('self.%d' % slots_i))]
            nexts = [e for e in p.calls(lambda e: e['path'] == 'core::iter::Iterator::next' and not any(pathsem.mentions(a_, is_range) for a_ in list(e['args']) + list(e['vals'])))]
            # ... or a consumer that draws the reused part from the batch through `by_ref()`
            nexts += [e for e in p.calls(lambda e: e.get('consumer') and any(pathsem.mentions(v, lambda t: t[0] == 'it' and t[1] == 'by_ref') for v in e['vals']))]
            if len(ext) != 1:
                bad = 'expected one extension of self.slots per path (found %d)' % len(ext)
                break
            x = ext[0]
            rngs = set()
            for a_, v_ in p.conds:
                if isinstance(a_, tuple) and a_[0] in ('next', 'nonempty', 'consumed', 'exhausted'):
                    rngs |= {u for u in pathsem.subterms(a_) if is_range(u)}
            for e in news:
                rngs |= {u for u in pathsem.subterms(e['args'][0]) if is_range(u)}
            if not news:
                continue            # the fresh loop ran zero times on this path
            nnew += len(news)
            if len(rngs) != 1:
                bad = 'fresh identifiers are not produced over one index range (found %d ranges)' % len(rngs)
                break
            rng = next(iter(rngs))
            lo, hi = pathsem.lin(rng[4][0]), pathsem.lin(rng[4][1])
            start = None
            for j, n in enumerate(news):
                L = pathsem.lin(n['args'][0])
                elems = [t for t in L.terms if isinstance(t, tuple) and t[0] == 'elem']
                if elems:
                    if len(elems) != 1 or L.terms[elems[0]] != 1 or len(news) != 1:
                        bad = 'index of a fresh identifier is not (start + i)'
                        break
                    st_j = (L - Lin.atom(elems[0])) + lo
                else:
                    # the loop over the range was walked concretely: the j-th fresh identifier is start + lo + j
                    st_j = L - Lin.k(j)
                if start is None:
                    start = st_j
                elif str(start) != str(st_j):
                    bad = 'fresh identifiers are not numbered consecutively (the %d-th is %s)' % (j, L)
                    break
            if bad:
                break
            count = hi - lo

            def is_len_of_slots(t):
                return isinstance(t, tuple) and t[0] == 'call' and t[1].endswith('::len') and pathsem.tstr(t[2][0]).endswith('self.%d' % slots_i)

            def is_len_of_locs(t):
                return isinstance(t, tuple) and t[0] == 'call' and t[1].endswith('::len') and not is_len_of_slots(t)
            st_atoms = list(start.terms.items())
            if not (start.const == 0 and len(st_atoms) == 1 and st_atoms[0][1] == 1 and is_len_of_slots(st_atoms[0][0]) and st_atoms[0][0][4] <= x['epoch']):
                bad = 'fresh identifiers must start at the number of slots before the new slots are appended (start = %s)' % start
                break
            pos = [t for t, c in count.terms.items() if c == 1]
            neg = [t for t, c in count.terms.items() if c == -1]
            ok_a = count.const == 0 and len(count.terms) == 1 and len(pos) == 1 and is_len_of_locs(pos[0]) and pos[0][4] <= x['epoch'] and all(pos[0][4] > e['epoch'] for e in nexts)
            ok_b = count.const == 0 and len(count.terms) == 2 and len(pos) == 1 and len(neg) == 1 and is_len_of_slots(pos[0]) and pos[0][4] > x['epoch'] and neg[0] == st_atoms[0][0]
            if not (ok_a or ok_b):
                bad = 'the number of fresh identifiers (%s) is not the number of locations left after slot reuse' % count
                break
        if not bad and not nnew:
            bad = 'no path produces identifiers for fresh slots'
        if bad or not nret or E.truncated:
            r.viol('P10', 'allocate_batch/fresh-numbering', f.loc(), 'identifiers of fresh slots must be (slots_len + i, generation 0) in iteration order: %s' % (bad or 'no analysable path'))
    # ---- Locations::next
    fs = [g for g in prog.fns.values() if g.name == 'next' and g.impl and is_adt(g.impl['self'], 'entity::allocator::locations::Locations')]
    if len(fs) != 1:
        r.viol('P10', 'Locations::next/missing', '-', 'Locations::next not found')
    else:
        f = fs[0]
        r.inst('Locations::next')
        E = pathsem.analyse(prog, f)
        rets = [p for p in E.paths if p.ended == 'return']
        ladt = prog.adts.get('entity::allocator::locations::Locations')
        lnames = [x['name'] for x in ladt['variants'][0]['fields']] if ladt else []
        loc_adt = prog.adts.get('entity::allocator::location::Location')
        loc_names = [x['name'] for x in loc_adt['variants'][0]['fields']] if loc_adt else []
        me = ('p', 1, f.body.local_name(1) or '')
        ok = bool(rets) and not E.truncated and 'identifier' in lnames and 'indices' in lnames and 'identifier' in loc_names and 'index' in loc_names
        rng = False
        n_some = 0
        for p in rets if ok else []:
            v = p.ret
            nxt = p.calls(lambda e: e['path'] == 'core::iter::Iterator::next' and pathsem.mentions(e['args'][0], lambda t: pathsem.is_field_of(t, 'Locations', lnames.index('indices')) and pathsem.mentions(t, lambda w: w == me)))
            rng = rng or bool(nxt)
            if v == pathsem.NONE:
                # only when the index range is exhausted
                if not nxt or p.lookup(('discr', nxt[-1]['ret'])) != 0:
                    ok = False
                continue
            if not (isinstance(v, tuple) and v[0] == 'agg' and v[2] == 'Some'):
                ok = False
                continue
            n_some += 1
            x = S(v[4][0])
            l_id = l_ix = None
            if isinstance(x, tuple) and x[0] == 'call' and x[1].endswith('location::Location::<R>::new') and len(x[2]) == 2:
                l_id, l_ix = x[2]
            elif isinstance(x, tuple) and x[0] == 'agg' and x[1] == 'entity::allocator::location::Location':
                l_id, l_ix = x[4][loc_names.index('identifier')], x[4][loc_names.index('index')]
            if l_id is None or not nxt:
                ok = False
                continue
            payload = ('f', ('down', nxt[-1]['ret'], 'Some', 1), 0, 'core::option::Option')
            if not (pathsem.is_field_of(S(l_id), 'Locations', lnames.index('identifier')) and pathsem.mentions(l_id, lambda w: w == me)) or S(l_ix) != payload or len(nxt) != 1:
                ok = False
        ok = ok and n_some > 0
        # Locations::len / is_empty speak about what is LEFT (allocate_batch sizes the fresh part with them after the
        # reuse loop has taken some): len == indices.end - indices.start of the live range, is_empty == that range's
        for g in prog.fns.values():
            if not (g.path.startswith('entity::allocator::locations::Locations::<R>::') and g.name in ('len', 'is_empty') and g.kind == 'AssocFn'):
                continue
            r.inst('Locations::%s' % g.name)
            Eg = pathsem.analyse(prog, g)
            gr = [p for p in Eg.paths if p.ended == 'return']
            gme = ('p', 1, g.body.local_name(1) or '')
            ii = lnames.index('indices') if 'indices' in lnames else None

            def of_range(t, k):
                # field k (0 = start, 1 = end) of self.indices
                t = S(t)
                return isinstance(t, tuple) and t[0] == 'f' and t[2] == k and pathsem.is_field_of(t[1], 'Locations', ii) and pathsem.mentions(t, lambda w: w == gme)
            badg = Eg.truncated or not gr or ii is None
            for p in gr:
                if g.name == 'len':
                    L = pathsem.lin(p.ret)
                    pos = [t for t, c in L.terms.items() if c == 1]
                    neg = [t for t, c in L.terms.items() if c == -1]
                    if not (L.const == 0 and len(L.terms) == 2 and len(pos) == 1 and len(neg) == 1 and of_range(pos[0], 1) and of_range(neg[0], 0)):
                        # or delegated to the range itself
                        if not (isinstance(p.ret, tuple) and p.ret[0] == 'call' and p.ret[1].rsplit('::', 1)[-1] == 'len' and pathsem.mentions(p.ret, lambda t: pathsem.is_field_of(t, 'Locations', ii))):
                            badg = True
                else:
                    tests = [a_ for a_, v in p.conds if pathsem.mentions(a_, lambda t: pathsem.is_field_of(t, 'Locations', ii))]
                    if not tests and not pathsem.mentions(p.ret, lambda t: pathsem.is_field_of(t, 'Locations', ii)):
                        badg = True
            if badg:
                r.viol('P10', 'Locations::%s/not-remaining' % g.name, g.loc(), 'Locations::%s must describe the locations still to be yielded (the live `indices` range): allocate_batch sizes the fresh slots with it after reusing free ones' % g.name)
        if not ok or not rng:
            r.viol('P10', 'Locations::next/shape', f.loc(), 'Locations::next must yield Location{identifier: self.identifier, index: next index of the range}')
    return r


def t_is_ident_vec(c):
    return any(is_adt(a, ID_T) or (a.get('k') == 'ref' and is_adt(a.get('t'), ID_T)) or ty_mentions(a, lambda n: is_adt(n, ID_T)) for a in c.get('args', []))


def json_s(x):
    import json
    return json.dumps(x)


@rule('C10b', props=['C10', 'C16', 'C04', 'C01'], floor=2, configs=('all', 'default'))
def c10b_archetype_clone_copies_all_parts(prog):
    """`Clone for Archetype`: on every returning path `clone` yields an archetype whose four parts come from the
    source's — the identifier from a clone of `self.identifier`, the identifier column from a copy of the Vec rebuilt
    from `self.entity_identifiers` with `self.length`, the component columns from `clone_components(self.components, ..,
    self.length, ..)`, and `length` equal to `self.length` — whatever the number of component columns (an entity with
    no components is still a row). `clone_from` stores `source.length`, copies the identifier column with a
    write-back, and walks `clone_from_components` over (self.components, self.length, source.components,
    source.length)."""
    r = Result()
    S = pathsem.strip_refs
    adt = prog.adts.get('archetype::Archetype')
    names = [x['name'] for x in adt['variants'][0]['fields']]
    fi = {n: names.index(n) for n in ('identifier', 'entity_identifiers', 'components', 'length')}

    def impl_fn(name):
        c = [f for f in prog.fns.values() if f.name == name and f.impl and f.impl['trait'] and f.impl['trait']['path'] == 'core::clone::Clone' and is_adt(f.impl['self'], 'archetype::Archetype')]
        return c[0] if len(c) == 1 else None

    def fld_of(t, who, name):
        return pathsem.mentions(t, lambda u: pathsem.is_field_of(u, 'archetype::Archetype', fi[name]) and pathsem.mentions(u, lambda w: w == who))

    def has_call(t, pred):
        return pathsem.mentions(t, lambda u: isinstance(u, tuple) and u[0] == 'call' and pred(u[1].rsplit('::', 1)[-1]))
    f = impl_fn('clone')
    if f is None:
        r.viol('C10b', 'clone/missing', '-', 'Clone::clone for Archetype not found')
    else:
        r.inst('Archetype::clone')
        E = pathsem.analyse(prog, f)
        rets = [p for p in E.paths if p.ended == 'return']
        me = ('p', 1, f.body.local_name(1) or '')
        rep = set()

        def once(k, msg):
            if k not in rep:
                rep.add(k)
                r.viol('C10b', 'clone/' + k, f.loc(), msg)
        if E.truncated or not rets:
            once('not-analysable', 'path enumeration cut off')
        for p in rets:
            v = p.ret
            parts = None
            if isinstance(v, tuple) and v[0] == 'agg' and v[1] == 'archetype::Archetype':
                parts = {n: v[4][fi[n]] for n in fi}
            elif isinstance(v, tuple) and v[0] == 'call' and v[1].endswith('Archetype::<R>::from_raw_parts') and len(v[2]) == 4:
                parts = dict(zip(('identifier', 'entity_identifiers', 'components', 'length'), v[2]))
            if parts is None:
                once('not-from-source', 'a path of Archetype::clone returns an archetype that is not assembled from the source\'s identifier, identifier column, component columns and length (e.g. a fresh empty archetype): rows are lost while the world still counts them')
                continue
            if S(parts['length']) != ('f', ('d', me), fi['length'], 'archetype::Archetype') and not (fld_of(parts['length'], me, 'length') and pathsem.lin(parts['length']).terms and len(pathsem.lin(parts['length']).terms) == 1 and pathsem.lin(parts['length']).const == 0):
                once('length', 'the clone\'s length is not the source\'s length')
            if not (fld_of(parts['identifier'], me, 'identifier') and has_call(parts['identifier'], lambda n: n in ('clone', 'to_owned'))):
                once('identifier', 'the clone\'s identifier is not a clone of the source\'s')
            if not (fld_of(parts['entity_identifiers'], me, 'entity_identifiers') and fld_of(parts['entity_identifiers'], me, 'length') and has_call(parts['entity_identifiers'], lambda n: n in ('clone', 'to_vec', 'to_owned'))):
                once('entity-identifiers', 'the clone\'s identifier column is not a copy of the source\'s identifier column (rebuilt with the source\'s length)')
            ok_cols = fld_of(parts['components'], me, 'components') and fld_of(parts['components'], me, 'length') and has_call(parts['components'], lambda n: n == 'clone_components')
            if not ok_cols:
                # out-parameter form: clone_components(self.components, &mut new_columns, self.length, ..) fills the Vec
                # that becomes the clone's column list
                for e in p.calls(lambda e: e['name'] == 'clone_components'):
                    srcs = list(e['args']) + list(e['vals'])
                    if any(fld_of(x, me, 'components') for x in srcs) and any(fld_of(x, me, 'length') for x in srcs) and any(S(v_) == S(parts['components']) for v_ in e['vals']):
                        ok_cols = True
            if not ok_cols:
                once('components', 'the clone\'s component columns are not produced by clone_components over the source\'s columns and length')
    f = impl_fn('clone_from')
    if f is None:
        r.viol('C10b', 'clone_from/missing', '-', 'Clone::clone_from for Archetype not found')
    else:
        r.inst('Archetype::clone_from')
        E = pathsem.analyse(prog, f)
        rets = [p for p in E.paths if p.ended == 'return']
        me = ('p', 1, f.body.local_name(1) or '')
        src = ('p', 2, f.body.local_name(2) or '')
        rep = set()

        def once2(k, msg):
            if k not in rep:
                rep.add(k)
                r.viol('C10b', 'clone_from/' + k, f.loc(), msg)
        if E.truncated or not rets:
            once2('not-analysable', 'path enumeration cut off')
        for p in rets:
            ls = [e for e in p.events if e['k'] == 'store' and pathsem.is_field_of(e['loc'], 'archetype::Archetype', fi['length']) and pathsem.mentions(e['loc'], lambda w: w == me)]
            if not ls or S(ls[-1]['value']) != ('f', ('d', src), fi['length'], 'archetype::Archetype'):
                once2('length', 'a path of Archetype::clone_from does not end with length = source.length')
            walks = p.calls(lambda e: e['name'] == 'clone_from_components')
            if len(walks) != 1:
                once2('components', 'clone_from must walk clone_from_components exactly once on every path (found %d)' % len(walks))
            else:
                a_ = walks[0]['args']
                vals = walks[0]['vals']
                ok = len(a_) >= 4 and fld_of(vals[0], me, 'components') and fld_of(a_[1], me, 'length') and fld_of(vals[2], src, 'components') and fld_of(a_[3], src, 'length')
                if not ok:
                    once2('components', 'clone_from_components is not given (self.components, self.length, source.components, source.length)')
            wb = [e for e in p.events if e['k'] == 'store' and pathsem.is_field_of(e['loc'], 'archetype::Archetype', fi['entity_identifiers']) and pathsem.mentions(e['loc'], lambda w: w == me)]
            # a copy is any call that is handed both the source's identifier column and this archetype's (clone_from,
            # clone_into, extend_from_slice, copy_from_slice ...), or a write-back of something made from the source's
            copies = [e for e in p.calls(lambda e: True)
                      if any(fld_of(x, src, 'entity_identifiers') for x in list(e['args']) + list(e['vals'])) and any(fld_of(x, me, 'entity_identifiers') for x in list(e['args']) + list(e['vals']))]
            if not copies and not any(fld_of(e['value'], src, 'entity_identifiers') for e in wb):
                once2('entity-identifiers', 'the source\'s identifier column is not copied')
            if not wb:
                once2('entity-identifiers', 'the identifier column\'s (pointer, capacity) are not written back after the copy')
    return r
