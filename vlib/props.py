"""Per-property driver: runs rules + witness families, applies known findings, writes evidence."""
import json, os, sys, time
from . import engine
from .engine import VERIF

# Per-property static description used in evidence (what is claimed / what is not).
PROPS = {}


def describe(pid, level, explanation, not_decided, assumptions):
    PROPS[pid] = {'level': level, 'explanation': explanation, 'not_decided': not_decided, 'assumptions': assumptions}


COMMON_ASSUMPTIONS = [
    'rustc (nightly, pinned in this sandbox) builds MIR and resolves traits correctly; MIR is read at -Zmir-opt-level=0 with debug/overflow assertions off',
    'std Vec/VecDeque/slice/ptr and hashbrown behave as documented (effect table in vlib/effects.py where used)',
    'facts are extracted from the current /repo working tree on every run (cargo +nightly check through the broodfacts driver); cfg(test) code is not part of the analysed program',
]

describe('C01', 'other',
         'Decides structural clauses necessary for the world to behave like a map: row operations keep identifier column, component columns and length in step (P9, W-rules), swap-remove re-points the moved entity (P4), shape changes relocate (P5), len tracks population (P6), popped slots are used (P1), deletes free (P3).',
         'equality with a reference map over histories; values; order of identifiers returned by extend',
         COMMON_ASSUMPTIONS)
describe('C02', 'other',
         'Decides: stale identifiers are rejected by a dominating generation comparison (G1); reuse bumps the generation (G2); slots are never removed (A1); freed slots re-enter the free list and popped ones are used (P1,P2,P3); moves keep locations current (P4,P5); clone remaps locations (P8).',
         'global uniqueness over a lifetime as a computed fact (generation arithmetic over histories)',
         COMMON_ASSUMPTIONS)
describe('C13', 'other',
         'Decides: no slot is lost or duplicated (P1,P2,P3,A1), location index kept current on swap-remove and shape change (P4,P5), archetype table and its lookup tables stay in step (P7), len adjusted with every structural change (P6), Archetype.length bookkeeping (P9).',
         'the whole-state invariant after every history',
         COMMON_ASSUMPTIONS)


def evidence_path(pid):
    return os.path.join(VERIF, 'evidence', pid + '.json')


def run_property(pid, tier, seed, repo=None):
    t0 = time.time()
    os.makedirs(os.path.join(VERIF, 'evidence', 'replay'), exist_ok=True)
    ctx = engine.Ctx(repo, tier)
    desc = PROPS.get(pid)
    if desc is None:
        print('unknown or unclaimed property', pid)
        return 2
    results = engine.run_rules(ctx, pid, tier)
    from . import witness
    wres = witness.run_families(ctx, pid, tier, seed)
    known = [k for k in engine.load_known() if k.get('status') == 'known']
    known_keys = {k['key']: k for k in known}
    violations = []
    instances = 0
    distinct = set()
    samples = []
    per_rule = []
    errors = []
    for ru, cfg, res in results:
        if isinstance(res, Exception):
            errors.append({'rule': ru.id, 'config': cfg, 'error': repr(res)})
            violations.append(engine.Violation(ru.id, 'check-error/%s' % cfg, '-', 'rule crashed: %r' % (res,)))
            continue
        n = len(res.instances)
        instances += n
        for i in res.instances:
            distinct.add((ru.id, i))
        if res.instances:
            samples.append('%s[%s]: %s' % (ru.id, cfg, res.instances[0]))
        per_rule.append({'rule': ru.id, 'config': cfg, 'instances': n, 'floor': ru.floor_for(cfg), 'violations': len(res.violations), 'doc': ru.doc})
        if n < ru.floor_for(cfg):
            violations.append(engine.Violation(ru.id, 'below-floor/%s' % cfg, '-',
                                               'rule examined %d instances, fewer than the %d confirmed by hand: the structure the clause relies on is gone or unrecognisable' % (n, ru.floor_for(cfg))))
        violations.extend(res.violations)
    programs = 0
    for fam, fr in wres:
        programs += fr['programs']
        instances += fr['programs']
        for k in fr['keys']:
            distinct.add((fam, k))
        samples.extend(fr['samples'][:2])
        per_rule.append({'rule': fam, 'config': 'witness', 'instances': fr['programs'], 'floor': fr['floor'], 'violations': len(fr['violations']), 'doc': fr['doc']})
        violations.extend(fr['violations'])
    # de-duplicate (same key from two configs)
    uniq = {}
    for v in violations:
        uniq.setdefault(v.key, v)
    new = []
    for key, v in sorted(uniq.items()):
        if key in known_keys and known_keys[key]['property'] == pid:
            print('KNOWN-FINDING: property=%s %s — %s' % (pid, key, known_keys[key].get('what', v.msg)))
        elif key in known_keys:
            # listed under another property: still the same genuine defect
            print('KNOWN-FINDING: property=%s %s — %s' % (pid, key, known_keys[key].get('what', v.msg)))
        else:
            new.append(v)
    for n, v in enumerate(new):
        rp = os.path.join(VERIF, 'evidence', 'replay', '%s-%d.json' % (pid, n))
        with open(rp, 'w') as f:
            json.dump({'property': pid, 'tier': tier, **v.to_json()}, f, indent=1)
        print('%s: %s' % (v.where, v.msg))
        print('VIOLATION property=%s replay=%s' % (pid, rp))
    wall = time.time() - t0
    cov = {
        'evaluations': instances,
        'distinct_nontrivial': len(distinct),
        'rule': 'instances = constructs (functions, impls, call sites, table cells, witness programs) enumerated from the resolved program by each rule; distinct = distinct (rule, instance) pairs; an instance is non-trivial because a rule only counts a construct after it matched the shape the rule reasons about',
        'samples': samples[:12] or ['(none)'],
        'explanation': desc['explanation'] + ' NOT decided: ' + desc['not_decided'] + '.',
        'programs': programs,
        'rules': per_rule,
        'extraction': ctx.extract_info,
        'errors': errors,
    }
    if wres and all(fr.get('exhaustive') for _, fr in wres):
        cov['exhaustive_witness_families'] = True
    ev = {
        'property_id': pid, 'tier': tier, 'seed': seed, 'level': desc['level'],
        'coverage': cov, 'assumptions': desc['assumptions'], 'wall_s': round(wall, 2), 'violations': len(new),
    }
    with open(evidence_path(pid), 'w') as f:
        json.dump(ev, f, indent=1)
    print('%s %s: %d rule runs, %d instances, %d witness programs, %d new violations, %d known (%.1fs)' % (
        pid, tier, len(results), instances, programs, len(new), len(uniq) - len(new), wall))
    return 1 if new else 0
