"""Per-property driver: runs rules + witness families, applies known findings, writes evidence."""
import json, os, sys, time
from . import engine
from .engine import VERIF

PROPS = {}


def describe(pid, level, explanation, not_decided, assumptions=None):
    PROPS[pid] = {'level': level, 'explanation': explanation, 'not_decided': not_decided, 'assumptions': (assumptions or []) + COMMON_ASSUMPTIONS}


COMMON_ASSUMPTIONS = [
    'rustc (nightly toolchain of this sandbox) builds MIR and resolves traits correctly; MIR is read at -Zmir-opt-level=0 with debug/overflow assertions off',
    'std Vec/VecDeque/slice/ptr/ManuallyDrop and hashbrown behave as documented (effect tables: REALLOC, SHRINK, ELEMENT_CODE in vlib/rules_walk.py and vlib/rules_unwind.py)',
    'facts are re-extracted from the current /repo working tree on every run; cfg(test) code is not part of the analysed program; user unsafe code is out of scope',
]

# Which registry-walk functions matter for which property (by trait-method name). Rules over walk
# traces (W*, O*, U*) are filtered to these so that a violation is attributed only to properties it breaks.
ENTITY_WALKS = {'push_components', 'extend_components', 'reserve_components', 'push_components_from_buffer_and_component',
                'push_components_from_buffer_skipping_component', 'pop_component_row', 'remove_component_row', 'set_component',
                'new_components_with_capacity', 'clear_components', 'shrink_components_to_fit', 'size_of_components_for_identifier'}
VIEW_WALKS = {'view', 'view_one', 'view_one_maybe_uninit'}
SERDE_WALKS = {'serialize_components_by_row', 'serialize_components_by_column', 'deserialize_components_by_row', 'deserialize_components_by_column', 'expected_row_component_names'}
SCOPES = {
    'C01': ENTITY_WALKS,
    'C03': VIEW_WALKS | {'set_component', 'par_view'},
    'C04': None,
    'C05': None,
    'C06': SERDE_WALKS,
    'C09': {'par_view'},
    'C10': {'clone_components', 'clone_from_components'},
    'C11': SERDE_WALKS | {'try_free_components', 'free_components', 'new_components_with_capacity'},
    'C16': {'component_eq'},
    'C17': None,
}

describe('C01', 'other',
         'Structural clauses necessary for the world to behave like a map from live identifiers to component sets: every row operation keeps component columns, identifier column and length in step (W1-W3 induction step on the entity walks, O2 write-back, O5 packed-row linearity, O6 adoption guard, P9 length bookkeeping); swap-remove re-points the entity it moved (P4); shape changes relocate the row and both location records (P5); World.len tracks the population (P6); popped slots are used and deletes free (P1, P3); one table per component set (P7); clone_from clears destination-only tables (C10a); batches are rectangular (G4); the canonical form of an entity is the registry-ordered list for every subset/permutation (V-CANON witnesses).',
         'equality with a reference map over histories; component values; order of identifiers returned by extend')
describe('C02', 'other',
         'Stale identifiers are rejected by a dominating generation comparison (G1); reuse bumps the generation (G2); slots are never removed, so generations survive (A1); freed slots re-enter the free list, popped ones are used, deletes free exactly the removed identifier (P1, P2, P3); the free list is copied/deserialised verbatim (A2); moves keep locations current (P4, P5); clone remaps locations into the clone (P8); deserialisation rebuilds locations from actual rows and rejects duplicates/missing slots (G5iii).',
         'global uniqueness of identifiers over a lifetime as a computed fact (generation arithmetic over histories)')
describe('C03', 'other',
         'A view touches only the head column of its own component, at the viewed mutability, with the shared length, and steps past it exactly when the bit is set (W1-W3, W5 on view/view_one/view_one_maybe_uninit); both filter tables are the right boolean function of identifier bits, cell by cell (T4); views are only materialised under the matching filter (G7); sub-views never strengthen mutability (T5) and are extracted under the right guards (G6); next/fold agree (I1), the finite upper bound of size_hint depends on the upper bound of the archetype iterator (I2); every subset/order of views compiles and yields the requested item types in queries, World::entry and entry sub-views (V-VIEWS); Archetype.length bookkeeping (P9).',
         'one result per entity, values; size_hint as a numeric bracket (only the dependence clause I2 is decided)')
describe('C04', 'other',
         'No second owner of a live column is ever dropped (O1) or used unwrapped / raw (U3); fresh Vecs stored as columns are never dropped (O3); every value leaving a column through the packed buffer is consumed exactly once (O5); slots are written back with the raw parts of the Vec rebuilt from them (O2), adoption only over empty unallocated columns (O6); typed access at the head type (W3); the deserialising column/row readers drop or keep each value exactly once on error paths (G5iv, G5v); shape change moves (P5).',
         'counting drops over histories; leaks caused by user mem::forget')
describe('C05', 'other',
         'Induction step of the column-store safety invariant for every registry walk in both feature sets: one identifier bit per step (W1), column list advanced iff bit set and only column 0 touched (W2), every cast/raw-parts/unaligned access at the head component type (W3), length and capacity from the matching slot (W5); (ptr,cap) written back after every growth (O2), no dangling/adopted-over-allocated slots (O3, O6), reconstructed owners never freed (O1), buffers never moved under user code (U1); lookup tables purged before their keys are freed, clone locations remapped (P7, P8); swap-remove and batch guards (P4, G4); views only under their filter (G7, T5).',
         'absence of undefined behaviour in general (Miri/Kani territory); capacity arithmetic inside Vec; zero-sized-type corner cases of a particular monomorphisation')
describe('C06', 'other',
         'Writer and reader agree on the wire shape in both encodings (X1: container kind/name/length expression and element sequence for 14 pairs incl. registry walks; X3: is_human_readable selects row/column on both sides); the serde walks map the k-th stored column to the k-th serialised column (W1-W3, W5); no reachable allocator state is unserialisable: slots are never lost (P1, P2), the free list round-trips verbatim (A2); identifier padding validation accepts exactly canonical identifiers (G5i); reader rebuilds locations from rows (G5iii); len recomputed (P6).',
         'equality of the round-tripped world; lock-step behaviour afterwards')
describe('C07', 'other',
         'Premises of the commutation argument: every task runs exactly once (S1 fork/skip structure, S2 flag <=> ran, S5 flags forwarded between stages); stages are sequential (S5); a stage only contains tasks the aliasing oracle says commute (T3 reachable cells, T8 merge table, V-SCHED in thorough: computed Stages type == reference greedy partition); an early-started task conflicts with nothing still running (S3/S3q admission, S4 claims accumulate, T1 claim per view kind, T9 entry filter).',
         'equality of final states; behaviour of user systems; rayon::join itself')
describe('C08', 'other',
         'The only ways two tasks overlap are same-stage (compile time) and add-on (run-time claim map). Decided: the claim a task publishes covers what it can touch (T1 view kind -> claim, T8 merge of views and entry views, T9 entry filter, T4 filter tables); claims of all running tasks are present (S4 no blind insert, S1 recorded before the rest of the stage); admission requires compatible components AND resources and forwards the merged state (S2/S3, S3q); stage table T3; V-SCHED in thorough.',
         'hashbrown/rayon internals; what unsafe user code does')
describe('C09', 'other',
         'par_view selects exactly the columns view selects with the same mutability: W1-W3, W5 on CanonicalParViews (bit/advance/type/length/mutability per view kind); parallel view kinds require Sync for shared and Send for exclusive access (T7); archetype selection uses the same filter tables (T4) and views are only built under the filter (G7).',
         'multiset equality with the sequential query; each entity exactly once at run time; rayon split patterns (RepeatNone::split_at arithmetic is covered by rule R9)')
describe('C10', 'other',
         'Cloned columns are fresh allocations owned by the clone (O3, W on clone_components/clone_from_components, O1, O2); no location of the clone points into the source (P8), lookup tables rebuilt through identifier_map (P7); destination archetypes absent from the source are cleared on every path (C10a); len copied (P6); free list copied verbatim (A2).',
         'equality after clone; independence under arbitrary later histories')
describe('C11', 'other',
         'Every validator the property relies on is present and guards the Ok: identifier padding (G5i, exhaustive constant propagation over LEN x last byte), duplicate archetypes (G5ii), allocator slots bounds/duplicates/missing (G5iii), column/row readers push once per element and clean up exactly what was initialised (G5iv, G5v); a deserialised World passes the duplicate-component assertion (G3); wire shapes agree (X1, X3); walks (W, O on the serde walks and clean-up walks).',
         'absence of panics on absurd lengths; semantic validity of the resulting world under later operations')
describe('C12', 'other',
         'For every schedule of the generated family the compile-time Stages type equals the reference greedy partition by declared access (V-SCHED: exhaustive for 2-task schedules over the view alphabet, both directions); T3/T8 explain per cell; every task of a stage that has not run yet is forked against the rest of its stage with rayon::join on every path (S1: no inline fast path that serialises it); stages sequential and flags forwarded (S5); no blocking/synchronising primitive anywhere in the crate, so run_schedule only waits on its own joins and terminates on a 1-thread pool (S7).',
         'that rayon actually uses two threads; wall-clock parallelism')
describe('C13', 'other',
         'No slot lost or duplicated (P1, P2, P3, A1); one table per component set with lookup tables in step, purge-before-erase (P7); World.len and Archetype.length adjusted with every structural change on the same paths (P6, P9); locations kept current (P4, P5, P8, G5iii); deserialisation rejects duplicate tables (G5ii); clone_from clears destination-only tables (C10a).',
         'the whole-state invariant after every history')
describe('C14', 'other',
         'Type-checker verdicts over a systematically generated family (V-C14): every pair of view kinds on one component/resource in each position (views/views, views/entry, entry/entry, repeated entry queries, resource views) with >= 1 mutable must be rejected and its conflict-free twin must compile; thread-crossing APIs with !Send/!Sync payloads must be rejected; foreign components/resources rejected. Structural generalisations: no mutable sub-view from a shared super view (T5), every unsafe Send/Sync impl bounds its payload parameters (T6), parallel view and Task bounds (T7).',
         'programs outside the generated family (T5/T6/T7 generalise structurally)')
describe('C15', 'other',
         'Resource lookup is positional recursion on the type index (R1 accessor clause) and has the requested types for every position, subset and order (V-RES witnesses); no entity operation touches World.resources, only the listed accessors write it, clone/clone_from copy it on every path (R1); resource claims per view kind (T1); resources serialised/deserialised position by position (X1).',
         'value preservation across long histories')
describe('C16', 'other',
         'Equality inspects everything the statement lists: all four World fields, allocator slots+free, slot generation+location, location identifier+index, archetype length/identifiers/components (E1); Archetypes::eq is (same table count) && (every table has an equal counterpart found by identifier bytes) — both conjuncts needed for symmetry (E2); the column comparison walk compares column 0 of both sides at the head type with each side\'s own length (W on component_eq); free-list order preserved by clone/serde (A2).',
         'algebraic properties of PartialEq on user component types')
describe('C17', 'fault_enumeration',
         'Enumerates fault positions (unwind edges) instead of injecting faults: every user-code site (component Clone/Drop/PartialEq/Serialize/Deserialize calls, element code run by Vec methods, Drop terminators of component type) in every registry walk is examined for (U1) running inside a realloc-to-write-back window, (U2) running after a column was shrunk/rewritten but before the archetype length is published on a reachable archetype, (U3) raw element operations / unwrapped rebuilt owners; plus O1/O2, clean-up agreement of the row reader (G5v), schedule fork structure (S1) and absence of catch_unwind/blocking (S7). The set of unsafe windows on the current tree is exactly the listed known findings (D5, D6, clear, clear_detached).',
         'panics inside hashbrown/rayon; user Drop impls that themselves violate safety')
describe('C18', 'other',
         'Every way to obtain a World passes the duplicate-component assertion, which inspects every component and panics on a duplicate (G3); a Batch can only be built by the unsafe new_unchecked or by new under a true check_len, whose truth table is (own column length == len) && tail (G4); fields are private and the unchecked constructor is unsafe; ragged entities! rows are rejected (V-C18 witnesses).',
         'nothing material')


# clauses added by the later validation rounds (DESIGN.md 10.6-10.12)
LATER = {
    'C01': 'a replaced component is dropped in place, never overwritten raw (W9); the archetype a row operation runs on was looked up for the same canonical shape (G8); allocator slots/free/generation/location are touched only inside the allocator module (A3); Archetype::clone/clone_from copy identifier, identifier column, columns and length on every path (C10b); allocate_batch numbers reused and fresh identifiers row by row (P10); the identifier cell reads its own row (W10).',
    'C02': 'the generation bump wraps (no overflow-checked arithmetic, G2); nothing outside the allocator module resolves an identifier without the generation comparison (A3).',
    'C03': 'the identifier handed out by single-row views is the one at `index` (W10); sub-views of query-time entries are extracted only after a filter for those sub-views was found true (G7); result iterators select archetypes with And<Views, Filter> everywhere, fold included (I1, I3); single-entity lookups resolve through locations kept current by the swap-remove fix-up (P4); ArchetypeClaims::next (S8).',
    'C04': 'a column copied for a clone holds the source rows (W8); replace-in-place drops the old value (W9); Archetype::clone never returns a fresh empty archetype for a populated one (C10b).',
    'C05': 'row operations walk columns with the shape the archetype was looked up for (G8); no division by size_of of a generic without a zero check (Z1); W8, W9 as for C04.',
    'C06': 'locations stay valid input for the deserialiser (P4); the padding validator also handles the empty registry (G5i).',
    'C07': 'every run entry point reaches the user system exactly once (S9); every claims() list recurses into its tail (T12); the list merge visits every element (T2, T2b).',
    'C08': 'claims lists recurse (T12); iterators never visit archetypes outside And<Views, Filter> (I1, I3); per-archetype claims are views ⊔ entry views (S8).',
    'C09': 'run_par_system / Task::run for ParSystem call the system once on every path, like their sequential twins (S9); the absent-column placeholder conserves the count (R9); the folder reduces every archetype result (C9f).',
    'C10': 'Archetype::clone/clone_from copy all four parts (C10b); copied columns hold the rows (W8); slots are never truncated by clone_from (A1).',
    'C11': 'the generation bump cannot panic on a deserialised maximum generation (G2); the identifier validator reads no byte of an empty buffer (G5i, LEN = 0).',
    'C12': 'an add-on is refused only on a real claim conflict (S3q false-without-conflict); the Null entry filter matches nothing (T9).',
    'C13': 'allocator internals are private to the allocator module (A3); non-canonical identifier bytes are rejected, so one component set has one table (G5i).',
    'C15': 'resource claims lists recurse into the tail (T12); merged resource claims are forwarded to later add-ons (S2/S3); identical claim lists are still merged element-wise (T2); every run reaches the system (S9).',
    'C16': 'the column equality walk answers true only through the tail and an element-wise comparison (E3); clone_from fast paths are covered by P6, P8, A1, R1.',
    'C17': 'replace-in-place is a drop-and-assign (W9), never drop_in_place + write.',
}
for _pid, _txt in LATER.items():
    PROPS[_pid]['explanation'] += ' Added by the later validation rounds: ' + _txt


EVIDENCE_DIR = os.path.join(VERIF, 'evidence')


def evidence_path(pid):
    return os.path.join(EVIDENCE_DIR, pid + '.json')


def in_scope(pid, tag):
    sc = SCOPES.get(pid, None)
    if sc is None or tag is None:
        return True
    if tag in sc:
        return True
    # a walk method the scope tables have never heard of (a new helper walk) is nobody's in particular: report it
    known = set().union(*[v for v in SCOPES.values() if v]) | ENTITY_WALKS | VIEW_WALKS | SERDE_WALKS | {
        'free_components', 'try_free_components', 'clone_components', 'clone_from_components', 'component_eq', 'par_view', 'debug_components', 'extract_component_pointers',
        'debug_identifier', 'create_archetype_identifier', 'claims', 'indices', 'assert_no_duplicates', 'filter', 'canonical'}
    return tag not in known


def run_property(pid, tier, seed, repo=None):
    t0 = time.time()
    global EVIDENCE_DIR
    if repo is not None and repo != '/repo':
        # scratch copies (self-tests against seeded changes) never touch the committed evidence
        EVIDENCE_DIR = os.path.join(VERIF, '.cache', 'evidence-scratch')
    os.makedirs(os.path.join(EVIDENCE_DIR, 'replay'), exist_ok=True)
    ctx = engine.Ctx(repo, tier)
    desc = PROPS.get(pid)
    if desc is None:
        print('unknown or unclaimed property', pid)
        return 2
    results = engine.run_rules(ctx, pid, tier)
    from . import witness
    wres = witness.run_families(ctx, pid, tier, seed)
    known = [k for k in engine.load_known() if k.get('status') == 'known']
    known_keys = {k['key']: k for k in known}
    violations = []
    instances = 0
    distinct = set()
    samples = []
    per_rule = []
    errors = []
    for ru, cfg, res in results:
        if isinstance(res, Exception):
            errors.append({'rule': ru.id, 'config': cfg, 'error': repr(res)})
            violations.append(engine.Violation(ru.id, 'check-error/%s' % cfg, '-', 'rule crashed: %r' % (res,)))
            continue
        total = len(res.instances)
        tags = getattr(res, 'inst_tags', [None] * total)
        kept = [i for i, tg in zip(res.instances, tags) if in_scope(pid, tg)]
        n = len(kept)
        instances += n
        for i in kept:
            distinct.add((ru.id, i))
        if kept:
            samples.append('%s[%s]: %s' % (ru.id, cfg, kept[0]))
        vs = [v for v in res.violations if in_scope(pid, v.tag)]
        per_rule.append({'rule': ru.id, 'config': cfg, 'instances': n, 'instances_unscoped': total, 'floor': ru.floor_for(cfg), 'violations': len(vs), 'doc': ru.doc})
        if total < ru.floor_for(cfg):
            violations.append(engine.Violation(ru.id, 'below-floor/%s' % cfg, '-',
                                               'rule examined %d instances, fewer than the %d confirmed by hand: the structure the clause relies on is gone or unrecognisable' % (total, ru.floor_for(cfg))))
        violations.extend(vs)
    programs = 0
    exhaustive = []
    for fam, fr in wres:
        programs += fr['programs']
        instances += fr['programs']
        for k in fr['keys']:
            distinct.add((fam, k))
        samples.extend(fr['samples'][:2])
        per_rule.append({'rule': fam, 'config': 'witness', 'instances': fr['programs'], 'floor': fr['floor'], 'violations': len(fr['violations']), 'doc': fr['doc'], 'exhaustive': fr.get('exhaustive')})
        violations.extend(fr['violations'])
        exhaustive.append(bool(fr.get('exhaustive')))
    uniq = {}
    for v in violations:
        uniq.setdefault(v.key, v)
    new = []
    nknown = 0
    for key, v in sorted(uniq.items()):
        if key in known_keys:
            nknown += 1
            print('KNOWN-FINDING: property=%s %s — %s' % (pid, key, known_keys[key].get('what', v.msg)))
        else:
            new.append(v)
    for n, v in enumerate(new):
        rp = os.path.join(EVIDENCE_DIR, 'replay', '%s-%d.json' % (pid, n))
        with open(rp, 'w') as f:
            json.dump({'property': pid, 'tier': tier, **v.to_json()}, f, indent=1)
        print('%s: [%s] %s' % (v.where, v.rule, v.msg))
        print('VIOLATION property=%s replay=%s' % (pid, rp))
    wall = time.time() - t0
    cov = {
        'evaluations': instances,
        'distinct_nontrivial': len(distinct),
        'rule': 'evaluations = constructs (walk functions, call sites, table cells, user-code sites, witness programs) enumerated from the resolved program by the rules serving this property; distinct = distinct (rule, instance) pairs; an instance is counted only after it matched the shape the rule reasons about (non-trivial by construction); each rule fails closed below its hand-counted floor',
        'samples': samples[:14] or ['(none)'],
        'explanation': desc['explanation'] + ' NOT decided: ' + desc['not_decided'] + '.',
        'programs': programs,
        'rules': per_rule,
        'known_findings_matched': nknown,
        'extraction': ctx.extract_info,
        'errors': errors,
    }
    if wres:
        cov['exhaustive'] = all(exhaustive)
    ev = {
        'property_id': pid, 'tier': tier, 'seed': seed, 'level': desc['level'],
        'coverage': cov, 'assumptions': desc['assumptions'], 'wall_s': round(wall, 2), 'violations': len(new),
    }
    with open(evidence_path(pid), 'w') as f:
        json.dump(ev, f, indent=1)
    print('%s %s: %d rule runs, %d instances, %d witness programs, %d new violations, %d known (%.1fs)' % (
        pid, tier, len(results), instances, programs, len(new), nknown, wall))
    return 1 if new else 0
