"""S rules: run-time structure of the schedule (stage.rs / stages.rs / World::run_schedule)."""
from .engine import rule, Result
from .mir import *
from . import pathsem

STAGE_T = 'system::schedule::stage::Stage'
STAGES_T = 'system::schedule::stages::Stages'
TASK_T = 'system::schedule::task::sealed::Task'


def stage_cons_impl(prog, trait=STAGE_T):
    out = []
    for imp in prog.facts['impls']:
        if imp['trait'] and imp['trait']['path'] == trait and imp['self'].get('k') == 'tuple' and len(imp['self']['e']) == 2:
            out.append(imp)
    return out


def method(prog, imp, name):
    for f in prog.impl_methods(imp):
        if f.name == name:
            return f
    return None


def closure_of(prog, body, op):
    """The closure Fn whose value is operand op (an Aggregate(Closure) with a unique definition)."""
    l = op_local(op)
    if l is None:
        return None, None
    d = single_def(body, l)
    if d and d[0] == 'assign' and d[3]['rv']['k'] == 'agg' and d[3]['rv']['agg'] == 'closure':
        return prog.fns.get(d[3]['rv']['dp']), d[3]['rv']
    return None, None


def calls_named(fn, pred):
    return [(b, t) for b, t in fn.body.calls(pred)]


def is_task_run(c):
    return c.get('trait') == TASK_T and c['name'] == 'run'


def is_join(c):
    return c['path'] == 'rayon::join' or c['path'].endswith('rayon_core::join::join') or c['path'] == 'rayon_core::join'


def flags_param(body):
    """Local of the parameter that carries the per-task flags of a Stage method: by its name in the reference tree,
    else the one parameter typed `(bool, ..)` (possibly behind `&mut`)."""
    if body.arg_local('has_run'):
        return body.arg_local('has_run')
    c = []
    for i in range(2, body.argc + 1):
        t = body.local_ty(i)
        if t.get('k') == 'ref':
            t = t.get('t') or {}
        if t.get('k') == 'tuple' and t.get('e') and t['e'][0].get('name') == 'bool':
            c.append(i)
    return c[0] if len(c) == 1 else None


def ran_value(prog, imp):
    """Which value of a task's flag means "this task already ran": the opposite of what the stage's constructor of
    initial flags (the zero-argument method returning `(const bool, <tail flags>)`) puts there. 1 on the reference
    tree (`has_run`); 0 if the flags are kept the other way round (`pending`)."""
    for g in prog.impl_methods(imp):
        if (g.d.get('inputs') or []) or g.kind != 'AssocFn':
            continue
        E = pathsem.analyse(prog, g)
        rets = [p for p in E.paths if p.ended == 'return']
        if len(rets) == 1 and not E.truncated:
            v = rets[0].ret
            if isinstance(v, tuple) and v[0] == 'agg' and v[1] == 'tuple' and len(v[4]) == 2:
                c0 = {pathsem.TRUE: 1, pathsem.FALSE: 0, ('c', 1): 1, ('c', 0): 0}.get(v[4][0])
                if c0 is not None:
                    return 1 - c0
    return 1


def stage_helper(prog):
    """-> predicate on Fn: the free helper functions of the Stage module. The stage rules read Stage::run* with
    these walked inline, so that what is decided does not depend on which side of the call a step is written."""
    mod = STAGE_T.rsplit('::', 1)[0] + '::'
    return lambda c: c.kind == 'Fn' and c.path.startswith(mod) and '::' not in c.path[len(mod):]


def helper_verdict(prog, p, e):
    """The yes/no a helper call gave on path p: a bool, `Ok`/`Err`, or the one bool carried in a returned tuple.
    e: call event or inlined call (State.entered). -> True | False | None"""
    v = e.get('ret')
    if v is None:
        return None
    def const(x):
        if x in (pathsem.TRUE, ('c', 1)):
            return True
        if x in (pathsem.FALSE, ('c', 0)):
            return False
        return None
    if const(v) is not None:
        return const(v)
    if isinstance(v, tuple) and v[0] == 'agg':
        if v[1] == 'core::result::Result':
            return v[2] == 'Ok'
        if v[1] == 'tuple':
            out = (e['callee'].d.get('output') if e.get('callee') is not None else None) or {}
            bs = [const(x) for k_, x in enumerate(v[4]) if const(x) is not None and (out.get('k') != 'tuple' or k_ >= len(out.get('e', [])) or out['e'][k_].get('name') == 'bool')]
            return bs[0] if len(bs) == 1 else None
        return None
    # an opaque call: what the path assumed about its result
    if p.lookup(v) is True or p.lookup(v) is False:
        return p.lookup(v)
    cal = prog.fns.get((e['f'].get('res') or e['f']).get('dp'))
    out = (cal.d.get('output') if cal is not None else None) or {}
    if is_adt(out, 'core::result::Result'):
        d = p.lookup(('discr', v))
        return None if d is None else d == 0
    if out.get('k') == 'tuple':
        ks = [k_ for k_, x in enumerate(out.get('e', [])) if x.get('name') == 'bool']
        if len(ks) == 1:
            t = p.lookup(('f', v, ks[0], 'tuple'))
            return t if t in (True, False) else None
    return None


def upvar_index_of(body, op):
    """If operand is (a copy/move/reborrow of) closure upvar `_1.k` / `(*_1).k` return k."""
    p = op_place(op)
    if p is None:
        return None
    a = normalize_access(access_of_place(body, p))
    if a.root == 1:
        fs = [s[1] for s in a.steps if isinstance(s, tuple) and s[0] == 'f']
        if fs:
            return fs[0]
    return None


@rule('S1', props=['C07', 'C08', 'C17', 'C12', 'C15'], floor=2, configs=('all',))
def s1_exactly_once(prog):
    """Stage::run for a cons cell: if the task already ran (has_run.0) it is not run again and the
    claim state is handed on unchanged; otherwise exactly one rayon::join runs the task exactly once
    next to a closure that records this task's component claims and resource claims and then runs the
    rest of the stage with those accumulated claims."""
    r = Result()
    imps = stage_cons_impl(prog)
    if len(imps) != 1:
        r.viol('S1', 'missing-stage-impl', '-', 'expected exactly one Stage impl for a cons cell, found %d' % len(imps))
        return r
    imp = imps[0]
    f = method(prog, imp, 'run')
    if f is None:
        r.viol('S1', 'missing-run', '-', 'Stage::run not found')
        return r
    key = 'Stage::run for (&mut T, U)'
    tail = imp['self']['e'][1]['name']
    head = imp['self']['e'][0]
    hT = head['t']['name'] if head.get('k') == 'ref' and head['t'].get('k') == 'param' else None
    is_helper = stage_helper(prog)
    E = pathsem.analyse(prog, f, inline=is_helper, max_paths=20000)
    rets = [p for p in E.paths if p.ended == 'return']
    rep = set()

    def once(rule, k, ln, msg):
        if k not in rep:
            rep.add(k)
            r.viol(rule, key + '/' + k, f.loc(ln), msg)
    if E.truncated or not rets:
        once('S1', 'not-analysable', None, 'path enumeration cut off')
        return r
    S = pathsem.strip_refs
    body = f.body
    P = {n: ('p', body.arg_local(n), n) for n in ('world', 'borrowed_archetypes', 'resource_claims', 'has_run', 'next_stage') if body.arg_local(n)}
    if 'has_run' not in P and flags_param(body):
        P['has_run'] = ('p', flags_param(body), body.local_name(flags_param(body)) or '')
    hr0, hr1 = ('f', P.get('has_run'), 0, 'tuple'), ('f', P.get('has_run'), 1, 'tuple')
    RAN = ran_value(prog, imp)      # the flag value that says "already ran" (the reverse of the initial flags)

    def is_tail_run(e):
        return e['f'].get('trait') == STAGE_T and e['name'] == 'run'
    n_skip = n_fork = 0
    for p in rets:
        tests = [v for a_, v in p.conds if S(a_) == hr0]
        joins = p.calls(ev_is_join)
        truns = p.calls(ev_is_task_run)
        tails = p.calls(is_tail_run)
        if not tests:
            once('S1', 'no-has-run-test', None, 'Stage::run does not branch on has_run.0: a task started early would run twice')
            continue
        if bool(tests[0]) == bool(RAN):
            n_skip += 1
            if joins or truns:
                once('S1', 'runs-again', (joins + truns)[0]['ln'], 'task is run (or forked) on the path where has_run.0 is true')
            if len(tails) != 1:
                once('S1', 'skip-path-tail', None, 'the already-ran path must call the rest of the stage exactly once (found %d)' % len(tails))
                continue
            t = tails[0]
            want = [None, P.get('world'), P.get('borrowed_archetypes'), P.get('resource_claims'), hr1, None]
            for i, w in enumerate(want):
                if w and (i >= len(t['vals']) or S(t['vals'][i]) != w):
                    once('S1', 'skip-path-args/%d' % i, t['ln'], 'already-ran path must pass %s unchanged to the rest of the stage (got %s)' % (pathsem.tstr(w), pathsem.tstr(t['vals'][i]) if i < len(t['vals']) else None))
            continue
        n_fork += 1
        if len(joins) != 1:
            once('S1', 'join-skippable' if not joins else 'join-count', None, 'a not-yet-run path %s' % ('returns without forking the task against the rest of its stage (the task is serialised or not run)' if not joins else 'forks %d times' % len(joins)))
            continue
        j = joins[0]
        marks = {m['k']: m['i'] for m in p.events if m['k'] in ('join_begin', 'join_mid', 'join_end') and m.get('call') == j['i']}
        if set(marks) != {'join_begin', 'join_mid', 'join_end'}:
            once('S1', 'join-args', j['ln'], 'cannot see both sides of the rayon::join')
            continue
        side = lambda e: 'a' if marks['join_begin'] < e['i'] < marks['join_mid'] else ('b' if marks['join_mid'] < e['i'] < marks['join_end'] else None)
        if len(truns) != 1 or side(truns[0]) is None:
            once('S1', 'task-run-count', j['ln'], 'the fork must run the task exactly once, as one side of the join (found %d Task::run calls)' % len(truns))
            continue
        ts = side(truns[0])
        rs = 'b' if ts == 'a' else 'a'
        extra = [e for e in p.calls() if side(e) == ts and e is not truns[0] and e['path'] not in DEREF_CALLS and e['name'] not in ('deref', 'deref_mut', 'get')]
        if extra:
            once('S1', 'task-closure-extra', extra[0]['ln'], 'the task side of the fork does more than run the task (%s)' % extra[0]['name'])
        rtails = [e for e in tails if side(e) == rs]
        if len(rtails) != 1 or len(tails) != 1:
            once('S1', 'rest-tail', None, 'the rest of the stage must be continued exactly once, on the other side of the fork (found %d)' % len(tails))
            continue
        t = rtails[0]
        ga = [a_ for a_ in t['f'].get('args', []) if a_.get('k') != 'region']
        if not (ga and is_param(ga[0], tail)):
            once('S1', 'rest-tail-self', t['ln'], 'the rest of the stage must be the tail stage U')
        def takes_map(e):
            return any(S(v) == P.get('borrowed_archetypes') for v in e['vals'])
        acc = [e for e in p.calls_any(lambda e: e['name'] == 'query_archetype_identifiers_unchecked' or (e.get('callee') is not None and is_helper(e['callee']) and takes_map(e))) if e['i'] < t['i']]
        if len(acc) != 1:
            once('S4', 'claims-not-recorded', None, 'the running task\'s archetype claims are not recorded (on every path) before the rest of the stage / the add-ons are started')
        else:
            g = [a_ for a_ in acc[0]['f'].get('args', []) if a_.get('k') != 'region']
            if not any(is_param(x, hT) for x in g):
                once('S4', 'claims-of-wrong-task', acc[0]['ln'], 'claims are recorded for a different task type than the one being run')
            m_ = S(acc[0]['vals'][1]) if len(acc[0]['vals']) > 1 else None
            # recorded through `&mut map` (the same map goes on) or by value (the returned map goes on)
            cal = prog.fns.get((acc[0]['f'].get('res') or acc[0]['f']).get('dp'))
            out_ = (cal.d.get('output') if cal is not None else None) or {}
            by_value = out_.get('k') == 'adt' and 'HashMap' in out_.get('path', '')
            fwd = [S(acc[0]['ret'])] if by_value else [m_]
            if acc[0].get('inlined') and acc[0].get('leave') is not None and not by_value:
                outs = p.events[acc[0]['leave']].get('outs') or ()
                fwd = [S(o) for a_, o in zip(acc[0]['vals'], outs) if S(a_) == P.get('borrowed_archetypes')] or fwd
            if m_ != P.get('borrowed_archetypes') or len(t['vals']) < 3 or S(t['vals'][2]) not in fwd:
                once('S4', 'claims-map-not-forwarded', t['ln'], 'the map handed to the rest of the stage is not the one the task\'s claims were recorded in')
        mrg = [e for e in p.calls(lambda e: e['name'] in ('merge_unchecked', 'try_merge') and 'claim' in e['path']) if e['i'] < t['i']]
        good = None
        for e in mrg:
            srcs = set()
            for v in e['vals']:
                v = S(v)
                if v == P.get('resource_claims'):
                    srcs.add('incoming')
                if isinstance(v, tuple) and v[0] == 'call' and v[1].endswith('::claims'):
                    srcs.add('task')
            if srcs == {'incoming', 'task'}:
                good = e
        if not mrg:
            once('S3', 'resource-claims-not-recorded', None, 'the running task\'s resource claims are not merged into the stage\'s resource claims on every path before the rest of the stage / the add-ons are started')
        elif good is None:
            once('S3', 'resource-merge-operands', mrg[0]['ln'], 'resource claim merge must combine the incoming stage claims with this task\'s resource claims')
        else:
            merged = good['ret'] if good['name'] == 'merge_unchecked' else ('f', ('down', good['ret'], 'Some', 1), 0, 'core::option::Option')
            if len(t['vals']) < 4 or S(t['vals'][3]) != merged:
                once('S3', 'resource-claims-not-forwarded', t['ln'], 'the rest of the stage does not receive the merged resource claims')
        if len(t['vals']) > 4 and S(t['vals'][4]) != hr1:
            once('S1', 'has-run-tail', t['ln'], 'rest of the stage must receive has_run.1 (got %s)' % pathsem.tstr(t['vals'][4]))
    r.inst(key + ': %d already-ran path(s)' % n_skip)
    r.inst(key + ': %d forking path(s)' % n_fork)
    if not n_skip or not n_fork:
        once('S1', 'no-has-run-test', None, 'expected both an already-ran path and a forking path (found %d / %d)' % (n_skip, n_fork))
    return r


def ev_is_task_run(e):
    return e['f'].get('trait') == TASK_T and e['name'] == 'run'


def ev_is_join(e):
    return is_join({'path': e['path']})


@rule('S2', props=['C07', 'C08', 'C12', 'C15'], floor=3, configs=('all',))
def s2_flag_iff_ran(prog):
    """run_add_ons, decided per CFG path: the first component of the returned tuple is `true` exactly on
    the paths that run the task (inside a rayon::join, exactly once), `false` on all others; every path
    offers the remaining tasks to the tail's run_add_ons exactly once; admission (S3): a path that runs
    the task has established BOTH a successful try_merge of this task's resource claims with the incoming
    ones and a `true` from query_archetype_identifiers on the incoming claim map, and its tail call
    receives the merged resource claims and that same claim map."""
    r = Result()
    imps = stage_cons_impl(prog)
    if len(imps) != 1:
        r.viol('S2', 'missing-stage-impl', '-', 'Stage cons impl not found')
        return r
    imp = imps[0]
    f = method(prog, imp, 'run_add_ons')
    key = 'Stage::run_add_ons for (&mut T, U)'
    is_helper = stage_helper(prog)
    E = pathsem.analyse(prog, f, inline=is_helper, max_paths=20000)
    rets = [p for p in E.paths if p.ended == 'return']
    if E.truncated or not rets:
        r.viol('S2', key + '/not-analysable', f.loc(), 'path enumeration cut off')
        return r
    done = set()

    def once(rule, k, ln, msg):
        if k not in done:
            done.add(k)
            r.viol(rule, key + '/' + k, f.loc(ln), msg)
    body = f.body
    p_map = body.arg_local('borrowed_archetypes')
    p_res = body.arg_local('resource_claims')
    p_out = None
    for i in range(1, body.argc + 1):
        t_ = body.local_ty(i)
        if t_.get('k') == 'ref' and t_.get('mut') and i not in (1,) and ((body.local_name(i) or '').endswith('has_run') or i == flags_param(body)):
            p_out = i
    RAN = ran_value(prog, imp)
    c_ran, c_not = ('c', RAN), ('c', 1 - RAN)
    n_run = 0
    for p in rets:
        joins = p.calls(ev_is_join)
        runs = p.calls(ev_is_task_run)
        tails = p.calls(lambda e: e['f'].get('trait') == STAGE_T and e['name'] == 'run_add_ons')
        ret = p.ret
        flag = ret[4][0] if isinstance(ret, tuple) and ret[0] == 'agg' and ret[1] == 'tuple' and len(ret[4]) == 2 else None
        if flag is None and p_out is not None:
            # the flags are written through a `&mut HasRun` out-parameter: this task's flag is field 0 of it
            own = ('f', ('d', ('p', p_out, body.local_name(p_out) or '')), 0, 'tuple')
            sts = [e for e in p.events if e['k'] == 'store' and pathsem.strip_refs(e['loc']) == own]
            if sts:
                flag = sts[-1]['value']
                if flag == pathsem.TRUE:
                    flag = ('c', 1)
                elif flag == pathsem.FALSE:
                    flag = ('c', 0)
        if len(joins) > 1:
            once('S2', 'join-count', joins[1]['ln'], 'run_add_ons must fork at most once per path')
        if len(runs) > 1 or (runs and not joins):
            once('S2', 'task-run-count', runs[0]['ln'], 'the fork must run the task exactly once (and only as one side of the join)')
        if joins and not runs:
            once('S2', 'task-run-count', joins[0]['ln'], 'the fork must run the task exactly once')
        if flag not in (('c', 0), ('c', 1)):
            once('S2', 'flag-missing', None, 'cannot see the has-run flag returned by a path (%s)' % pathsem.tstr(ret))
        elif runs and flag == c_not:
            once('S2', 'flag-false-on-run', runs[0]['ln'], 'a path that ran the task reports it as not run: the task would run twice')
        elif not runs and flag == c_ran:
            once('S2', 'flag-true-without-run', None, 'a path that does not run the task reports it as run: the task would be skipped in its own stage')
        if len(tails) != 1:
            once('S2', 'tail-skippable' if not tails else 'rest-tail', None, 'every path must offer the remaining tasks of the next stage to the tail\'s run_add_ons exactly once (found %d)' % len(tails))
        if not runs:
            continue
        n_run += 1
        r.inst(key + ': path running the task (join at line %s)' % (joins[0]['ln'] if joins else '?'))
        # ---- S3 admission on this path
        tms = [e for e in p.calls(lambda e: e['name'] == 'try_merge' and 'claim' in e['path']) if p.lookup(('discr', e['ret'])) == 1]
        good_tm = None
        for e in tms:
            srcs = set()
            for v in e['vals']:
                if isinstance(v, tuple) and v[0] == 'call' and v[1].endswith('::claims'):
                    srcs.add('task')
                if pathsem.strip_refs(v) == ('p', p_res, 'resource_claims'):
                    srcs.add('incoming')
            if srcs == {'incoming', 'task'}:
                good_tm = e
        if not p.calls(lambda e: e['name'] == 'try_merge' and 'claim' in e['path']):
            once('S3', 'no-resource-check', None, 'add-on admission does not check resource claims with try_merge')
        elif not tms:
            once('S3', 'fork-not-guarded-by-resources', joins[0]['ln'] if joins else None, 'the early start is not guarded by a successful merge of resource claims: a task could start while a conflicting resource is in use')
        elif good_tm is None:
            once('S3', 'resource-check-operands', tms[0]['ln'], 'resource admission must merge the running claims with this task\'s resource claims')
        # the archetype admission: the helper of this module that is handed the claim map (read inline or, if it cannot
        # be, as a call whose result the path tested)
        def takes_map(e):
            return any(pathsem.strip_refs(v) == ('p', p_map, 'borrowed_archetypes') for v in e['vals'])
        qas = [e for e in p.calls_any(lambda e: e['name'] == 'query_archetype_identifiers' or (e.get('callee') is not None and is_helper(e['callee']) and takes_map(e)))]
        good_q = [e for e in qas if helper_verdict(prog, p, e) is True and takes_map(e)]
        if not qas:
            once('S3', 'no-archetype-check', None, 'add-on admission does not check archetype claims')
        elif not good_q:
            once('S3', 'fork-not-guarded-by-archetypes', joins[0]['ln'] if joins else None, 'the early start is not guarded by compatible archetype claims')
        if good_tm is not None and joins and not (joins[0]['i'] > good_tm['i']):
            once('S3', 'resource-check-bypassed', good_tm['ln'], 'the task is forked before the resource claims were merged')
        if good_q and joins and not (joins[0]['i'] > good_q[0]['i']):
            once('S3', 'fork-not-guarded-by-archetypes', joins[0]['ln'], 'the task is forked before the archetype claims were checked')
        if tails and good_tm is not None:
            merged = ('f', ('down', good_tm['ret'], 'Some', 1), 0, 'core::option::Option')
            if not any(pathsem.strip_refs(v) == merged for v in tails[0]['vals']):
                once('S3', 'merged-resources-not-forwarded', tails[0]['ln'], 'the forked path does not carry the merged resource claims: later add-ons would not see this task\'s resources')
        upd = [('p', p_map, 'borrowed_archetypes')]
        for e in good_q:
            v_ = e['ret']
            if isinstance(v_, tuple) and v_[0] == 'agg' and v_[1] == 'core::result::Result' and v_[2] == 'Ok':
                upd = [pathsem.strip_refs(v_[4][0])]                                           # the map the admission returned
            elif not e.get('inlined') and p.lookup(v_) is not True and p.lookup(('discr', v_)) == 0:
                upd = [('f', ('down', v_, 'Ok', 0), 0, 'core::result::Result')]
            if e.get('inlined') and e.get('leave') is not None:
                # what the admission left in the caller's map (written through the `&mut`)
                outs = p.events[e['leave']].get('outs') or ()
                upd += [pathsem.strip_refs(o) for a_, o in zip(e['vals'], outs) if pathsem.strip_refs(a_) == ('p', p_map, 'borrowed_archetypes')]
        if tails and not any(pathsem.strip_refs(v) in upd for v in tails[0]['vals']):
            once('S3', 'updated-map-not-forwarded', tails[0]['ln'], 'the forked path does not carry the updated claim map')
    r.inst(key + ': %d returning paths' % len(rets))
    r.inst(key + ': flags consistent on %d paths' % len(rets))
    if not n_run:
        once('S2', 'join-count', None, 'no path of run_add_ons runs the task early')
    return r


INSERTERS = ('insert', 'insert_unique_unchecked', 'insert_with_hasher', 'insert_hashed_nocheck', 'insert_entry', 'or_insert', 'or_insert_with', 'try_insert', 'extend',
             'or_default', 'or_insert_with_key', 'and_modify', 'replace_entry', 'replace_entry_with', 'and_replace_entry_with')


def _is_claim_map_call(e):
    a = e['f'].get('args', [])
    if 'hashbrown' in e['path']:
        return any(is_adt(x, 'archetype::identifier::IdentifierRef') for x in a)
    # trait methods (Extend::extend, FromIterator, IndexMut ...) whose Self is a claim map
    return bool(a) and a[0].get('k') == 'adt' and a[0]['path'].startswith('hashbrown::') and ty_mentions(a[0], lambda n: is_adt(n, 'archetype::identifier::IdentifierRef'))


def _merge_of(p, v):
    """If value term v is the result of merging claims: -> (kind, operands) else None."""
    v = pathsem.strip_refs(v)
    # payload of try_merge(..) known to be Some on this path
    if isinstance(v, tuple) and v[0] == 'f' and isinstance(v[1], tuple) and v[1][0] == 'down' and v[1][2] == 'Some':
        c = v[1][1]
        if isinstance(c, tuple) and c[0] == 'call' and c[1].endswith('::try_merge'):
            return 'try_merge', c[2]
    if isinstance(v, tuple) and v[0] == 'call' and v[1].endswith('::merge_unchecked'):
        return 'merge_unchecked', v[2]
    if isinstance(v, tuple) and v[0] == 'call' and v[1].endswith('::try_merge'):
        return None
    return None


def claim_map_writes(p):
    """All writes into claim maps on one path, classified: 'vacant' | 'merged' (with the merge kind) |
    'overwrite' (occupied entry replaced by something not merged from its previous value) | 'blind'."""
    out = []
    S = pathsem.strip_refs

    def refers(operands, old):
        old = S(old)
        return any(S(o) == old or pathsem.mentions(o, lambda t: t == old) for o in operands)
    for e in p.events:
        if e['k'] == 'call' and _is_claim_map_call(e) and e['name'] in INSERTERS:
            fp = e['path']
            w = {'ln': e['ln'], 'name': e['name'], 'where': fp.split('hashbrown::')[-1].split('::<')[0] + '::' + e['name'], 'i': e['i'], 'fn': e['fn'], 'map': None, 'merge': None}
            if 'VacantEntry' in fp and e['name'] == 'insert':
                w['kind'] = 'vacant'
                ent = S(e['vals'][0])
                w['map'] = ent
            elif 'OccupiedEntry' in fp and e['name'] == 'insert':
                ent = S(e['vals'][0])
                m = _merge_of(p, e['args'][1])
                olds = [g['ret'] for g in p.calls(lambda g: 'OccupiedEntry' in g['path'] and g['name'] in ('get', 'get_mut') and S(g['vals'][0]) == ent and g['i'] < e['i'])]
                if m and any(refers(m[1], o) for o in olds):
                    w['kind'], w['merge'] = 'merged', m[0]
                else:
                    w['kind'] = 'overwrite'
            elif fp.startswith('hashbrown::HashMap') and e['name'] == 'insert' and len(e['args']) >= 3:
                mp, key = S(e['vals'][0]), S(e['vals'][1])
                w['map'] = mp
                looks = [g for g in p.calls(lambda g: g['path'].startswith('hashbrown::HashMap') and g['name'] in ('get', 'get_mut', 'contains_key', 'get_key_value') and g['i'] < e['i']
                                            and S(g['vals'][0]) == mp and S(g['vals'][1]) == key)]
                # no other write to this map between the lookup and the insert
                kind = 'blind'
                if looks:
                    g = looks[-1]
                    if g['name'] == 'contains_key':
                        tv = p.lookup(g['ret'])
                        if tv is False:
                            kind = 'vacant'
                        elif tv is True:
                            kind = 'overwrite'
                    else:
                        d = p.lookup(('discr', g['ret']))
                        if d == 0:
                            kind = 'vacant'
                        elif d == 1:
                            old = ('f', ('down', g['ret'], 'Some', 1), 0, 'core::option::Option')
                            m = _merge_of(p, e['args'][2])
                            if m and refers(m[1], old):
                                kind, w['merge'] = 'merged', m[0]
                            else:
                                kind = 'overwrite'
                w['kind'] = kind
            else:
                w['kind'] = 'blind'
            out.append(w)
        elif e['k'] == 'store':
            # *existing = merged, existing = payload of HashMap::get_mut / OccupiedEntry::get_mut / into_mut
            root = S(e['loc'])
            src = None
            if isinstance(root, tuple) and root[0] == 'f' and isinstance(root[1], tuple) and root[1][0] == 'down' and root[1][2] == 'Some':
                c = root[1][1]
                if isinstance(c, tuple) and c[0] == 'call' and c[1].startswith('hashbrown::HashMap') and c[1].endswith('::get_mut'):
                    src = root
            if isinstance(root, tuple) and root[0] == 'call' and 'OccupiedEntry' in root[1] and root[1].rsplit('::', 1)[-1] in ('get_mut', 'into_mut'):
                src = root
            if src is None:
                continue
            # only claim maps
            ce = [g for g in p.calls(lambda g: g.get('ret') is not None and pathsem.mentions(src, lambda t: t == g['ret']) and 'hashbrown' in g['path'])]
            if not any(_is_claim_map_call(g) for g in ce):
                continue
            m = _merge_of(p, e['value'])
            w = {'ln': e['ln'], 'name': 'store', 'where': 'HashMap::get_mut/store', 'i': e['i'], 'fn': None, 'map': None, 'merge': None}
            if m and refers(m[1], src):
                w['kind'], w['merge'] = 'merged', m[0]
            else:
                w['kind'] = 'overwrite'
            out.append(w)
    return out


@rule('S3q', props=['C08', 'C07', 'C12'], floor=1, configs=('all',))
def s3_query_archetype_identifiers(prog):
    """query_archetype_identifiers, per CFG path: every path on which a try_merge of claims failed returns
    false; every occupied entry is overwritten only with the successful try_merge of its previous claims
    (never merge_unchecked, never blindly); a path returning true has gone through the end of the claims
    iteration and commits a map to the caller; a path returning false leaves the caller's map untouched."""
    r = Result()
    fs = [f for f in prog.fns.values() if f.path == 'system::schedule::stage::query_archetype_identifiers']
    if len(fs) != 1:
        r.viol('S3q', 'missing', '-', 'query_archetype_identifiers not found')
        return r
    f = fs[0]
    key = 'query_archetype_identifiers'
    r.inst(key)
    E = pathsem.analyse(prog, f, max_paths=20000)
    rets = [p for p in E.paths if p.ended == 'return']
    if E.truncated or not rets:
        r.viol('S3q', key + '/not-analysable', f.loc(), 'path enumeration cut off')
        return r
    done = set()

    def once(k, ln, msg):
        if k not in done:
            done.add(k)
            r.viol('S3q', key + '/' + k, f.loc(ln), msg)
    pm = f.body.arg_local('borrowed_archetypes')
    param = ('p', pm, 'borrowed_archetypes')
    n_tm = 0
    n_true = n_false = 0
    for p in E.paths:
        if p.ended not in ('return', 'cutoff'):
            continue
        tms = p.calls(lambda e: e['name'] == 'try_merge')
        n_tm += len(tms)
        failed = [e for e in tms if p.lookup(('discr', e['ret'])) == 0 or 1 in p.excluded(('discr', e['ret']))]
        unknown = [e for e in tms if p.lookup(('discr', e['ret'])) is None and not p.excluded(('discr', e['ret']))]
        ws = claim_map_writes(p)
        for w in ws:
            if w['kind'] == 'merged' and w['merge'] != 'try_merge':
                once('no-try-merge', w['ln'], 'occupied entries must be merged with try_merge (conflict detection), not %s' % w['merge'])
            if w['kind'] in ('overwrite', 'blind'):
                once('no-try-merge', w['ln'], 'a claim entry is written without a checked merge of the claims already recorded for that archetype (%s)' % w['where'])
        if p.ended != 'return':
            continue
        direct = [e for e in p.events if (e['k'] == 'call' and _is_claim_map_call(e) and e['name'] in INSERTERS + ('entry', 'get_mut', 'remove', 'clear', 'retain')
                                            and pathsem.strip_refs(e['vals'][0]) in (param, ('d', param)))]
        commits = [e for e in p.events if e['k'] == 'store' and e['loc'] == ('d', param)]
        # the verdict is a bool next to a `&mut` map, or a Result carrying the map to go on with: Ok(updated) / Err(original)
        verdict = p.ret
        if isinstance(verdict, tuple) and verdict[0] == 'agg' and verdict[1] == 'core::result::Result' and len(verdict[4]) == 1:
            payload = pathsem.strip_refs(verdict[4][0])
            if verdict[2] == 'Ok':
                verdict = pathsem.TRUE
                if payload == param or pathsem.mentions(payload, lambda t: t == param):
                    commits = commits or [{'ln': None}]
            else:
                verdict = pathsem.FALSE
                if payload != param:
                    once('commit-on-conflict', None, 'on a conflict the caller must get its own claim map back unchanged (got %s)' % pathsem.tstr(payload)[:60])
        if isinstance(verdict, tuple) and verdict[0] == 'agg' and verdict[1] == 'tuple':
            # the yes/no travels next to something else the caller gets back (e.g. merged resource claims)
            hv = helper_verdict(prog, p, {'ret': verdict, 'callee': f})
            verdict = pathsem.TRUE if hv is True else pathsem.FALSE if hv is False else verdict
        if verdict == pathsem.TRUE:
            n_true += 1
            if failed:
                once('conflict-not-refused', failed[0]['ln'], 'a failed try_merge (conflicting claims) does not make the function return false')
            if unknown:
                once('result-unchecked', unknown[0]['ln'], 'result of try_merge is not inspected')
            ended = [a for a, v in p.conds if isinstance(a, tuple) and ((a[0] == 'next' and v == 0) or (a[0] == 'nonempty') or (a[0] == 'discr' and isinstance(a[1], tuple) and a[1][0] == 'call' and a[1][1].endswith('::next') and v == 0))]
            if not ended:
                once('true-before-all-checked', None, 'returns true before every claimed archetype has been checked')
            if not commits and not direct:
                once('no-commit', None, 'a path returns true without recording the task\'s claims in the caller\'s map')
        elif verdict == pathsem.FALSE:
            n_false += 1
            if commits or direct:
                once('commit-on-conflict', (commits or direct)[0]['ln'], 'the caller\'s claim map is updated on a path that found a conflict')
            if not failed:
                once('false-without-conflict', None, 'returns false although no claim conflict was found on the path')
        else:
            once('result-shape', None, 'cannot see the boolean returned by a path (%s)' % pathsem.tstr(p.ret))
    if not n_tm:
        once('no-try-merge', None, 'occupied entries must be merged with try_merge (conflict detection)')
    if not n_true or not n_false:
        once('result-unchecked', None, 'expected paths returning true and paths returning false (found %d / %d)' % (n_true, n_false))
    return r


@rule('S4', props=['C08', 'C07'], floor=2, configs=('all',))
def s4_claims_accumulate(prog):
    """Every write into a claim map (HashMap keyed by archetype IdentifierRef, valued by claims) in the
    schedule module, on every CFG path, either fills an entry known to be vacant (VacantEntry::insert, or
    insert after a get/get_mut/contains_key miss on the same key) or stores a value merged from the
    occupied entry's previous value; blind inserts would drop or duplicate the claims of a task that is
    still running."""
    r = Result()
    for f in prog.fns.values():
        if f.kind == 'Closure' or not (f.path.startswith('system::schedule::') or '::system::schedule::' in f.path):
            continue
        body = f.body
        def is_claim_map_ty(t):
            return ty_mentions(t, lambda n: n.get('k') == 'adt' and n['path'].startswith('hashbrown::') and ty_mentions(n, lambda m: is_adt(m, 'archetype::identifier::IdentifierRef')))
        muts = [l for l in body.locals if is_claim_map_ty(l['ty']) and (l['ty'].get('k') != 'ref' or l['ty'].get('mut'))]
        if not any(is_claim_map_ty(l['ty']) and l['ty'].get('k') == 'ref' and l['ty'].get('mut') for l in body.locals[1:body.argc + 1]) \
                and not any(True for g in [f] + f.closures() for _ in g.body.calls(lambda c: 'hashbrown' in c['path'] and c['name'] in INSERTERS + ('get_mut',)
                                                                                   and any(is_adt(x, 'archetype::identifier::IdentifierRef') for x in c['args']))):
            continue
        E = pathsem.analyse(prog, f, max_paths=20000)
        if E.truncated:
            r.viol('S4', f.name + '/not-analysable', f.loc(), 'path enumeration cut off')
            continue
        seen = set()
        for p in E.paths:
            for w in claim_map_writes(p):
                k = ('fn', f.path)
                if k not in seen:
                    seen.add(k)
                    r.inst('%s: claim map writes on every path' % f.path.split('<')[0][:60])
                key = '%s/%s' % (f.name, w['where'])
                if w['kind'] == 'overwrite' and ('ow', key) not in seen:
                    seen.add(('ow', key))
                    r.viol('S4', key + '/overwrite-without-merge', f.loc(w['ln']), 'occupied claim entry overwritten with a value not merged from its previous claims: the running task\'s claims are lost')
                if w['kind'] == 'blind' and ('bl', key) not in seen:
                    seen.add(('bl', key))
                    r.viol('S4', key + '/blind-insert', f.loc(w['ln']),
                           'claim map insertion that neither targets a vacant entry nor merges with the existing claims (%s): claims of a task still running are dropped or shadowed by a duplicate key' % w['name'])
    return r


@rule('S5', props=['C07', 'C12'], floor=2, configs=('all',))
def s5_stage_sequencing(prog):
    """Stages::run for (T, U): the stage runs first and the has_run flags it returns are what the next
    stages receive; World::run_schedule starts from new_has_run(); stages never run concurrently."""
    r = Result()
    imps = stage_cons_impl(prog, STAGES_T)
    if len(imps) != 1:
        r.viol('S5', 'missing-stages-impl', '-', 'Stages cons impl not found (%d)' % len(imps))
        return r
    imp = imps[0]
    f = method(prog, imp, 'run')
    key = 'Stages::run for (T, U)'
    E = pathsem.analyse(prog, f)
    rets = [p for p in E.paths if p.ended == 'return']
    S = pathsem.strip_refs
    rep = set()

    def once(k, ln, msg, fn=f):
        if k not in rep:
            rep.add(k)
            r.viol('S5', k, fn.loc(ln), msg)
    if E.truncated or not rets:
        once(key + '/shape', None, 'Stages::run not analysable')
    hr = ('p', f.body.arg_local('has_run'), 'has_run') if f.body.arg_local('has_run') else None
    if hr is None and f.body.argc == 3:
        hr = ('p', 3, f.body.local_name(3) or '')      # (self, world, flags)
    for p in rets:
        st = p.calls(lambda e: e['f'].get('trait') == STAGE_T and e['name'] == 'run')
        nx = p.calls(lambda e: e['f'].get('trait') == STAGES_T and e['name'] == 'run')
        if len(st) != 1 or len(nx) != 1:
            once(key + '/shape', None, 'expected one Stage::run followed by one Stages::run of the tail on every path (found %d / %d)' % (len(st), len(nx)))
            continue
        if not st[0]['i'] < nx[0]['i']:
            once(key + '/order', nx[0]['ln'], 'next stages may start before the current stage finished')
        if len(nx[0]['vals']) < 3 or S(nx[0]['vals'][2]) != st[0]['ret']:
            once(key + '/has-run-not-forwarded', nx[0]['ln'], 'the next stage does not receive the flags of tasks already started as add-ons (they would run twice)')
        if len(st[0]['vals']) < 5 or S(st[0]['vals'][4]) != hr:
            once(key + '/stage-has-run', st[0]['ln'], 'the stage must receive the has_run flags handed to Stages::run (got %s)' % (pathsem.tstr(st[0]['vals'][4]) if len(st[0]['vals']) > 4 else None))
        for e in p.calls(ev_is_join):
            once(key + '/stages-forked', e['ln'], 'stages are forked: they must run strictly one after another')
        # the stage starts with an empty claim map and empty resource claims
        for i_, what in ((2, 'claim map'), (3, 'resource claims')):
            v = S(st[0]['vals'][i_]) if len(st[0]['vals']) > i_ else None
            def fresh(v, d=0):
                # Default::default() / new() / with_hasher(<fresh hasher>) / with_capacity_and_hasher(0, <fresh hasher>)
                return isinstance(v, tuple) and d < 4 and ((v[0] == 'c' and v[1] == 0) or (v[0] == 'agg' and all(fresh(x, d + 1) for x in v[4])) or
                                                          (v[0] == 'call' and v[1].rsplit('::', 1)[-1] in ('default', 'new', 'with_hasher', 'with_capacity_and_hasher') and all(fresh(S(x), d + 1) for x in v[2])))
            if not fresh(v):
                once(key + '/stage-starts-with-claims', st[0]['ln'], 'a stage must start from an empty %s (got %s)' % (what, pathsem.tstr(v)))
    r.inst(key + ': stage.run then next.run on %d path(s)' % len(rets))
    rs = [g for g in prog.fns.values() if g.path == 'world::World::<Registry, Resources>::run_schedule']
    if len(rs) != 1:
        r.viol('S5', 'missing-run_schedule', '-', 'World::run_schedule not found')
        return r
    g = rs[0]
    r.inst('World::run_schedule')
    E = pathsem.analyse(prog, g)
    for p in [p for p in E.paths if p.ended == 'return']:
        runs = p.calls(lambda e: e['f'].get('trait') == STAGES_T and e['name'] == 'run')
        if len(runs) != 1:
            once('run_schedule/shape', None, 'run_schedule must run the stages exactly once', fn=g)
            continue
        v = S(runs[0]['vals'][2]) if len(runs[0]['vals']) > 2 else None
        # ... made by the Stages trait's constructor of initial flags (its one method without arguments)
        init = {STAGES_T + '::' + m.name for im in prog.facts['impls'] if im['trait'] and im['trait']['path'] == STAGES_T
                for m in prog.impl_methods(im) if m.kind == 'AssocFn' and not (m.d.get('inputs') or [])}
        if not (isinstance(v, tuple) and v[0] == 'call' and (v[1].endswith('::new_has_run') or (v[1] in init and not v[2]))):
            once('run_schedule/initial-flags', runs[0]['ln'], 'run_schedule must start with fresh has_run flags (new_has_run())', fn=g)
    return r


BLOCKING = ('std::sync::', 'std::thread::', 'core::hint::spin_loop', 'std::sync::mpsc', 'parking_lot', 'core::sync::atomic', 'crossbeam', 'rayon::scope', 'rayon::spawn', 'rayon_core::scope', 'rayon_core::spawn', 'std::panic::catch_unwind', 'rayon_core::ThreadPool')


@rule('S7', props=['C12', 'C17'], floor=700, configs=('all',))
def s7_no_blocking(prog):
    """No function of the crate calls a blocking / synchronising primitive (mutex, condvar, channel,
    park, sleep, spin loop, atomics, scoped spawn) or catch_unwind: rayon::join is the only concurrency
    primitive, so a schedule cannot wait on anything but the completion of its own forks (returns on a
    single-threaded pool) and a panic in a task is propagated by join, never swallowed."""
    r = Result()
    for f in prog.fns.values():
        r.inst(f.dp)
        for b, t in f.body.calls():
            p = t['f']['path']
            if any(p.startswith(x) or ('<' + x) in p for x in BLOCKING):
                r.viol('S7', '%s/%s' % (f.path.split('<')[0][:80], p.split('::<')[0]), f.loc(t['ln']), 'call to %s: a blocking/synchronising primitive or unwind catcher inside the library' % p)
    # keep evidence small: collapse instances
    n = len(r.instances)
    r.instances = ['fn #%d' % i for i in range(n)]
    return r


@rule('S8', props=['C07', 'C08'], floor=1, configs=('all',))
def s8_archetype_claims(prog):
    """ArchetypeClaims::next (the list of (archetype, claims) a task contributes to the claim map): it returns
    `None` only once the archetype iterator is exhausted — an archetype that does not match the task's filter is
    skipped, not the end of the list — and every `Some` carries the identifier of an archetype for which the
    filter held, with the task's view claims merged with its entry-view claims."""
    r = Result()
    fs = [f for f in prog.fns.values() if f.name == 'next' and f.impl and is_adt(f.impl['self'], 'query::result::archetype_claims::ArchetypeClaims')]
    if len(fs) != 1:
        r.viol('S8', 'missing', '-', 'ArchetypeClaims::next not found')
        return r
    f = fs[0]
    E = pathsem.analyse(prog, f)
    rets = [p for p in E.paths if p.ended == 'return']
    r.inst('ArchetypeClaims::next: %d returning paths' % len(rets))
    rep = set()

    def once(k, ln, msg):
        if k not in rep:
            rep.add(k)
            r.viol('S8', 'ArchetypeClaims::next/' + k, f.loc(ln), msg)
    if E.truncated or not rets:
        once('not-analysable', None, 'path enumeration cut off')
        return r
    S = pathsem.strip_refs
    ai = adt_field_index(prog, 'query::result::archetype_claims::ArchetypeClaims', 'archetypes_iter')
    n_some = n_none = 0
    split = False

    def from_archetypes(it):
        root = pathsem.iter_chain(it)[0]
        return pathsem.is_field_of(root, 'query::result::archetype_claims::ArchetypeClaims', ai) or pathsem.mentions(root, lambda t: pathsem.is_field_of(t, 'query::result::archetype_claims::ArchetypeClaims', ai))
    for p in rets:
        if p.ret == pathsem.NONE:
            n_none += 1
            ended = [1 for a_, v in p.conds if isinstance(a_, tuple) and from_archetypes(a_[1]) and
                     ((a_[0] == 'exhausted' and v is True) or (a_[0] == 'nonempty' and v is False) or (a_[0] == 'next' and v == 0))]
            if not ended:
                once('gives-up-early', None, 'returns None although the archetype iterator is not exhausted (an archetype that does not match the filter ends the list): claims of later archetypes are never recorded or checked')
            continue
        v = p.ret
        if not (isinstance(v, tuple) and v[0] == 'agg' and v[2] == 'Some' and isinstance(v[4][0], tuple) and v[4][0][0] == 'agg' and v[4][0][1] == 'tuple' and len(v[4][0][4]) in (2, 3)):
            once('shape', None, 'cannot see the (identifier, claims) pair returned (%s)' % pathsem.tstr(v)[:120])
            continue
        n_some += 1
        if len(v[4][0][4]) == 3:
            # (identifier, view claims, entry-view claims): the merge is left to the consumers (checked below)
            ident, c1, c2 = v[4][0][4]
            split = True
            claims = None
        else:
            ident, claims = v[4][0][4]
        arch = None
        if isinstance(ident, tuple) and ident[0] == 'call' and ident[1].endswith('::identifier'):
            arch = pathsem.canon(S(ident[2][0]))
        flt = [e for e in p.calls(lambda e: e['name'] == 'filter' and 'registry::contains::filter' in e['path']) if p.lookup(e['ret']) is True]
        ok = arch is not None and any(pathsem.mentions(pathsem.canon(e['args'][0]), lambda t: t[0] == 'call' and t[1].endswith('::identifier') and pathsem.canon(S(t[2][0])) == arch) for e in flt)
        if not ok:
            once('unfiltered', None, 'a (identifier, claims) pair is produced for an archetype that was not found to match the task filter')
        if not (isinstance(arch, tuple) and pathsem.mentions(arch, lambda t: pathsem.is_field_of(t, 'query::result::archetype_claims::ArchetypeClaims', ai))):
            once('other-archetype', None, 'the identifier returned is not that of an archetype taken from the archetype iterator')
        def sources(q, vals):
            out = set()
            for v_ in vals:
                v_ = S(v_)
                for c in q.calls(lambda c: c['name'] == 'claims' and c['ret'] == v_):
                    names = set()
                    for a_ in c['f'].get('args', []):
                        names |= set(ty_params(a_))
                    out.add('entry' if 'EntryViews' in names else ('views' if 'Views' in names else '?'))
            return out
        srcs = set()
        if claims is None:
            srcs = sources(p, (c1, c2))
        else:
            me = [e for e in p.calls(lambda e: e['name'] == 'merge_unchecked') if e['ret'] == S(claims)]
            if me:
                srcs = sources(p, me[0]['vals'])
            else:
                # the claims are the same for every archetype: they may be computed once, when the list is made, and
                # handed out as copies of that field
                c_ = S(claims)
                while isinstance(c_, tuple) and c_[0] == 'call' and c_[1].rsplit('::', 1)[-1] == 'clone' and c_[2]:
                    c_ = S(c_[2][0])
                ADT = 'query::result::archetype_claims::ArchetypeClaims'
                if isinstance(c_, tuple) and c_[0] == 'f' and isinstance(c_[3], str) and c_[3].endswith('ArchetypeClaims') and S(c_[1]) in (('p', 1, f.body.local_name(1) or 'self'), ('d', ('p', 1, f.body.local_name(1) or 'self'))):
                    k_ = c_[2]
                    from .rules_guard import aggregates_of
                    makers = {fn.dp: fn for fn, b_, i_, s_ in aggregates_of(prog, ADT)}
                    per = []
                    for mk in makers.values():
                        Em = pathsem.analyse(prog, mk)
                        for q in Em.paths:
                            if q.ended != 'return':
                                continue
                            for t_ in pathsem.subterms(q.ret):
                                if isinstance(t_, tuple) and t_[0] == 'agg' and t_[1] == ADT and len(t_[4]) > k_:
                                    mm = [e for e in q.calls(lambda e: e['name'] == 'merge_unchecked') if e['ret'] == S(t_[4][k_])]
                                    per.append(sources(q, mm[0]['vals']) if mm else set())
                    if per and all(x == {'views', 'entry'} for x in per):
                        srcs = {'views', 'entry'}
                    elif per:
                        srcs = set().union(*per)
        if srcs != {'views', 'entry'}:
            once('claims', None, 'the claims returned are not the merge of the task view claims and entry-view claims (found %s)' % sorted(srcs))
    if not n_some or not n_none:
        once('shape', None, 'expected both Some and None results (found %d / %d)' % (n_some, n_none))
    if split:
        # every consumer of the list merges the two claims of an element before it uses them
        cons = [g for g in prog.fns.values() if g.kind != 'Closure' and any(True for _ in g.body.calls(lambda c: c['name'] == 'query_archetype_claims'))]
        if not cons:
            once('claims', None, 'view claims and entry-view claims are returned separately but no consumer was found')
        for g in cons:
            Eg = pathsem.analyse(prog, g, max_paths=30000)
            bad = Eg.truncated
            for p in Eg.paths:
                if p.ended not in ('return', 'cutoff'):
                    continue
                writes = p.calls(lambda e: 'HashMap' in e['path'] and e['name'] in ('insert', 'entry', 'insert_unique_unchecked', 'extend', 'get_mut', 'try_insert', 'get'))
                if not writes:
                    continue
                merged = False
                for e in p.calls(lambda e: e['name'] in ('merge_unchecked', 'try_merge') and len(e['args']) == 2):
                    x, y = S(e['vals'][0]), S(e['vals'][1])
                    while isinstance(y, tuple) and y[0] == 'd':
                        y = S(y[1])
                    if isinstance(x, tuple) and isinstance(y, tuple) and x[0] == y[0] == 'f' and x[1] == y[1] and {x[2], y[2]} == {1, 2} and e['i'] < writes[0]['i']:
                        merged = True
                if not merged:
                    bad = True
            if bad:
                r.viol('S8', '%s/claims-not-merged' % g.name, g.loc(), 'ArchetypeClaims yields view claims and entry-view claims separately, but %s uses an element without merging the two first: components reached only through entry views go unclaimed' % g.name)
    return r


@rule('S9', props=['C09', 'C07', 'C15'], floor=4, configs=('all',))
def s9_every_run_reaches_the_system(prog):
    """`World::run_system`, `World::run_par_system` and `Task::run` of `task::System` / `task::ParSystem` call the
    user's `System::run` / `ParSystem::run` exactly once on every returning path, with the query result of that
    world: a system also owns state and resource views, so skipping it (say, for an empty world) makes the parallel
    variant differ from the sequential one and a schedule differ from running its tasks in order."""
    r = Result()
    targets = []
    for f in prog.fns.values():
        if f.kind == 'Closure':
            continue
        if f.path.startswith('world::World::<Registry, Resources>::') and f.name in ('run_system', 'run_par_system'):
            targets.append((f, 'World::' + f.name))
        elif f.name == 'run' and f.impl and f.impl['trait'] and f.impl['trait']['path'].endswith('system::schedule::task::sealed::Task'):
            targets.append((f, 'Task::run for %s' % ty_str(f.impl['self'])))
    for f, key in targets:
        r.inst(key)
        E = pathsem.analyse(prog, f)
        rets = [p for p in E.paths if p.ended == 'return']
        if E.truncated or not rets:
            r.viol('S9', key + '/not-analysable', f.loc(), 'path enumeration cut off')
            continue
        for p in rets:
            runs = p.calls(lambda e: e['name'] == 'run' and (e['path'].startswith('system::System::') or e['path'].startswith('system::par::ParSystem::') or e['path'].startswith('system::ParSystem::')
                                                               or (e['f'].get('trait') or '').endswith(('system::System', 'system::par::ParSystem', 'system::ParSystem'))))
            # delegation to World::run_system / run_par_system (checked above on their own) runs the system once
            deleg = p.calls(lambda e: e['name'] in ('run_system', 'run_par_system') and e['path'].startswith('world::World::<Registry, Resources>::'))
            if deleg and not runs:
                if len(deleg) != 1 or not f.name == 'run' or (('ParSystem' in key) != (deleg[0]['name'] == 'run_par_system')):
                    r.viol('S9', key + '/system-run-twice', f.loc(), 'a path through %s delegates to %s' % (key, [e['name'] for e in deleg]))
                    break
                continue
            if len(runs) != 1 or deleg:
                r.viol('S9', key + ('/system-not-run' if not runs else '/system-run-twice'), f.loc(),
                       'a path through %s returns %s: the system\'s own state and its resource views are then out of step with the sequential run' % (key, 'without running the system' if not runs else 'after running the system %d times' % len(runs)))
                break
            qs = p.calls(lambda e: e['name'] in ('query', 'par_query') and e['i'] < runs[0]['i'])
            if not qs or not any(pathsem.mentions(a_, lambda t: t == qs[-1]['ret']) for a_ in runs[0]['args']):
                r.viol('S9', key + '/not-the-query-result', f.loc(runs[0]['ln']), 'the system is not run on the result of querying this world')
                break
    return r
