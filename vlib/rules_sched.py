"""S rules: run-time structure of the schedule (stage.rs / stages.rs / World::run_schedule)."""
from .engine import rule, Result
from .mir import *

STAGE_T = 'system::schedule::stage::Stage'
STAGES_T = 'system::schedule::stages::Stages'
TASK_T = 'system::schedule::task::sealed::Task'


def stage_cons_impl(prog, trait=STAGE_T):
    out = []
    for imp in prog.facts['impls']:
        if imp['trait'] and imp['trait']['path'] == trait and imp['self'].get('k') == 'tuple' and len(imp['self']['e']) == 2:
            out.append(imp)
    return out


def method(prog, imp, name):
    for f in prog.impl_methods(imp):
        if f.name == name:
            return f
    return None


def closure_of(prog, body, op):
    """The closure Fn whose value is operand op (an Aggregate(Closure) with a unique definition)."""
    l = op_local(op)
    if l is None:
        return None, None
    d = single_def(body, l)
    if d and d[0] == 'assign' and d[3]['rv']['k'] == 'agg' and d[3]['rv']['agg'] == 'closure':
        return prog.fns.get(d[3]['rv']['dp']), d[3]['rv']
    return None, None


def calls_named(fn, pred):
    return [(b, t) for b, t in fn.body.calls(pred)]


def is_task_run(c):
    return c.get('trait') == TASK_T and c['name'] == 'run'


def is_join(c):
    return c['path'] == 'rayon::join' or c['path'].endswith('rayon_core::join::join') or c['path'] == 'rayon_core::join'


def upvar_index_of(body, op):
    """If operand is (a copy/move/reborrow of) closure upvar `_1.k` / `(*_1).k` return k."""
    p = op_place(op)
    if p is None:
        return None
    a = normalize_access(access_of_place(body, p))
    if a.root == 1:
        fs = [s[1] for s in a.steps if isinstance(s, tuple) and s[0] == 'f']
        if fs:
            return fs[0]
    return None


@rule('S1', props=['C07', 'C08', 'C17'], floor=2, configs=('all',))
def s1_exactly_once(prog):
    """Stage::run for a cons cell: if the task already ran (has_run.0) it is not run again and the
    claim state is handed on unchanged; otherwise exactly one rayon::join runs the task exactly once
    next to a closure that records this task's component claims and resource claims and then runs the
    rest of the stage with those accumulated claims."""
    r = Result()
    imps = stage_cons_impl(prog)
    if len(imps) != 1:
        r.viol('S1', 'missing-stage-impl', '-', 'expected exactly one Stage impl for a cons cell, found %d' % len(imps))
        return r
    imp = imps[0]
    f = method(prog, imp, 'run')
    if f is None:
        r.viol('S1', 'missing-run', '-', 'Stage::run not found')
        return r
    body = f.body
    key = 'Stage::run for (&mut T, U)'
    tail = imp['self']['e'][1]['name']
    # the has_run.0 switch
    sw = None
    for b in range(body.n):
        t = body.term(b)
        if t['k'] == 'switch' and t['discr_ty'].get('name') == 'bool':
            nm = receiver_name(prog, body, t['discr'])
            if nm and nm.startswith('has_run') and nm.endswith('.0'):
                ft = t['targets'][t['values'].index(0)] if 0 in t['values'] else None
                sw = (b, t['otherwise'], ft)
    if sw is None:
        r.viol('S1', key + '/no-has-run-test', f.loc(), 'Stage::run does not branch on has_run.0: a task started early would run twice')
        return r
    sb, tt, ft = sw
    r.inst(key + ': has_run switch at bb%d' % sb)
    joins = [(b, t) for b, t in body.calls(is_join)]
    truns = [(b, t) for b, t in body.calls(is_task_run)]
    tails = [(b, t) for b, t in body.calls(lambda c: c.get('trait') == STAGE_T and c['name'] == 'run')]
    true_reach = body.reachable(tt, cut_edges=[])
    false_reach = body.reachable(ft) if ft is not None else set()
    # already-ran edge
    for b, t in joins + truns:
        if b in true_reach and b not in false_reach:
            r.viol('S1', key + '/runs-again', f.loc(t['ln']), 'task is run (or forked) on the path where has_run.0 is true')
    tt_tails = [(b, t) for b, t in tails if b in true_reach and b not in false_reach]
    if len(tt_tails) != 1:
        r.viol('S1', key + '/skip-path-tail', f.loc(), 'the already-ran path must call the rest of the stage exactly once (found %d)' % len(tt_tails))
    for b, t in tt_tails:
        names = [receiver_name(prog, body, a) for a in t['args']]
        want = [None, 'world', 'borrowed_archetypes', 'resource_claims', 'has_run.1', None]
        for i, w in enumerate(want):
            if w and (i >= len(names) or names[i] != w):
                r.viol('S1', key + '/skip-path-args/%d' % i, f.loc(t['ln']), 'already-ran path must pass %s unchanged to the rest of the stage (got %s)' % (w, names[i] if i < len(names) else None))
    # not-yet-run edge
    fj = [(b, t) for b, t in joins if b in false_reach]
    if len(fj) != 1:
        r.viol('S1', key + '/join-count', f.loc(), 'the not-yet-run path must fork exactly once with rayon::join (found %d)' % len(fj))
        return r
    jb, jt = fj[0]
    if not body.must_pass(ft, [jb], body.return_blocks()):
        r.viol('S1', key + '/join-skippable', f.loc(jt['ln']), 'a not-yet-run path returns without running the task')
    ca, ca_agg = closure_of(prog, body, jt['args'][0])
    cb, cb_agg = closure_of(prog, body, jt['args'][1])
    if ca is None or cb is None:
        r.viol('S1', key + '/join-args', f.loc(jt['ln']), 'rayon::join arguments are not closures defined in place')
        return r
    # which closure runs the task
    runs_a = calls_named(ca, is_task_run)
    runs_b = calls_named(cb, is_task_run)
    if len(runs_a) + len(runs_b) != 1:
        r.viol('S1', key + '/task-run-count', f.loc(jt['ln']), 'the fork must run the task exactly once (found %d Task::run calls)' % (len(runs_a) + len(runs_b)))
        return r
    task_c, rest_c, rest_agg = (cb, ca, ca_agg) if runs_b else (ca, cb, cb_agg)
    r.inst(key + ': task closure %s, rest closure %s' % (task_c.dp.rsplit('::', 1)[-1], rest_c.dp.rsplit('::', 1)[-1]))
    # task closure runs self.0
    others = [t for b, t in task_c.body.calls() if not is_task_run(t['f']) and t['f'].get('path') not in DEREF_CALLS]
    if others:
        r.viol('S1', key + '/task-closure-extra', task_c.loc(), 'the task closure does more than run the task')
    # rest closure: accumulate claims, merge resource claims, tail run with those
    rb = rest_c.body
    acc = [(b, t) for b, t in rb.calls(lambda c: c['name'] == 'query_archetype_identifiers_unchecked')]
    mrg = [(b, t) for b, t in rb.calls(lambda c: c['name'] in ('merge_unchecked', 'try_merge') and 'claim' in c['path'])]
    rtails = [(b, t) for b, t in rb.calls(lambda c: c.get('trait') == STAGE_T and c['name'] == 'run')]
    if len(rtails) != 1:
        r.viol('S1', key + '/rest-tail', rest_c.loc(), 'the rest-of-stage closure must continue the stage exactly once')
        return r
    tb, ttm = rtails[0]
    if not (ttm['f']['args'] and is_param(ttm['f']['args'][0], tail)):
        r.viol('S1', key + '/rest-tail-self', rest_c.loc(ttm['ln']), 'the rest of the stage must be the tail stage U')
    if len(acc) != 1 or not rb.dominates(acc[0][0], tb):
        r.viol('S4', key + '/claims-not-recorded', rest_c.loc(), 'the running task\'s archetype claims are not recorded (on every path) before the rest of the stage / the add-ons are started')
    else:
        g = acc[0][1]['f']['args']
        # the T whose claims are recorded is the head task T
        head = imp['self']['e'][0]
        hT = head['t']['name'] if head.get('k') == 'ref' and head['t'].get('k') == 'param' else None
        if not any(is_param(x, hT) for x in g):
            r.viol('S4', key + '/claims-of-wrong-task', rest_c.loc(acc[0][1]['ln']), 'claims are recorded for a different task type than the one being run')
        # map argument = upvar k; tail must receive same upvar k
        mk = upvar_index_of(rb, acc[0][1]['args'][1])
        tk = upvar_index_of(rb, ttm['args'][2]) if len(ttm['args']) > 2 else None
        if mk is None or mk != tk:
            r.viol('S4', key + '/claims-map-not-forwarded', rest_c.loc(ttm['ln']), 'the map handed to the rest of the stage is not the one the task\'s claims were recorded in')
    if len(mrg) != 1 or not rb.dominates(mrg[0][0], tb):
        r.viol('S3', key + '/resource-claims-not-recorded', rest_c.loc(),
               'the running task\'s resource claims are not merged into the stage\'s resource claims on every path before the rest of the stage / the add-ons are started')
    else:
        mb, mt = mrg[0]
        # merged value is what the tail receives (unique definition chain)
        a = ttm['args'][3] if len(ttm['args']) > 3 else None
        src = access_of_local(rb, op_local(a)) if a is not None and op_local(a) is not None else None
        if src is None or src.root != mt['dest']['l']:
            r.viol('S3', key + '/resource-claims-not-forwarded', rest_c.loc(ttm['ln']), 'the rest of the stage does not receive the merged resource claims')
        # merge combines the incoming claims (upvar) with this task's Resources::claims()
        srcs = set()
        for x in mt['args']:
            l = op_local(x)
            if l is None:
                continue
            a2 = normalize_access(access_of_local(rb, l))
            d = single_def(rb, a2.root)
            if a2.root == 1:
                srcs.add('incoming')
            elif d and d[0] == 'call' and d[2]['f']['name'] == 'claims':
                srcs.add('task')
        if srcs != {'incoming', 'task'}:
            r.viol('S3', key + '/resource-merge-operands', rest_c.loc(mt['ln']), 'resource claim merge must combine the incoming stage claims with this task\'s resource claims (got %s)' % sorted(srcs))
    # has_run.1 forwarded
    hk = upvar_index_of(rb, ttm['args'][4]) if len(ttm['args']) > 4 else None
    if hk is not None and rest_agg is not None:
        nm = receiver_name(prog, body, rest_agg['ops'][hk]) if hk < len(rest_agg['ops']) else None
        if nm != 'has_run.1':
            r.viol('S1', key + '/has-run-tail', rest_c.loc(ttm['ln']), 'rest of the stage must receive has_run.1 (got %s)' % nm)
    return r


@rule('S2', props=['C07', 'C08'], floor=3, configs=('all',))
def s2_flag_iff_ran(prog):
    """run_add_ons: the first component of the returned tuple is `true` exactly on the path that forks
    the task with rayon::join, `false` on all others; every path continues with the tail's
    run_add_ons; admission (S3) requires BOTH compatible resource claims and compatible archetype
    claims, and the fork receives the merged resource claims and the updated claim map."""
    r = Result()
    imps = stage_cons_impl(prog)
    if len(imps) != 1:
        r.viol('S2', 'missing-stage-impl', '-', 'Stage cons impl not found')
        return r
    imp = imps[0]
    f = method(prog, imp, 'run_add_ons')
    body = f.body
    key = 'Stage::run_add_ons for (&mut T, U)'
    joins = [(b, t) for b, t in body.calls(is_join)]
    if len(joins) != 1:
        r.viol('S2', key + '/join-count', f.loc(), 'run_add_ons must fork at most once (found %d joins)' % len(joins))
        return r
    jb, jt = joins[0]
    r.inst(key + ': join at bb%d' % jb)
    # fn-level result tuples
    for b, i, s in body.stmts():
        if s['k'] == 'assign' and s['place']['l'] == 0 and s['rv']['k'] == 'agg' and s['rv']['agg'] == 'tuple' and s['rv']['ops']:
            c = op_const(s['rv']['ops'][0])
            if c is None or c.get('val') != 0:
                r.viol('S2', key + '/flag-true-without-run', f.loc(s['ln']), 'a path that does not run the task reports it as run: the task would be skipped in its own stage')
            if jb in body.reachable(0) and b in body.reachable_after(jb):
                r.viol('S2', key + '/flag-false-after-run', f.loc(s['ln']), 'a path that ran the task reports it as not run: the task would run twice')
    ca, ca_agg = closure_of(prog, body, jt['args'][0])
    cb, cb_agg = closure_of(prog, body, jt['args'][1])
    if ca is None or cb is None:
        r.viol('S2', key + '/join-args', f.loc(jt['ln']), 'join arguments are not in-place closures')
        return r
    task_c, rest_c, rest_agg = (cb, ca, ca_agg) if calls_named(cb, is_task_run) else (ca, cb, cb_agg)
    if len(calls_named(task_c, is_task_run)) != 1 or calls_named(rest_c, is_task_run):
        r.viol('S2', key + '/task-run-count', f.loc(jt['ln']), 'the fork must run the task exactly once')
    r.inst(key + ': rest closure result tuple')
    ok_true = False
    for b, i, s in rest_c.body.stmts():
        if s['k'] == 'assign' and s['place']['l'] == 0 and s['rv']['k'] == 'agg' and s['rv']['agg'] == 'tuple' and s['rv']['ops']:
            c = op_const(s['rv']['ops'][0])
            if c is not None and c.get('val') == 1:
                ok_true = True
            else:
                r.viol('S2', key + '/flag-false-on-run', rest_c.loc(s['ln']), 'the forked path must report the task as run')
    if not ok_true:
        r.viol('S2', key + '/flag-missing', rest_c.loc(), 'the forked path does not report the task as run')
    # every path calls the tail's run_add_ons exactly once (fn-level on non-join paths, closure on join path)
    tails = [(b, t) for b, t in body.calls(lambda c: c.get('trait') == STAGE_T and c['name'] == 'run_add_ons')]
    ctails = [(b, t) for b, t in rest_c.body.calls(lambda c: c.get('trait') == STAGE_T and c['name'] == 'run_add_ons')]
    if len(ctails) != 1:
        r.viol('S2', key + '/rest-tail', rest_c.loc(), 'forked path must continue with the tail\'s run_add_ons exactly once')
    if not body.must_pass(0, [jb] + [b for b, _ in tails], body.return_blocks()):
        r.viol('S2', key + '/tail-skippable', f.loc(), 'a path returns without offering the remaining tasks of the next stage as add-ons')
    # ---- S3 admission
    tm = [(b, t) for b, t in body.calls(lambda c: c['name'] == 'try_merge' and 'claim' in c['path'])]
    qa = [(b, t) for b, t in body.calls(lambda c: c['name'] == 'query_archetype_identifiers')]
    r.inst(key + ': admission guards try_merge=%d query=%d' % (len(tm), len(qa)))
    if len(tm) != 1:
        r.viol('S3', key + '/no-resource-check', f.loc(), 'add-on admission does not check resource claims with try_merge')
    else:
        tb_, tt_ = tm[0]
        # Some edge
        d = tt_['dest']['l']
        if len(body.assigns_to(d)) != 1 or not body.must_pass(0, [tb_], [jb]):
            r.viol('S3', key + '/resource-check-bypassed', f.loc(tt_['ln']), 'a path reaches the early start without merging resource claims through try_merge (the checked Option has another source)')
        some_edge = None
        for b in range(body.n):
            t = body.term(b)
            if t['k'] == 'switch':
                dl = op_local(t['discr'])
                dd = single_def(body, dl) if dl is not None else None
                if dd and dd[0] == 'assign' and dd[3]['rv']['k'] == 'discr' and dd[3]['rv']['place']['l'] == d:
                    if 1 in t['values']:
                        some_edge = (b, t['targets'][t['values'].index(1)])
        if some_edge is None or not body.edge_dominates(some_edge, jb):
            r.viol('S3', key + '/fork-not-guarded-by-resources', f.loc(jt['ln']), 'the early start is not guarded by a successful merge of resource claims: a task could start while a conflicting resource is in use')
        # operands: this task's claims() and the incoming claims
        srcs = set()
        for x in tt_['args']:
            nm = receiver_name(prog, body, x)
            l = op_local(x)
            dd = single_def(body, access_of_local(body, l).root) if l is not None else None
            if nm and nm.startswith('resource_claims'):
                srcs.add('incoming')
            elif dd and dd[0] == 'call' and dd[2]['f']['name'] == 'claims':
                srcs.add('task')
        if srcs != {'incoming', 'task'}:
            r.viol('S3', key + '/resource-check-operands', f.loc(tt_['ln']), 'resource admission must merge the running claims with this task\'s resource claims (got %s)' % sorted(srcs))
        # closure receives the merged claims (payload of Some)
        if rest_agg is not None:
            merged_locals = set()
            for b, i, s in body.stmts():
                if s['k'] == 'assign' and s['rv']['k'] == 'use':
                    p = op_place(s['rv']['op'])
                    if p and p['l'] == d and p['p']:
                        merged_locals.add(s['place']['l'])
            merged_locals = derived(body, merged_locals, through_calls=False) if merged_locals else merged_locals
            got = [op_local(o) for o in rest_agg['ops']]
            if not (merged_locals & set(got)):
                r.viol('S3', key + '/merged-resources-not-forwarded', f.loc(jt['ln']), 'the forked path does not carry the merged resource claims: later add-ons would not see this task\'s resources')
    if len(qa) != 1:
        r.viol('S3', key + '/no-archetype-check', f.loc(), 'add-on admission does not check archetype claims')
    else:
        qb, qt = qa[0]
        cl = qt['dest']['l']
        ok = False
        for sb_, t_true, t_false in bool_switches(body, cl):
            if body.edge_dominates((sb_, t_true), jb):
                ok = True
        if not ok:
            r.viol('S3', key + '/fork-not-guarded-by-archetypes', f.loc(jt['ln']), 'the early start is not guarded by compatible archetype claims')
        # map forwarded: closure captures the same local that was passed &mut
        ml = normalize_access(access_of_place(body, op_place(qt['args'][1])))
        if rest_agg is not None:
            got = [op_local(o) for o in rest_agg['ops']]
            if ml.root not in got:
                r.viol('S3', key + '/updated-map-not-forwarded', f.loc(jt['ln']), 'the forked path does not carry the updated claim map')
    return r


@rule('S3q', props=['C08', 'C07'], floor=1, configs=('all',))
def s3_query_archetype_identifiers(prog):
    """query_archetype_identifiers returns true only after every claimed archetype of the task was either
    inserted (vacant) or successfully try_merge-d (occupied), returns false on the first conflict, and
    commits the merged map to the caller only on the true path."""
    r = Result()
    fs = [f for f in prog.fns.values() if f.path == 'system::schedule::stage::query_archetype_identifiers']
    if len(fs) != 1:
        r.viol('S3q', 'missing', '-', 'query_archetype_identifiers not found')
        return r
    f = fs[0]
    body = f.body
    key = 'query_archetype_identifiers'
    r.inst(key)
    tm = [(b, t) for b, t in body.calls(lambda c: c['name'] == 'try_merge')]
    if len(tm) != 1:
        r.viol('S3q', key + '/no-try-merge', f.loc(), 'occupied entries must be merged with try_merge (conflict detection)')
        return r
    tb, tt = tm[0]
    d = tt['dest']['l']
    none_t = some_t = None
    for b in range(body.n):
        t = body.term(b)
        if t['k'] == 'switch':
            dl = op_local(t['discr'])
            dd = single_def(body, dl) if dl is not None else None
            if dd and dd[0] == 'assign' and dd[3]['rv']['k'] == 'discr' and dd[3]['rv']['place']['l'] == d and 1 in t['values']:
                some_t = t['targets'][t['values'].index(1)]
                none_t = t['otherwise']
                sw_b = b
    if none_t is None:
        r.viol('S3q', key + '/result-unchecked', f.loc(tt['ln']), 'result of try_merge is not inspected')
        return r
    # returns: assignments to _0
    rets = [(b, s) for b, i, s in body.stmts() if s['k'] == 'assign' and s['place']['l'] == 0 and not s['place']['p']]
    true_b = [b for b, s in rets if op_const(s['rv'].get('op', {})) and op_const(s['rv']['op']).get('val') == 1]
    false_b = [b for b, s in rets if op_const(s['rv'].get('op', {})) and op_const(s['rv']['op']).get('val') == 0]
    # conflict edge must lead to false without any path to a true return
    nr = body.reachable(none_t)
    if any(b in nr for b in true_b) or not any(b in nr for b in false_b):
        r.viol('S3q', key + '/conflict-not-refused', f.loc(tt['ln']), 'a failed try_merge (conflicting claims) does not make the function return false')
    # true return only after loop exit: the loop's `next` None edge dominates it
    nx = [(b, t) for b, t in body.calls(lambda c: c['path'] == 'core::iter::Iterator::next')]
    if len(nx) != 1:
        r.viol('S3q', key + '/loop', f.loc(), 'expected exactly one iteration over the task\'s archetype claims')
        return r
    nb, nt = nx[0]
    nd = nt['dest']['l']
    none_edge = None
    for b in range(body.n):
        t = body.term(b)
        if t['k'] == 'switch':
            dl = op_local(t['discr'])
            dd = single_def(body, dl) if dl is not None else None
            if dd and dd[0] == 'assign' and dd[3]['rv']['k'] == 'discr' and dd[3]['rv']['place']['l'] == nd and 0 in t['values']:
                none_edge = (b, t['targets'][t['values'].index(0)])
    for b in true_b:
        if none_edge is None or not body.edge_dominates(none_edge, b):
            r.viol('S3q', key + '/true-before-all-checked', f.loc(), 'returns true before every claimed archetype has been checked')
    # commit: write to *borrowed_archetypes only dominated by loop exit
    for b, i, s in body.stmts():
        if s['k'] == 'assign' and s['place']['p'] == ['*'] and body.local_name(s['place']['l']) == 'borrowed_archetypes' and not body.blocks[b]['cleanup']:
            if none_edge is None or not body.edge_dominates(none_edge, b):
                r.viol('S3q', key + '/commit-on-conflict', f.loc(s['ln']), 'the caller\'s claim map is updated on a path that found a conflict')
    # the iterated claims come from query_archetype_claims of this task
    return r


INSERTERS = ('insert', 'insert_unique_unchecked', 'insert_with_hasher', 'insert_hashed_nocheck', 'insert_entry', 'or_insert', 'or_insert_with', 'try_insert', 'extend')


@rule('S4', props=['C08', 'C07'], floor=3, configs=('all',))
def s4_claims_accumulate(prog):
    """Every insertion into a claim map (HashMap keyed by archetype IdentifierRef, valued by claims) in
    the schedule module either fills a vacant entry or stores a value merged from the occupied
    entry's previous value; blind inserts (insert / insert_unique_unchecked) would drop or duplicate
    the claims of a task that is still running."""
    r = Result()
    for f in prog.fns.values():
        if not (f.path.startswith('system::schedule::') or '::system::schedule::' in f.path):
            continue
        body = f.body
        for b, t in body.calls(lambda c: 'hashbrown' in c['path'] and c['name'] in INSERTERS):
            # only claim maps: key type IdentifierRef
            g = t['f']['args']
            if not any(is_adt(x, 'archetype::identifier::IdentifierRef') for x in g):
                continue
            fp = t['f']['path']
            r.inst('%s: %s' % (f.path.split('<')[0][:60], fp.split('::<')[0].split('::')[-1] + '::' + t['f']['name']))
            key = '%s/%s' % (f.name, fp.split('hashbrown::')[-1].split('::<')[0] + '::' + t['f']['name'])
            if 'VacantEntry' in fp and t['f']['name'] == 'insert':
                continue
            if 'OccupiedEntry' in fp and t['f']['name'] == 'insert':
                # value must derive from a merge that read the entry's previous value
                v = op_local(t['args'][1])
                merges = [(mb, mt) for mb, mt in body.calls(lambda c: c['name'] in ('try_merge', 'merge_unchecked'))]
                gets = [(gb, gt) for gb, gt in body.calls(lambda c: 'OccupiedEntry' in c['path'] and c['name'] in ('get', 'get_mut'))]
                ok = False
                for mb, mt in merges:
                    if v in derived(body, {mt['dest']['l']}):
                        # merge reads entry.get()
                        gl = {gt['dest']['l'] for gb, gt in gets}
                        argl = set()
                        for a in mt['args']:
                            l = op_local(a)
                            if l is not None:
                                argl.add(access_of_local(body, l).root)
                        if gl & argl:
                            ok = True
                if not ok:
                    r.viol('S4', key + '/overwrite-without-merge', f.loc(t['ln']), 'occupied claim entry overwritten with a value not merged from its previous claims: the running task\'s claims are lost')
                continue
            r.viol('S4', key + '/blind-insert', f.loc(t['ln']),
                   'claim map insertion that neither targets a vacant entry nor merges with the existing claims (%s): claims of a task still running are dropped or shadowed by a duplicate key' % t['f']['name'])
    return r


@rule('S5', props=['C07', 'C12'], floor=2, configs=('all',))
def s5_stage_sequencing(prog):
    """Stages::run for (T, U): the stage runs first and the has_run flags it returns are what the next
    stages receive; World::run_schedule starts from new_has_run(); stages never run concurrently."""
    r = Result()
    imps = stage_cons_impl(prog, STAGES_T)
    if len(imps) != 1:
        r.viol('S5', 'missing-stages-impl', '-', 'Stages cons impl not found (%d)' % len(imps))
        return r
    imp = imps[0]
    f = method(prog, imp, 'run')
    body = f.body
    key = 'Stages::run for (T, U)'
    st = [(b, t) for b, t in body.calls(lambda c: c.get('trait') == STAGE_T and c['name'] == 'run')]
    nx = [(b, t) for b, t in body.calls(lambda c: c.get('trait') == STAGES_T and c['name'] == 'run')]
    r.inst(key + ': stage.run=%d next.run=%d' % (len(st), len(nx)))
    if len(st) != 1 or len(nx) != 1:
        r.viol('S5', key + '/shape', f.loc(), 'expected one Stage::run followed by one Stages::run of the tail')
        return r
    (sb, stt), (nb, nt) = st[0], nx[0]
    if not body.dominates(sb, nb):
        r.viol('S5', key + '/order', f.loc(nt['ln']), 'next stages may start before the current stage finished')
    a = nt['args'][2] if len(nt['args']) > 2 else None
    src = access_of_local(body, op_local(a)) if a is not None and op_local(a) is not None else None
    if src is None or src.root != stt['dest']['l']:
        r.viol('S5', key + '/has-run-not-forwarded', f.loc(nt['ln']), 'the next stage does not receive the flags of tasks already started as add-ons (they would run twice)')
    # has_run passed to the stage is this call's own parameter
    hr = receiver_name(prog, body, stt['args'][4]) if len(stt['args']) > 4 else None
    if hr != 'has_run':
        r.viol('S5', key + '/stage-has-run', f.loc(stt['ln']), 'the stage must receive the has_run flags handed to Stages::run (got %s)' % hr)
    for b, t in body.calls(is_join):
        r.viol('S5', key + '/stages-forked', f.loc(t['ln']), 'stages are forked: they must run strictly one after another')
    # the stage starts with an empty claim map and empty resource claims
    # World::run_schedule
    rs = [g for g in prog.fns.values() if g.path == 'world::World::<Registry, Resources>::run_schedule']
    if len(rs) != 1:
        r.viol('S5', 'missing-run_schedule', '-', 'World::run_schedule not found')
        return r
    g = rs[0]
    gb = g.body
    r.inst('World::run_schedule')
    runs = [(b, t) for b, t in gb.calls(lambda c: c.get('trait') == STAGES_T and c['name'] == 'run')]
    if len(runs) != 1:
        r.viol('S5', 'run_schedule/shape', g.loc(), 'run_schedule must run the stages exactly once')
    else:
        b, t = runs[0]
        a = t['args'][2] if len(t['args']) > 2 else None
        l = op_local(a) if a is not None else None
        d = single_def(gb, access_of_local(gb, l).root) if l is not None else None
        if not (d and d[0] == 'call' and d[2]['f']['name'] == 'new_has_run'):
            r.viol('S5', 'run_schedule/initial-flags', g.loc(t['ln']), 'run_schedule must start with fresh has_run flags (new_has_run())')
    return r


BLOCKING = ('std::sync::', 'std::thread::', 'core::hint::spin_loop', 'std::sync::mpsc', 'parking_lot', 'core::sync::atomic', 'crossbeam', 'rayon::scope', 'rayon::spawn', 'rayon_core::scope', 'rayon_core::spawn', 'std::panic::catch_unwind', 'rayon_core::ThreadPool')


@rule('S7', props=['C12', 'C17'], floor=700, configs=('all',))
def s7_no_blocking(prog):
    """No function of the crate calls a blocking / synchronising primitive (mutex, condvar, channel,
    park, sleep, spin loop, atomics, scoped spawn) or catch_unwind: rayon::join is the only concurrency
    primitive, so a schedule cannot wait on anything but the completion of its own forks (returns on a
    single-threaded pool) and a panic in a task is propagated by join, never swallowed."""
    r = Result()
    for f in prog.fns.values():
        r.inst(f.dp)
        for b, t in f.body.calls():
            p = t['f']['path']
            if any(p.startswith(x) or ('<' + x) in p for x in BLOCKING):
                r.viol('S7', '%s/%s' % (f.path.split('<')[0][:80], p.split('::<')[0]), f.loc(t['ln']), 'call to %s: a blocking/synchronising primitive or unwind catcher inside the library' % p)
    # keep evidence small: collapse instances
    n = len(r.instances)
    r.instances = ['fn #%d' % i for i in range(n)]
    return r
