from . import rules_alloc  # noqa
from . import rules_arch  # noqa
from . import rules_walk  # noqa
from . import rules_tables  # noqa
from . import rules_sched  # noqa
from . import rules_guard  # noqa
from . import rules_world  # noqa
from . import rules_serde  # noqa
