"""U rules (C17): state on unwind edges. Enumerates the places where user code (component Clone/Drop/
PartialEq/Serialize/Deserialize, element code run by std containers) can unwind while a *reachable*
archetype's (ptr, cap, length) are stale."""
import json
from .engine import rule, Result
from .mir import *
from . import absint
from .rules_walk import walk_fns, traces, fn_key, FREE_ROLE, REALLOC, vec_slot

USER_TRAITS = ('core::clone::Clone', 'core::cmp::PartialEq', 'core::cmp::Eq', 'serde::Serialize', 'serde::Deserialize', 'serde::de::SeqAccess',
               'serde::ser::SerializeTuple', 'serde::ser::SerializeSeq', 'core::fmt::Debug', 'core::cmp::PartialOrd', 'core::hash::Hash', 'serde::de::DeserializeSeed')
# std container methods that run element code (Clone / Drop / PartialEq of the element type)
ELEMENT_CODE = {'clear': 'Drop', 'truncate': 'Drop', 'clone': 'Clone', 'clone_from': 'Clone+Drop', 'extend_from_slice': 'Clone', 'resize': 'Clone+Drop',
                'dedup': 'PartialEq+Drop', 'retain': 'Drop', 'retain_mut': 'Drop', 'eq': 'PartialEq', 'ne': 'PartialEq', 'drain': 'Drop', 'splice': 'Drop',
                'dedup_by_key': 'Drop', 'dedup_by': 'Drop', 'to_vec': 'Clone', 'fill': 'Clone+Drop', 'clone_from_slice': 'Clone+Drop'}
SHRINK = ('swap_remove', 'clear', 'truncate', 'pop', 'remove', 'clone_from', 'drain', 'retain', 'retain_mut', 'set_len', 'dedup', 'split_off', 'resize')
RAW_DROP = ('drop_in_place', 'write', 'write_unaligned', 'read', 'read_unaligned', 'forget', 'replace', 'swap', 'take', 'write_volatile', 'read_volatile', 'copy', 'copy_nonoverlapping')


def col_derived(v, depth=0):
    """Is the abstract value (derived from) a live column element / buffer / rebuilt Vec?"""
    if depth > 6 or not isinstance(v, tuple) or not v:
        return False
    if v[0] in ('sliceelem', 'slice', 'vec', 'elemf', 'elem'):
        return True
    if v[0] == 'tptr':
        return v[1][0] != 'buf' and col_derived(v[1], depth + 1)
    if v[0] == 'md':
        return col_derived(v[1], depth + 1)
    if v[0] == 'ret':
        return any(col_derived(x, depth + 1) for x in v[2])
    if v[0] in ('tuple',):
        return any(col_derived(x, depth + 1) for x in v[1])
    if v[0] in ('some', 'ok', 'err', 'vecret'):
        return any(col_derived(x, depth + 1) for x in v[1:] if isinstance(x, tuple))
    return False


def mentions_param(t):
    return t is not None and bool(ty_params(t))


def user_sites(p):
    """User-code events of one path: (index, kind, event)"""
    out = []
    for i, e in enumerate(p.events):
        k = e['k']
        if k == 'drop' and not e.get('cleanup'):
            ty = e.get('ty')
            if ty is not None and mentions_param(ty) and e['value'][0] not in ('vec', 'fresh', 'md'):
                out.append((i, 'Drop', e))
            elif e['value'][0] in ('vec', 'fresh') and mentions_param(json.loads(e['value'][2])):
                out.append((i, 'Drop(Vec)', e))
        elif k == 'vec_method' and e['name'] in ELEMENT_CODE and e['vec'][0] in ('vec', 'fresh', 'slice') and mentions_param(json.loads(e['vec'][2])):
            out.append((i, ELEMENT_CODE[e['name']], e))
        elif k == 'call' and e.get('trait') in USER_TRAITS:
            g = e.get('gargs') or []
            if any(mentions_param(json.loads(x)) for x in g):
                out.append((i, e['trait'].split('::')[-1] + '::' + e['name'], e))
    return out


def external_callers(prog):
    """walk trait item path -> [(caller Fn, call term)] for callers that are not walk steps."""
    step_dps = {fn.dp for fn, _ in walk_fns(prog)}
    items = {fn.d.get('trait_item') for fn, _ in walk_fns(prog)}
    out = {}
    for f in prog.fns.values():
        if f.dp in step_dps:
            continue
        # a call made from a closure is a call of the function that owns the closure
        top = f
        while top.kind == 'Closure' and top.parent in prog.fns:
            top = prog.fns[top.parent]
        for b, t in f.body.calls(lambda c: c['path'] in items):
            out.setdefault(t['f']['path'], []).append((top, t))
    return out


# Archetype methods whose receiver is a stored (reachable) archetype: unwinding leaves it in the world.
UNDER_CONSTRUCTION = ('clone', 'deserialize', 'visit_seq', 'from_raw_parts', 'new', 'with_capacity', 'drop')


@rule('U1', props=['C17', 'C05'], floor={'all': 8, 'default': 7}, configs=('all', 'default'))
def u1_realloc_window(prog):
    """No user code can run between a call that may move a rebuilt column's buffer and the write-back of
    the new (ptr, capacity) into the column slot, and no such call itself runs user code."""
    r = Result()
    for fn, imp in walk_fns(prog):
        it, paths = traces(prog, fn)
        key = fn_key(fn, imp)
        found = False
        reported = set()
        for p in paths:
            if p.ended != 'return':
                continue
            evs = p.events
            us = user_sites(p)
            for i, e in enumerate(evs):
                if e['k'] == 'vec_method' and e['name'] in REALLOC and e['vec'][0] == 'vec' and vec_slot(e['vec']) is not None:
                    found = True
                    slot = vec_slot(e['vec'])
                    end = len(evs)
                    fw = set()
                    for j in range(i + 1, len(evs)):
                        w = evs[j]
                        if w['k'] == 'slot_write' and w['slot'][1:4] == slot:
                            end = j
                            break
                        if w['k'] == 'slot_field_write' and w['slot'][1:4] == slot:
                            fw.add(w['f'])
                            if fw >= {0, 1}:
                                end = j
                                break
                    if e['name'] in ELEMENT_CODE:
                        k = 'self:%s' % e['name']
                        if k not in reported:
                            reported.add(k)
                            r.viol('U1', key + '/realloc-runs-user-code/' + e['name'], fn.loc(e['ln']),
                                   'Vec::%s on a rebuilt column both runs element code (%s) and may move the buffer before the slot is updated: a panic leaves the column slot pointing at a freed or resized buffer' % (e['name'], ELEMENT_CODE[e['name']]), tag=fn.name)
                    for (ui, kind, ue) in us:
                        if i < ui < end:
                            k = 'win:%s:%s' % (e['name'], kind)
                            if k not in reported:
                                reported.add(k)
                                r.viol('U1', key + '/user-code-in-window/%s/%s' % (e['name'], kind), fn.loc(ue.get('ln')),
                                       'user code (%s) can unwind after Vec::%s may have moved the column buffer and before the slot is written back' % (kind, e['name']), tag=fn.name)
        if found:
            r.inst(key, tag=fn.name)
    return r


@rule('U2', props=['C17', 'C04'], floor={'all': 40, 'default': 30}, configs=('all', 'default'))
def u2_length_window(prog):
    """For every registry walk that shrinks or rewrites a rebuilt column (swap_remove / clear / truncate /
    clone_from / ...): no user code may run in the same walk after (or as part of) such a call, because
    the archetype's shared length is only published by the calling Archetype method afterwards —
    unwinding there leaves a reachable archetype whose column holds fewer (or different) values than
    `length` says, i.e. a later double drop. Growth (push/extend) before publication only leaks.
    Walks of objects under construction or destruction are exempt."""
    r = Result()
    callers = external_callers(prog)
    for fn, imp in walk_fns(prog):
        it, paths = traces(prog, fn)
        key = fn_key(fn, imp)
        r.inst(key, tag=fn.name)
        if fn.name in FREE_ROLE:
            continue
        shr = {}
        kinds = {}
        for p in paths:
            for e in p.events:
                if e['k'] == 'vec_method' and e['name'] in SHRINK and e['vec'][0] == 'vec' and vec_slot(e['vec']) is not None:
                    shr[e['name']] = e
            for (ui, kind, ue) in user_sites(p):
                kinds[kind] = ue
        if not shr or not kinds:
            continue
        # who calls this walk? only reachable-archetype methods matter
        cs = callers.get(fn.d.get('trait_item'), [])
        reach = [c for c, t in cs if c.name not in UNDER_CONSTRUCTION and not c.name.startswith('visit_')]
        if not reach:
            continue
        for c in sorted({x.path for x in reach}):
            cname = c.split('::')[-1] if '<impl' not in c else ('clone_from' if c.endswith('clone_from') else c.split('::')[-1])
            for sname in sorted(shr):
                for kind in sorted(kinds):
                    r.viol('U2', '%s/%s/%s/%s' % (cname, fn.name, sname, kind), fn.loc(shr[sname]['ln']),
                           'in %s (called from %s) user code (%s) can unwind after/while Vec::%s changed a column\'s contents but before the archetype length is published: the archetype stays reachable with a stale length (double drop later)' % (fn.name, cname, kind, sname), tag=fn.name)
    return r


@rule('U3', props=['C17', 'C04'], floor={'all': 45, 'default': 35}, configs=('all', 'default'))
def u3_raw_element_ops(prog):
    """Elements of a live column are only ever replaced by plain assignment (which drops the old value and
    still writes the new one if that drop unwinds) and only ever removed through Vec methods; no explicit
    drop_in_place / ptr::write / ptr::read / mem::forget / swap / replace on a column element or on a
    rebuilt column Vec, and a rebuilt Vec is never used unwrapped (outside the free-role walks): unwinding
    would otherwise drop the live column or leave a destructed value in place."""
    r = Result()
    for fn, imp in walk_fns(prog):
        it, paths = traces(prog, fn)
        key = fn_key(fn, imp)
        r.inst(key, tag=fn.name)
        seen = set()
        for p in paths:
            for e in p.events:
                if e['k'] == 'call' and e['name'] in RAW_DROP and e.get('tracked'):
                    tr = e['tracked']
                    col = [v for v in tr if col_derived(v)]
                    if col and (e['name'], 'raw') not in seen:
                        seen.add((e['name'], 'raw'))
                        r.viol('U3', key + '/raw-element-op/' + e['name'], fn.loc(e['ln']),
                               'explicit %s on a live column element: if user code unwinds between destroying and re-initialising the slot the value is dropped twice' % e['name'], tag=fn.name)
                if e['k'] in ('ptr_write', 'ptr_read') and fn.name not in FREE_ROLE:
                    s = e.get('dst') or e.get('src')
                    root = s
                    while root[0] == 'tptr':
                        root = root[1]
                    if root[0] == 'elemf' and (e['k'], 'col') not in seen:
                        seen.add((e['k'], 'col'))
                        r.viol('U3', key + '/raw-element-op/' + e['k'], fn.loc(e['ln']), 'raw %s directly on a column buffer (bypassing the rebuilt Vec)' % e['k'], tag=fn.name)
                fv = e.get('value') if e['k'] == 'forget' else None
                while fv is not None and fv[0] == 'md':
                    fv = fv[1]
                escaped_before = False
                if fv is not None and fv[0] == 'fresh':
                    # a fresh Vec not yet published: forgetting it is only a problem if its buffer was already stored
                    for w in p.events:
                        if w is e:
                            break
                        vals = [w['value']] if w['k'] == 'slot_write' else (w.get('args', []) if w['k'] == 'colvec_method' else [])
                        for val in vals:
                            if val and val[0] == 'tuple' and any(x[0] in ('vecptr', 'vecptr_u8') and x[1][:2] == fv[:2] for x in val[1]):
                                escaped_before = True
                if e['k'] == 'forget' and fv is not None and (fv[0] == 'vec' or (fv[0] == 'fresh' and escaped_before)) and ('forget', 0) not in seen:
                    seen.add(('forget', 0))
                    r.viol('U3', key + '/forget', fn.loc(e['ln']), 'mem::forget of a column Vec: until the forget is reached, unwinding drops the live column (use ManuallyDrop at creation)', tag=fn.name)
                if e['k'] == 'vec_method' and e['vec'][0] == 'vec' and e.get('unwrapped') and fn.name not in FREE_ROLE and ('unwrapped', e['name']) not in seen:
                    seen.add(('unwrapped', e['name']))
                    r.viol('U3', key + '/unwrapped-owner/' + e['name'], fn.loc(e['ln']),
                           'Vec::%s is called on a rebuilt column Vec that is not wrapped in ManuallyDrop: if it (or anything before the wrap) unwinds, the live column is freed by the temporary' % e['name'], tag=fn.name)
    return r
