"""pathsem: a general path-sensitive *symbolic shape* analysis over MIR.

Nothing is executed and no solver is involved: every acyclic-ish CFG path of a (small) function is walked
(loops unrolled at most MAX_VISITS times), locals and the memory reached through the parameters are
tracked as syntactic terms, branch decisions are recorded as path conditions over normalised atoms
(comparisons, enum discriminants, opaque bool calls) and calls are recorded as events.  Crate-local
closures / helper functions are walked inline (continuation passing), and the std combinators that take
closures (Option/Result/Iterator adaptors) are given structural models so that
`opt.filter(|s| ..).and_then(..)`, `match`, `if let`, `?`, let-else and early returns all produce the same
per-path facts.  Rules are predicates over the resulting paths (conditions, events, stores, return term).

Terms (hashable tuples)
  ('c', v)                      integer/bool constant
  ('k', text)                   other constant (unevaluated const, ZST, string)
  ('fn', path, dp, gargs)       function item
  ('p', i, name)                initial value of parameter i of the root function
  ('d', t)                      memory pointed to by t (initial content)
  ('f', base, i, adt)           field i of base (adt = printed ADT path / 'tuple' / 'closure')
  ('down', base, vname, vidx)   enum payload view
  ('r', loc)                    reference / raw pointer to a location term
  ('L', frame, n)               location of a local;  ('T', n) a temporary
  ('agg', kind, variant, vidx, fields)   aggregate value; kind = ADT path | 'tuple' | 'array' | 'closure:<dp>'
  ('bin', op, a, b) ('un', op, a) ('cast', kind, a, ty)
  ('discr', t)
  ('call', path, args, site)    opaque call result (site = None for calls treated as pure at one memory epoch)
  ('elem', it) ('pos', it)      symbolic element / position produced by an iterator term
  ('it', kind, inner, extra)    iterator adaptor
  ('unk', n)
"""
import sys
from .mir import *

sys.setrecursionlimit(20000)

MAX_PATHS = 6000
MAX_VISITS = 2
MAX_DEPTH = 6

NEG = {'Eq': 'Ne', 'Ne': 'Eq', 'Lt': 'Ge', 'Ge': 'Lt', 'Gt': 'Le', 'Le': 'Gt'}

PURE_NAMES = {'len', 'is_empty', 'is_active', 'is_some', 'is_none', 'is_ok', 'is_err', 'deref', 'deref_mut', 'as_ptr', 'as_mut_ptr', 'as_ref', 'as_mut',
              'borrow', 'borrow_mut', 'get', 'get_mut', 'get_unchecked', 'get_unchecked_mut', 'index', 'index_mut', 'as_slice', 'as_mut_slice',
              'first', 'last', 'capacity', 'contains_key', 'contains', 'type_id', 'of', 'size_of', 'as_str', 'iter', 'iter_mut', 'cast', 'add', 'offset', 'sub',
              'from_raw_parts', 'from_raw_parts_mut', 'split_first', 'split_first_mut', 'split_at', 'split_at_mut', 'split_last', 'clone', 'count_ones',
              'wrapping_add', 'wrapping_sub', 'unchecked_add', 'unchecked_sub', 'overflowing_add', 'overflowing_sub', 'saturating_add', 'saturating_sub', 'min', 'max', 'new', 'as_slice', 'hasher', 'eq', 'ne', 'lt', 'le', 'gt', 'ge',
              'component_len', 'check_len', 'check_len_against', 'copied', 'cloned', 'from', 'into', 'get_unchecked_mut', 'size_hint', 'unwrap_unchecked', 'unwrap', 'expect', 'as_bytes', 'to_owned'}


def _subst_ty(t, mapping):
    """Replace type parameters by name in a type (facts form)."""
    if isinstance(t, dict):
        if t.get('k') == 'param' and t.get('name') in mapping:
            return mapping[t['name']]
        return {k: _subst_ty(v, mapping) for k, v in t.items()}
    if isinstance(t, list):
        return [_subst_ty(x, mapping) for x in t]
    return t


def tstr(t, depth=0):
    """Compact rendering of a term."""
    if not isinstance(t, tuple) or not t:
        return str(t)
    if depth > 12:
        return '…'
    k = t[0]
    r = lambda x: tstr(x, depth + 1)
    if k == 'c':
        return str(t[1])
    if k == 'k':
        return str(t[1])
    if k == 'fn':
        return 'fn ' + t[1]
    if k == 'p':
        return t[2] or 'arg%d' % t[1]
    if k == 'd':
        return '*' + r(t[1])
    if k == 'f':
        return '%s.%s' % (r(t[1]), t[2])
    if k == 'down':
        return '(%s as %s)' % (r(t[1]), t[2])
    if k == 'r':
        return '&' + r(t[1])
    if k == 'L':
        return '_%d@%d' % (t[2], t[1])
    if k == 'T':
        return 'tmp%d' % t[1]
    if k == 'agg':
        nm = t[1].split('::')[-1] + ('::' + str(t[2]) if t[2] else '')
        return '%s(%s)' % (nm, ', '.join(r(x) for x in t[4]))
    if k == 'bin':
        return '%s(%s, %s)' % (t[1], r(t[2]), r(t[3]))
    if k == 'un':
        return '%s(%s)' % (t[1], r(t[2]))
    if k == 'cast':
        return 'cast(%s)' % r(t[2])
    if k == 'discr':
        return 'discr(%s)' % r(t[1])
    if k == 'call':
        return '%s(%s)' % (t[1].split('::')[-1], ', '.join(r(x) for x in t[2]))
    if k in ('elem', 'pos'):
        return '%s(%s)' % (k, r(t[1]))
    if k == 'it':
        return 'it:%s(%s)' % (t[1], r(t[2]))
    if k == 'upd':
        return 'upd(%s)' % r(t[1])
    return str(t)


def subterms(t, depth=0):
    if isinstance(t, tuple) and t and depth < 40:
        yield t
        for x in t:
            if isinstance(x, tuple):
                for y in subterms(x, depth + 1):
                    yield y


def mentions(t, pred):
    return any(pred(x) for x in subterms(t))


def strip_refs(t):
    """Peel reference/deref wrappers: the object a value term denotes."""
    while isinstance(t, tuple) and t and t[0] in ('r', 'd') and isinstance(t[1], tuple):
        t = t[1]
    return t


def field_chain(t):
    """[(adt, idx), ...] outermost-last for a value that is a chain of field reads (derefs / refs skipped)."""
    out = []
    while isinstance(t, tuple) and t:
        if t[0] == 'f':
            out.append((t[3], t[2]))
            t = t[1]
        elif t[0] in ('d', 'r', 'down'):
            t = t[1]
        elif t[0] == 'cast':
            t = t[2]
        else:
            break
    return list(reversed(out)), t


def is_field_of(t, adt_suffix, idx):
    """Is the (ref-stripped) term a read of field idx of an ADT whose path ends with adt_suffix?"""
    t = strip_refs(t)
    while isinstance(t, tuple) and t and t[0] == 'cast':
        t = strip_refs(t[2])
    return isinstance(t, tuple) and len(t) == 4 and t[0] == 'f' and t[2] == idx and isinstance(t[3], str) and (t[3] == adt_suffix or t[3].endswith('::' + adt_suffix))


class CondList(list):
    """[(atom, value)] plus, in .at, the number of events recorded when each condition was assumed."""
    def __init__(self, owner, items=(), at=()):
        list.__init__(self, items)
        self.owner = owner
        self.at = list(at)

    def append(self, x):
        list.append(self, x)
        self.at.append(len(self.owner.events))


class State:
    cur_block = None
    __slots__ = ('env', 'store', 'conds', 'events', 'visits', 'ctr', 'epoch', 'ended', 'ret', 'depth', 'notes')

    def __init__(self):
        self.env = {}
        self.store = {}
        self.events = []
        self.conds = CondList(self)      # [(atom, value)]  value: bool for bool atoms, int for ('discr', x); ('ne', v) for excluded discriminants
        self.visits = {}
        self.ctr = [0]
        self.epoch = 0
        self.ended = None
        self.ret = None
        self.depth = 0
        self.notes = []

    def clone(self):
        s = State()
        s.env = dict(self.env)
        s.store = dict(self.store)
        s.events = list(self.events)
        s.conds = CondList(s, self.conds, self.conds.at)
        s.visits = dict(self.visits)
        s.ctr = self.ctr          # shared counter: fresh names stay unique across forks
        s.epoch = self.epoch
        s.depth = self.depth
        s.notes = list(self.notes)
        return s

    def fresh(self):
        self.ctr[0] += 1
        return self.ctr[0]

    def ev(self, kind, **kw):
        kw['k'] = kind
        kw['i'] = len(self.events)
        kw['epoch'] = self.epoch
        kw.setdefault('block', State.cur_block)
        self.events.append(kw)
        return kw

    # ---- condition store ---------------------------------------------------------------------
    def lookup(self, atom):
        for a, v in self.conds:
            if a == atom and not (isinstance(v, tuple)):
                return v
        return None

    def excluded(self, atom):
        return [v[1] for a, v in self.conds if a == atom and isinstance(v, tuple)]

    def calls(self, pred=None):
        return [e for e in self.events if e['k'] == 'call' and (pred is None or pred(e))]

    def entered(self, pred=None):
        """Calls that were walked inline, in the shape of call events: the 'enter' event with 'ret' = the value the
        matching 'leave' returned (None if the path never came back), 'inlined' = True, 'leave' = index of the leave."""
        leaves = {e.get('enter'): e for e in self.events if e['k'] == 'leave' and e.get('enter') is not None}
        out = []
        for e in self.events:
            if e['k'] == 'enter' and (pred is None or pred(e)):
                lv = leaves.get(e['i'])
                out.append(dict(e, ret=lv['ret'] if lv else None, inlined=True, leave=lv['i'] if lv else None))
        return out

    def calls_any(self, pred=None):
        """opaque calls and calls walked inline, in path order"""
        return sorted(self.calls(pred) + self.entered(pred), key=lambda e: e['i'])

    def cond_true(self, pred):
        """atoms assumed True that satisfy pred"""
        return [a for a, v in self.conds if v is True and pred(a)]


def norm_cmp(op, a, b):
    """-> (atom, truth) with atom in canonical orientation: ('Eq', x, y) x<=y textual, ('Lt', x, y)."""
    if op == 'Ne':
        at, tr = norm_cmp('Eq', a, b)
        return at, not tr
    if op == 'Eq':
        x, y = sorted([a, b], key=repr)
        return ('bin', 'Eq', x, y), True
    if op == 'Lt':
        return ('bin', 'Lt', a, b), True
    if op == 'Gt':
        return ('bin', 'Lt', b, a), True
    if op == 'Ge':
        return ('bin', 'Lt', a, b), False
    if op == 'Le':
        return ('bin', 'Lt', b, a), False
    raise KeyError(op)


class Engine:
    def __init__(self, prog, fn, inline=None, max_paths=MAX_PATHS, max_visits=MAX_VISITS, max_depth=MAX_DEPTH, models=True, params=None, follow=None, inline_eq=False, consts=None, self_methods=None, unfold=None):
        """inline(callee Fn) -> bool decides which crate-local callees are walked inline in addition to
        closures (always) and the functions the rule set has never seen (vlib/baseline_fns.json)."""
        self.prog = prog
        self.fn = fn
        self.inline = inline or (lambda f: False)
        self.max_paths = max_paths
        self.max_visits = max_visits
        self.max_depth = max_depth
        self.paths = []
        self.truncated = False
        self.frames = 0
        self.models = models
        self.params = params or {}
        self.by_dp = prog.fns
        self.split_bool_ret = True
        self.discr_n = {}
        self._promoted = {}
        self.consts = consts or {}
        self.inline_eq = inline_eq
        # {(trait path, method name): Fn}: how calls on the generic `Self` of a provided trait method resolve
        # when that body is analysed for one particular impl
        self.self_methods = self_methods or {}
        # small-scope unfolding of a trait implemented by recursion over a cons list: {'trait': path, 'k': list length,
        # 'cons': impl, 'null': impl}. A call of a method of that trait whose receiver is the list's j-th tail
        # (j nested `.1` projections of a parameter) is walked in the cons impl for j < k and in the Null impl for j = k.
        self.unfold = unfold
        self.frame_level = {0: 0}
        # generic instantiation of callees walked inline: frame -> {type parameter name: type in the root function's terms}
        self.frame_subst = {}
        self.cur_frame = 0

    # ------------------------------------------------------------------------------------------
    def run(self):
        st = State()
        body = self.fn.body
        for l in range(1, body.argc + 1):
            st.env[(0, l)] = self.params.get(l, ('p', l, body.local_name(l) or ''))
        self.explore(st, self.fn, 0, 0, None)
        return self.paths

    def finish(self, st, how, ret=None):
        st.ended = how
        st.ret = ret
        self.paths.append(st)
        if len(self.paths) > self.max_paths:
            self.truncated = True

    # ---- places ------------------------------------------------------------------------------
    def base_adt(self, fn, place, upto):
        """printed ADT path (or 'tuple'/'closure') of the value projected from at step `upto` of place."""
        body = fn.body
        t = body.place_ty({'l': place['l'], 'p': place['p'][:upto]})
        if t is None:
            return '?'
        if t.get('k') == 'adt':
            return t['path']
        if t.get('k') == 'tuple':
            return 'tuple'
        if t.get('k') == 'closure':
            return 'closure'
        return t.get('k', '?')

    def loc_of(self, st, fn, frame, place):
        loc = ('L', frame, place['l'])
        for n, e in enumerate(place['p']):
            if e == '*':
                v = self.read(st, loc)
                if isinstance(v, tuple) and v[0] == 'r':
                    loc = v[1]
                else:
                    loc = ('d', v)
            elif isinstance(e, dict) and 'f' in e:
                loc = ('f', loc, e['f'], self.base_adt(fn, place, n))
            elif isinstance(e, dict) and 'variant' in e:
                loc = ('down', loc, e.get('vname'), e['variant'])
            elif isinstance(e, dict) and 'idx' in e:
                loc = ('ix', loc, self.read(st, ('L', frame, e['idx'])))
            elif isinstance(e, dict) and 'cidx' in e:
                loc = ('ix', loc, ('c', -1 - e['cidx'] if e.get('from_end') else e['cidx']))
            elif isinstance(e, dict) and 'sub_from' in e:
                loc = ('sub', loc, e['sub_from'], e['sub_to'], e.get('from_end'))
            else:
                loc = ('proj', loc, repr(e))
        return loc

    def read(self, st, loc):
        if loc in st.store:
            return st.store[loc]
        k = loc[0]
        if k == 'L':
            return st.env.get((loc[1], loc[2]), ('unk', 'uninit', loc[1], loc[2]))
        if k == 'f':
            return self.field(self.read(st, loc[1]), loc[2], loc[3])
        if k == 'down':
            b = self.read(st, loc[1])
            if isinstance(b, tuple) and b[0] == 'agg':
                return b
            return ('down', b, loc[2], loc[3])
        if k == 'ix':
            b = self.read(st, loc[1])
            if isinstance(b, tuple) and b[0] == 'agg' and b[1] in ('array', 'tuple') and loc[2][0] == 'c' and 0 <= loc[2][1] < len(b[4]):
                return b[4][loc[2][1]]
            return ('ix', b, loc[2])
        if k == 'T':
            return ('unk', 'tmp', loc[1])
        if k == 'd':
            return loc
        if k in ('sub', 'proj'):
            return (k, self.read(st, loc[1])) + tuple(loc[2:])
        return loc

    def field(self, v, i, adt):
        if isinstance(v, tuple):
            if v[0] == 'agg' and i < len(v[4]):
                return v[4][i]
            if v[0] == 'upd':
                for (j, x) in v[2]:
                    if j == i:
                        return x
                return self.field(v[1], i, adt)
        return ('f', v, i, adt)

    def write(self, st, fn, frame, place, v, ln=None):
        loc = self.loc_of(st, fn, frame, place)
        self.write_loc(st, loc, v, ln)

    def write_loc(self, st, loc, v, ln=None):
        if loc[0] == 'L':
            st.env[(loc[1], loc[2])] = v
            # forget stale sub-location stores of this local
            for k in [k for k in st.store if self.root_local(k) == loc]:
                del st.store[k]
            return
        root = self.root_local(loc)
        if root is not None and loc[0] == 'f' and loc[1] == root:
            # field write into a local aggregate
            cur = st.env.get((root[1], root[2]))
            if isinstance(cur, tuple) and cur[0] == 'agg' and loc[2] < len(cur[4]):
                f = list(cur[4])
                f[loc[2]] = v
                st.env[(root[1], root[2])] = cur[:4] + (tuple(f),)
                return
            if isinstance(cur, tuple) and cur[0] == 'upd':
                st.env[(root[1], root[2])] = ('upd', cur[1], tuple(x for x in cur[2] if x[0] != loc[2]) + ((loc[2], v),))
                return
            st.env[(root[1], root[2])] = ('upd', cur if cur is not None else ('unk', 'uninit', root[1], root[2]), ((loc[2], v),))
            return
        st.store[loc] = v
        if root is None:
            st.epoch += 1
            st.ev('store', loc=loc, value=v, ln=ln)
            # `*place = Struct { a, b }` stores every field: rules about one field see the same event they would
            # for `place.a = a`
            if isinstance(v, tuple) and v and v[0] == 'agg' and isinstance(v[1], str):
                adt = self.prog.adts.get(v[1])
                if adt is not None and len(adt['variants']) == 1 and len(adt['variants'][0]['fields']) == len(v[4]) and str(adt.get('kind', 'struct')).lower() != 'enum':
                    for i, fv in enumerate(v[4]):
                        st.ev('store', loc=('f', loc, i, v[1]), value=fv, ln=ln, synthetic=True, whole=loc)

    def root_local(self, loc):
        while isinstance(loc, tuple) and loc and loc[0] in ('f', 'down', 'ix', 'sub', 'proj'):
            loc = loc[1]
        return loc if isinstance(loc, tuple) and loc and loc[0] == 'L' else None

    def eval_place(self, st, fn, frame, place):
        return self.read(st, self.loc_of(st, fn, frame, place))

    # ---- operands / rvalues ------------------------------------------------------------------
    def operand(self, st, fn, frame, op):
        if 'const' in op:
            c = op['const']
            if 'fn' in c:
                f = c['fn']
                return ('fn', f['path'], (f.get('res') or f).get('dp', f['dp']), tuple(ty_key(strip_regions(a)) for a in f['args'] if a.get('k') != 'region'), f.get('name'))
            if 'val' in c:
                return ('c', c['val'])
            if 'uneval' in c and 'promoted' not in c:
                if c.get('uneval_name') in self.consts:
                    return ('c', self.consts[c['uneval_name']])
                if c['uneval'] in KNOWN_CONSTS:
                    return ('c', KNOWN_CONSTS[c['uneval']])
            if 'promoted' in c and fn.d.get('promoted') and c['promoted'] < len(fn.d['promoted']):
                v = self.eval_promoted(st, fn, c['promoted'])
                if v is not None:
                    return v
            if 'uneval' in c and 'promoted' not in c and self.unfold and c['uneval'].startswith(self.unfold['trait'] + '::'):
                v = self.unfold_const(fn, frame, c)
                if v is not None:
                    return v
            if 'uneval' in c and 'promoted' not in c and self.consts:
                # a named constant of this crate, when the analysis fixes the constants it is computed from
                # (e.g. LEN): its (branch-free or constant-branching) body is evaluated; anything symbolic is left as is
                v = self.eval_const(st, fn, c['uneval'])
                if v is not None:
                    return v
            if 'uneval' in c:
                return ('k', c['uneval'] + '<' + ','.join(ty_str(a) for a in c.get('uneval_args', []) if a.get('k') != 'region') + '>' + ('#p%d' % c['promoted'] if 'promoted' in c else ''))
            return ('k', c.get('s', '?'))
        p = op_place(op)
        if p is None:
            return ('unk', 'op')
        return self.eval_place(st, fn, frame, p)

    def negate(self, r):
        if r[0] == 'c':
            return ('c', int(not r[1]))
        if r[0] == 'un' and r[1] == 'Not':
            return r[2]
        if r[0] == 'bin' and r[1] in NEG:
            return ('bin', NEG[r[1]], r[2], r[3])
        return ('un', 'Not', r)

    def eval_promoted(self, st, fn, idx):
        """Value of a promoted constant of fn (straight-line bodies only)."""
        key = (fn.dp, idx)
        if key not in self._promoted:
            self._promoted[key] = Fn(dict(fn.d, mir=fn.d['promoted'][idx], dp=fn.dp + '::{promoted#%d}' % idx), self.prog)
        pf = self._promoted[key]
        if pf.body.n != 1 or pf.body.blocks[0]['term']['k'] != 'return':
            return None
        self.frames += 1
        frame = self.frames
        for s_ in pf.body.blocks[0]['stmts']:
            if s_['k'] == 'assign':
                self.write(st, pf, frame, s_['place'], self.rvalue(st, pf, frame, s_['rv']))
        return st.env.get((frame, 0))

    def unfold_const(self, fn, frame, c):
        """An associated const of the unfolded trait, asked of the list itself (`Self`) or of its tail: read from the
        cons or the Null impl according to the level of the frame asking."""
        u = self.unfold
        lvl = self.frame_level.get(frame, 0)
        ua = [a for a in c.get('uneval_args', []) if a.get('k') != 'region']
        if not ua:
            return None
        a = ua[0]
        tailp = u['cons']['self']['e'][1].get('name') if u['cons']['self'].get('k') == 'tuple' else None
        in_cons = fn.impl is not None and fn.impl.get('dp') == u['cons'].get('dp')
        if a.get('k') == 'param' and in_cons and a.get('name') == tailp:
            lvl += 1
        elif a.get('k') == 'param' and (a.get('name') == 'Self' or not in_cons):
            pass
        elif a.get('k') == 'tuple' and in_cons:
            pass
        else:
            return None
        imp = u['cons'] if lvl < u['k'] else u['null']
        name = c.get('uneval_name')
        own = [cd for cd in self.prog.consts.values() if cd.get('name') == name and cd.get('parent') == imp.get('dp')]
        dflt = [cd for cd in self.prog.consts.values() if cd.get('name') == name and cd.get('path') == u['trait'] + '::' + name]
        cd = (own or dflt or [None])[0]
        m = (cd or {}).get('mir') or {}
        if len(m.get('blocks', [])) != 1:
            return None
        val = None
        for s_ in m['blocks'][0]['stmts']:
            if s_['k'] == 'assign' and s_['place']['l'] == 0 and not s_['place']['p'] and s_['rv']['k'] == 'use' and 'const' in s_['rv']['op'] and 'val' in s_['rv']['op']['const']:
                val = ('c', s_['rv']['op']['const']['val'])
        return val

    def eval_const(self, st, fn, path):
        """Concrete value ('c', n) of the crate constant printed as `path`, or None."""
        if not hasattr(self, '_const_by_path'):
            self._const_by_path = {}
            for cd in self.prog.consts.values():
                self._const_by_path.setdefault(cd['path'], []).append(cd)
            self._const_busy = set()
        cds = self._const_by_path.get(path) or []
        if len(cds) != 1 or path in self._const_busy or not cds[0].get('mir'):
            return None
        cd = cds[0]
        self._const_busy.add(path)
        try:
            cf = Fn(dict(fn.d, mir=cd['mir'], dp=cd['dp'], promoted=cd.get('promoted') or []), self.prog)
            self.frames += 1
            frame = self.frames
            b = 0
            for _ in range(64):
                blk = cf.body.blocks[b]
                for s_ in blk['stmts']:
                    if s_['k'] == 'assign':
                        v_ = self.rvalue(st, cf, frame, s_['rv'])
                        if s_['rv']['k'] == 'binop' and s_['rv']['op'].endswith('WithOverflow') and v_[0] == 'c':
                            v_ = ('agg', 'tuple', None, 0, (v_, ('c', 0)))      # (value, overflowed): constants of a crate that compiles do not overflow
                        self.write(st, cf, frame, s_['place'], v_)
                t = blk['term']
                if t['k'] == 'return':
                    v = st.env.get((frame, 0))
                    return v if isinstance(v, tuple) and v[0] == 'c' and isinstance(v[1], int) else None
                if t['k'] in ('goto', 'assert'):
                    b = t['target']
                    continue
                if t['k'] == 'switch':
                    d = self.operand(st, cf, frame, t['discr'])
                    if d[0] != 'c':
                        return None
                    b = t['targets'][t['values'].index(d[1])] if d[1] in t['values'] else t['otherwise']
                    continue
                return None
            return None
        except Exception:
            return None
        finally:
            self._const_busy.discard(path)

    def operand_ty(self, fn, op):
        p = op_place(op)
        t = fn.body.place_ty(p) if p is not None else op.get('const', {}).get('ty')
        return t.get('name') if isinstance(t, dict) and t.get('k') == 'prim' else None

    def binop(self, op, a, b, ty=None):
        narrow = ty if ty in ('u8', 'u16', 'u32') else None
        if a[0] == 'c' and b[0] == 'c' and isinstance(a[1], int) and isinstance(b[1], int):
            x, y = a[1], b[1]
            m = MASK.get(ty, (1 << 64) - 1) if ty is None or not ty.startswith('i') else None
            wrap = (lambda v: v & m) if m is not None else (lambda v: v)
            try:
                if op in ('Add', 'AddUnchecked', 'AddWithOverflow'):
                    return ('c', wrap(x + y))
                if op in ('Sub', 'SubUnchecked', 'SubWithOverflow'):
                    return ('c', wrap(x - y)) if ty is not None else ('c', x - y)
                if op in ('Mul', 'MulUnchecked'):
                    return ('c', wrap(x * y))
                if op in ('Shl', 'ShlUnchecked'):
                    return ('c', wrap(x << (y % BITS.get(ty, 64))))
                if op in ('Shr', 'ShrUnchecked'):
                    return ('c', x >> (y % BITS.get(ty, 64)))
                if op == 'Div' and y:
                    return ('c', x // y)
                if op == 'Rem' and y:
                    return ('c', x % y)
                if op in ('Shl', 'ShlUnchecked'):
                    return ('c', x << y)
                if op in ('Shr', 'ShrUnchecked'):
                    return ('c', x >> y)
                if op == 'BitAnd':
                    return ('c', x & y)
                if op == 'BitOr':
                    return ('c', x | y)
                if op == 'BitXor':
                    return ('c', x ^ y)
                if op in NEG:
                    return ('c', int({'Eq': x == y, 'Ne': x != y, 'Lt': x < y, 'Le': x <= y, 'Gt': x > y, 'Ge': x >= y}[op]))
            except Exception:
                pass
        if op in ('AddUnchecked',):
            op = 'Add'
        if op in ('SubUnchecked',):
            op = 'Sub'
        if op in ('ShlUnchecked',):
            op = 'Shl'
        if op in ('ShrUnchecked',):
            op = 'Shr'
        if op in ('Add', 'Mul', 'BitAnd', 'BitOr', 'BitXor'):
            a, b = sorted([a, b], key=repr)
        if narrow and op not in NEG:
            return ('bin', op, a, b, narrow)
        return ('bin', op, a, b)

    def rvalue(self, st, fn, frame, rv):
        k = rv['k']
        if k == 'use':
            return self.operand(st, fn, frame, rv['op'])
        if k in ('ref', 'rawptr'):
            loc = self.loc_of(st, fn, frame, rv['place'])
            # &*x == x when x is a reference value
            pp = rv['place']['p']
            if pp and pp[-1] == '*':
                inner = self.eval_place(st, fn, frame, {'l': rv['place']['l'], 'p': pp[:-1]})
                if isinstance(inner, tuple) and inner[0] in ('r', 'p', 'call', 'f', 'elem', 'down', 'd'):
                    return inner
            return ('r', loc)
        if k == 'binop':
            return self.binop(rv['op'], self.operand(st, fn, frame, rv['a']), self.operand(st, fn, frame, rv['b']), self.operand_ty(fn, rv['a']))
        if k == 'unop':
            a = self.operand(st, fn, frame, rv['a'])
            ty = self.operand_ty(fn, rv['a'])
            if rv['op'] == 'Not' and ty not in (None, 'bool'):
                if a[0] == 'c' and ty in MASK:
                    return ('c', (~a[1]) & MASK[ty])
                return ('un', 'BitNot', a, ty)
            if rv['op'] == 'Not':
                if a[0] == 'c':
                    return ('c', int(not a[1])) if a[1] in (0, 1) else ('un', 'Not', a)
                if a[0] == 'un' and a[1] == 'Not':
                    return a[2]
            if rv['op'] == 'PtrMetadata':
                return ('call', 'len', (a,), None, st.epoch)
            return ('un', rv['op'], a)
        if k == 'cast':
            a = self.operand(st, fn, frame, rv['op'])
            ck = rv['cast']
            if a[0] == 'c' and ('IntToInt' in ck):
                return a
            if 'Unsize' in ck or 'PtrToPtr' in ck or 'Transmute' in ck or 'ReifyFnPointer' in ck or 'ClosureFnPointer' in ck or 'MutToConstPointer' in ck:
                if 'PtrToPtr' in ck or 'Transmute' in ck:
                    return ('cast', ck.split('(')[0], a, ty_key(strip_regions(rv['ty'])))
                return a
            return ('cast', ck.split('(')[0], a, ty_key(strip_regions(rv['ty'])))
        if k == 'discr':
            v = self.eval_place(st, fn, frame, rv['place'])
            d = self.discr(st, v)
            if d[0] == 'discr':
                t = fn.body.place_ty(rv['place'])
                if t is not None and t.get('k') == 'adt':
                    n = STD_VARIANTS.get(t['path'])
                    if n is None and t['path'] in self.prog.adts and self.prog.adts[t['path']].get('kind') == 'Enum':
                        n = len(self.prog.adts[t['path']]['variants'])
                    if n:
                        self.discr_n[d] = n
            return d
        if k == 'agg':
            ops = tuple(self.operand(st, fn, frame, o) for o in rv['ops'])
            a = rv['agg']
            if a == 'adt':
                return ('agg', rv['path'], rv.get('vname'), rv.get('variant', 0), ops)
            if a == 'closure':
                return ('agg', 'closure:' + rv['dp'], None, 0, ops)
            if a == 'rawptr':
                return ('agg', 'rawptr', None, 0, ops)
            return ('agg', a, None, 0, ops)
        if k == 'repeat':
            return ('agg', 'repeat', rv.get('n'), 0, (self.operand(st, fn, frame, rv['op']),))
        return ('unk', 'rv', rv.get('s', k))

    def discr(self, st, v):
        if isinstance(v, tuple) and v[0] == 'agg':
            return ('c', v[3])
        at = ('discr', v)
        kv = st.lookup(at)
        if kv is not None:
            return ('c', kv)
        return at

    # ---- assumptions -------------------------------------------------------------------------
    def truth(self, st, t):
        """Known truth value of a bool term under the path conditions, or None."""
        if t[0] == 'c':
            return bool(t[1])
        if t[0] == 'un' and t[1] == 'Not':
            r = self.truth(st, t[2])
            return None if r is None else (not r)
        if t[0] == 'bin' and t[1] in NEG:
            at, tr = norm_cmp(t[1], t[2], t[3])
            if at[1] == 'Eq' and at[2] == at[3]:
                return tr
            v = st.lookup(at)
            return None if v is None else (v == tr)
        if t[0] == 'bin' and t[1] in ('BitAnd', 'BitOr'):
            a, b = self.truth(st, t[2]), self.truth(st, t[3])
            if t[1] == 'BitAnd':
                if a is False or b is False:
                    return False
                if a is True and b is True:
                    return True
            else:
                if a is True or b is True:
                    return True
                if a is False and b is False:
                    return False
            return None
        return st.lookup(t)

    def assume(self, st, t, val):
        """Record that bool term t has truth value val (decomposing Not / And-true / Or-false)."""
        if t[0] == 'c':
            return
        if t[0] == 'un' and t[1] == 'Not':
            return self.assume(st, t[2], not val)
        if t[0] == 'bin' and t[1] in NEG:
            at, tr = norm_cmp(t[1], t[2], t[3])
            st.conds.append((at, val == tr))
            return
        if t[0] == 'bin' and t[1] == 'BitAnd' and val:
            self.assume(st, t[2], True)
            self.assume(st, t[3], True)
            return
        if t[0] == 'bin' and t[1] == 'BitOr' and not val:
            self.assume(st, t[2], False)
            self.assume(st, t[3], False)
            return
        st.conds.append((t, val))

    def fork_bool(self, st, t, k_true, k_false):
        """Continue with k_true / k_false under the two truth values of bool term t."""
        tv = self.truth(st, t)
        if tv is True:
            return k_true(st)
        if tv is False:
            return k_false(st)
        s2 = st.clone()
        self.assume(st, t, True)
        k_true(st)
        if self.truncated:
            return
        self.assume(s2, t, False)
        k_false(s2)

    def match_variant(self, st, v, arms, otherwise=None):
        """arms: {variant_idx: (vname, k(st, payload_base))}. Dispatch on the discriminant of enum value v."""
        if isinstance(v, tuple) and v[0] == 'agg':
            if v[3] in arms:
                return arms[v[3]][1](st, v)
            return otherwise(st) if otherwise else None
        at = ('discr', v)
        kv = st.lookup(at)
        if kv is not None:
            if kv in arms:
                return arms[kv][1](st, ('down', v, arms[kv][0], kv))
            return otherwise(st) if otherwise else None
        exc = st.excluded(at)
        todo = [(i, a) for i, a in sorted(arms.items()) if i not in exc]
        n = len(todo) + (1 if otherwise else 0)
        for j, (i, (vname, k)) in enumerate(todo):
            s = st.clone() if j < n - 1 else st
            s.conds.append((at, i))
            k(s, ('down', v, vname, i))
            if self.truncated:
                return
        if otherwise:
            for i, _ in todo:
                st.conds.append((at, ('ne', i)))
            otherwise(st)

    def match_option(self, st, v, k_some, k_none):
        self.match_variant(st, v, {1: ('Some', lambda s, b: k_some(s, self.field(b, 0, 'core::option::Option'))), 0: ('None', lambda s, b: k_none(s))})

    def match_result(self, st, v, k_ok, k_err):
        self.match_variant(st, v, {0: ('Ok', lambda s, b: k_ok(s, self.field(b, 0, 'core::result::Result'))), 1: ('Err', lambda s, b: k_err(s, self.field(b, 0, 'core::result::Result')))})

    # ---- exploration -------------------------------------------------------------------------
    def explore(self, st, fn, frame, b, cont):
        body = fn.body
        while True:
            if self.truncated:
                return
            key = (frame, b)
            st.visits[key] = st.visits.get(key, 0) + 1
            if st.visits[key] > self.max_visits:
                if cont is None or True:
                    self.finish(st, 'cutoff')
                return
            blk = body.blocks[b]
            for s in blk['stmts']:
                if s['k'] == 'assign':
                    v = self.rvalue(st, fn, frame, s['rv'])
                    self.write(st, fn, frame, s['place'], v, s.get('ln'))
                elif s['k'] == 'setdiscr':
                    pass
            t = blk['term']
            k = t['k']
            if k == 'goto':
                b = t['target']
                continue
            if k == 'return':
                rv = st.env.get((frame, 0), ('agg', 'tuple', None, 0, ()))
                if cont is None:
                    if body.local_ty(0).get('name') == 'bool' and rv[0] != 'c' and self.split_bool_ret:
                        self.fork_bool(st, rv, lambda s: self.finish(s, 'return', TRUE), lambda s: self.finish(s, 'return', FALSE))
                    else:
                        self.finish(st, 'return', rv)
                else:
                    cont(st, rv)
                return
            if k in ('unreachable',):
                self.finish(st, 'unreachable')
                return
            if k in ('resume', 'terminate'):
                self.finish(st, 'unwind')
                return
            if k == 'drop':
                v = self.eval_place(st, fn, frame, t['place'])
                try:
                    dl = self.loc_of(st, fn, frame, t['place'])
                except Exception:
                    dl = None
                st.ev('drop', value=v, loc=dl, ty=t.get('ty'), ln=t.get('ln'), fn=fn)
                b = t['target']
                continue
            if k == 'assert':
                c = self.operand(st, fn, frame, t['cond'])
                tv = self.truth(st, c)
                if tv is not None and tv != t['expected']:
                    self.finish(st, 'panic')
                    return
                self.assume(st, c, t['expected'])
                b = t['target']
                continue
            if k == 'switch':
                d = self.operand(st, fn, frame, t['discr'])
                is_bool = t['discr_ty'].get('name') == 'bool'
                vals, tgts, oth = t['values'], t['targets'], t['otherwise']
                if d[0] == 'c':
                    b = tgts[vals.index(d[1])] if d[1] in vals else oth
                    continue
                if is_bool:
                    ft = tgts[vals.index(0)] if 0 in vals else oth
                    tt = oth if 0 in vals else (tgts[vals.index(1)] if 1 in vals else oth)
                    self.fork_bool(st, d, lambda s, tt=tt: self.explore(s, fn, frame, tt, cont), lambda s, ft=ft: self.explore(s, fn, frame, ft, cont))
                    return
                # integer / discriminant switch
                known = st.lookup(d)
                if known is not None:
                    b = tgts[vals.index(known)] if known in vals else oth
                    continue
                exc = st.excluded(d)
                todo = [(v, tg) for v, tg in zip(vals, tgts) if v not in exc]
                # is `otherwise` feasible? for a discriminant of an enum whose variants are all listed it is not,
                # MIR marks that with an unreachable block
                oth_live = body.blocks[oth]['term']['k'] != 'unreachable'
                branches = todo + ([(None, oth)] if oth_live else [])
                if not branches:
                    self.finish(st, 'unreachable')
                    return
                nvar = self.discr_n.get(d)
                for j, (v, tg) in enumerate(branches):
                    s = st.clone() if j < len(branches) - 1 else st
                    if v is None:
                        rest = [x for x in range(nvar) if x not in vals and x not in exc] if nvar else []
                        if len(rest) == 1:
                            s.conds.append((d, rest[0]))      # the only variant left
                        else:
                            for vv, _ in todo:
                                s.conds.append((d, ('ne', vv)))
                    else:
                        s.conds.append((d, v))
                    self.explore(s, fn, frame, tg, cont)
                    if self.truncated:
                        return
                return
            if k in ('call', 'tailcall'):
                args = [self.operand(st, fn, frame, a) for a in t['args']]
                f = t['f']
                site = (fn.dp, b)
                State.cur_block = b

                def after(s, rv, t=t, fn=fn, frame=frame, cont=cont, k=k):
                    if k == 'tailcall':
                        if cont is None:
                            self.finish(s, 'return', rv)
                        else:
                            cont(s, rv)
                        return
                    if t['target'] is None:
                        self.finish(s, 'diverge')
                        return
                    self.write(s, fn, frame, t['dest'], rv, t.get('ln'))
                    self.explore(s, fn, frame, t['target'], cont)
                if 'path' not in f:
                    callee = self.operand(st, fn, frame, f['indirect']) if 'indirect' in f else ('unk', 'indirect')
                    self.call_value(st, callee, args, after, t, fn)
                    return
                self.cur_frame = frame
                self.call(st, f, args, after, t, fn)
                return
            self.finish(st, 'other:' + k)
            return

    # ---- calls -------------------------------------------------------------------------------
    def callee_fn(self, f):
        """Crate-local Fn for a call target (resolved impl method preferred)."""
        r = f.get('res')
        if self.self_methods and not r:
            ga = [a for a in f.get('args', []) if a.get('k') != 'region']
            if ga and ga[0].get('k') == 'param' and ga[0].get('name') == 'Self':
                m = self.self_methods.get((f['path'].rsplit('::', 1)[0], f.get('name') or f['path'].rsplit('::', 1)[-1]))
                if m is not None:
                    return m
        for cand in (r, f):
            if cand is f and f.get('trait') and not r:
                # unresolved trait method call: a provided body is only a default, unless nobody can override it
                from . import inline as _inl
                if not _inl._sole_body(self.prog.facts, f):
                    continue
            if cand and cand.get('local') and cand.get('dp') in self.by_dp:
                return self.by_dp[cand['dp']]
        return None

    def call(self, st, f, args, k, t, fn):
        sub = self.frame_subst.get(self.cur_frame)
        if sub:
            f = dict(f, args=[_subst_ty(a, sub) for a in f.get('args', [])])
            if f.get('res'):
                f['res'] = dict(f['res'], args=[_subst_ty(a, sub) for a in f['res'].get('args', [])])
        name = f.get('name') or f['path'].rsplit('::', 1)[-1]
        path = f['path']
        gargs = tuple(ty_key(strip_regions(a)) for a in f['args'] if a.get('k') != 'region')
        if self.unfold and f.get('trait') == self.unfold['trait'] and args and st.depth < self.max_depth + 2 * self.unfold['k'] + 4:
            lvl = tail_level(st, self, args[0])
            if lvl is not None and lvl <= self.unfold['k']:
                imp = self.unfold['cons'] if lvl < self.unfold['k'] else self.unfold['null']
                tgt = self.prog.impl_method_or_default(imp, name)
                if tgt is not None and tgt.dp != fn.dp or (tgt is not None and lvl > 0):
                    en = st.ev('enter', name=name, path=path, gargs=gargs, args=tuple(args), ln=t.get('ln'), fn=fn, f=f, callee=tgt, vals=self.snap(st, args))
                    return self.call_fn(st, tgt, args, k, None, enter=en['i'], level=lvl)
        callee = self.callee_fn(f)
        if self.models:
            m = MODELS.get(model_key(f))
            if m is not None:
                e = st.ev('call', name=name, path=path, gargs=gargs, args=tuple(args), ln=t.get('ln'), fn=fn, f=f, modelled=True, ret=None, vals=self.snap(st, args))
                return m(self, st, f, args, k, e)
        if callee is not None and st.depth < self.max_depth and (callee.kind == 'Closure' or self.inline(callee)) and callee.dp != fn.dp:
            en = st.ev('enter', name=name, path=path, gargs=gargs, args=tuple(args), ln=t.get('ln'), fn=fn, f=f, callee=callee, vals=self.snap(st, args))
            return self.call_fn(st, callee, args, k, self._inst_map(callee, f), enter=en['i'])
        self.opaque(st, f, name, path, gargs, args, k, t, fn)

    def opaque(self, st, f, name, path, gargs, args, k, t, fn):
        diverges = t.get('target') is None and t['k'] == 'call'
        pure = name in PURE_NAMES and not diverges
        if pure:
            # a pure callee only reads what its reference arguments point to: name the result by those values,
            # not by the temporaries that happen to hold them
            ret = ('call', path, self.snap(st, args), None, st.epoch)
        else:
            ret = ('call', path, tuple(args), st.fresh())
            st.epoch += 1
        e = st.ev('call', name=name, path=path, gargs=gargs, args=tuple(args), ln=t.get('ln'), fn=fn, f=f, ret=ret, diverges=diverges, vals=self.snap(st, args))
        # closures handed to an unmodelled callee may be run by it: walk them once (their events and forks
        # become part of the path, bracketed by closure_begin/closure_end)
        clos = [a for a in args if self.closure_of(st, a) is not None]
        if clos and st.depth < self.max_depth:
            e['runs_closure'] = True

            def step(s, i):
                if i == len(clos):
                    return k(s, ret)
                s.ev('closure_begin', opaque=True, call=e['i'])
                self.call_closure(s, clos[i], None, lambda s2, rv: (s2.ev('closure_end', opaque=True, call=e['i'], ret=rv), step(s2, i + 1))[1])
            return step(st, 0)
        k(st, ret)

    def snap(self, st, args):
        """values behind reference arguments at call time (locals / temporaries only)"""
        out = []
        for a in args:
            v = a
            n = 0
            while isinstance(v, tuple) and v and v[0] == 'r' and n < 4 and (self.root_local(v[1]) is not None or v[1][0] == 'T' or v[1] in st.store):
                v = self.read(st, v[1])
                n += 1
            out.append(v)
        return tuple(out)

    def closure_of(self, st, v):
        if isinstance(v, tuple) and v[0] == 'r':
            v = self.read(st, v[1])
        if isinstance(v, tuple) and v[0] == 'agg' and isinstance(v[1], str) and v[1].startswith('closure:'):
            return v
        return None

    def _inst_map(self, callee, f):
        """{callee type parameter: instantiation} for a resolved call (closures keep their parent's map)."""
        if callee.kind == 'Closure':
            return self.frame_subst.get(self.cur_frame)
        src = f.get('res') if (f.get('res') and f['res'].get('dp') == callee.dp) else (f if f.get('dp') == callee.dp else None)
        if src is None:
            return None
        ga = src.get('args') or []
        mp = {}
        for g in callee.d.get('generics') or []:
            if g.get('kind') == 'type' and isinstance(g.get('idx'), int) and g['idx'] < len(ga) and ga[g['idx']].get('k') != 'region':
                mp[g['name']] = ga[g['idx']]
        return mp or None

    def call_fn(self, st, callee, args, k, sub=None, enter=None, level=None):
        self.frames += 1
        frame = self.frames
        if self.unfold:
            self.frame_level[frame] = level if level is not None else self.frame_level.get(self.cur_frame, 0)
        if sub is None and callee.kind == 'Closure':
            sub = self.frame_subst.get(self.cur_frame)
        if sub:
            self.frame_subst[frame] = sub
        body = callee.body
        for i in range(body.argc):
            st.env[(frame, i + 1)] = args[i] if i < len(args) else ('unk', 'arg', i)
        st.depth += 1

        def ret(s, rv):
            s.depth -= 1
            s.ev('leave', callee=callee, ret=rv, enter=enter, outs=self.snap(s, args))
            k(s, rv)
        self.explore(st, callee, frame, 0, ret)

    def call_value(self, st, callee, args, k, t=None, fn=None):
        """Call through a value: closure, reference to closure, or fn item."""
        c = self.closure_of(st, callee)
        if c is not None:
            return self.call_closure(st, callee, args, k)
        if isinstance(callee, tuple) and callee[0] == 'fn':
            return self.call_fnitem(st, callee, args, k, t, fn)
        ret = ('call', 'indirect', (callee,) + tuple(args), st.fresh())
        st.epoch += 1
        st.ev('call', name='indirect', path='indirect', gargs=(), args=(callee,) + tuple(args), ln=(t or {}).get('ln'), fn=fn, f={}, ret=ret)
        k(st, ret)

    def call_fnitem(self, st, item, args, k, t=None, fn=None):
        dp = item[2]
        f = {'path': item[1], 'dp': dp, 'name': item[4], 'args': [], 'local': dp in self.by_dp, '_gargs': item[3]}
        callee = self.by_dp.get(dp)
        tt = t or {'k': 'call', 'target': 0}
        if self.models:
            m = MODELS.get(model_key(f))
            if m is not None:
                e = st.ev('call', name=f['name'], path=f['path'], gargs=item[3], args=tuple(args), ln=tt.get('ln'), fn=fn, f=f, modelled=True, ret=None)
                return m(self, st, f, list(args), k, e)
        if callee is not None and st.depth < self.max_depth and (callee.kind == 'Closure' or self.inline(callee)):
            en = st.ev('enter', name=f['name'], path=f['path'], gargs=item[3], args=tuple(args), ln=tt.get('ln'), fn=fn, f=f, callee=callee, vals=self.snap(st, args))
            return self.call_fn(st, callee, list(args), k, enter=en['i'])
        self.opaque(st, f, f['name'], f['path'], item[3], list(args), k, {'k': 'call', 'target': 0, 'ln': tt.get('ln')}, fn)

    def call_closure(self, st, cv, args, k, opaque=False, single=False):
        """cv: closure value or reference to one (or fn item). args: list of terms or None (unknown)."""
        if isinstance(cv, tuple) and cv[0] == 'fn':
            return self.call_fnitem(st, cv, args or [], k)
        c = self.closure_of(st, cv)
        if c is None:
            ret = ('call', 'indirect', (cv,) + tuple(args or ()), st.fresh())
            st.ev('call', name='indirect', path='indirect', gargs=(), args=(cv,) + tuple(args or ()), ln=None, fn=None, f={}, ret=ret)
            return k(st, ret)
        dp = c[1][len('closure:'):]
        callee = self.by_dp.get(dp)
        if callee is None or st.depth >= self.max_depth:
            ret = ('call', 'closure:' + dp, tuple(args or ()), st.fresh())
            return k(st, ret)
        body = callee.body
        envty = body.local_ty(1)
        if envty.get('k') == 'ref':
            if isinstance(cv, tuple) and cv[0] == 'r':
                envv = cv
            else:
                tl = ('T', st.fresh())
                st.store[tl] = c
                envv = ('r', tl)
        else:
            envv = c
        n = body.argc - 1
        if args is None:
            args = [('elem', ('unk', 'opaque-arg', st.fresh(), i)) for i in range(n)]
        args = list(args)
        while len(args) < n:
            args.append(('unk', 'arg', len(args)))
        if opaque:
            # walk one path only per branch? we walk all paths but join at the end is impossible in CPS;
            # for opaque closures the continuation does nothing, the events were appended to clones.
            pass
        self.call_fn(st, callee, [envv] + args[:n], k)


def model_key(f):
    p = f['path']
    return p


MODELS = {}
MASK = {'u8': 0xFF, 'u16': 0xFFFF, 'u32': 0xFFFFFFFF, 'u64': (1 << 64) - 1, 'usize': (1 << 64) - 1, 'u128': (1 << 128) - 1, 'bool': 1}
BITS = {'u8': 8, 'u16': 16, 'u32': 32, 'u64': 64, 'usize': 64, 'u128': 128, 'i8': 8, 'i16': 16, 'i32': 32, 'i64': 64, 'isize': 64, 'i128': 128}
KNOWN_CONSTS = {}
for _t, _b in (('u8', 8), ('u16', 16), ('u32', 32), ('u64', 64), ('usize', 64)):
    KNOWN_CONSTS['core::num::<impl %s>::MAX' % _t] = (1 << _b) - 1
    KNOWN_CONSTS['core::num::<impl %s>::MIN' % _t] = 0
    KNOWN_CONSTS['core::num::<impl %s>::BITS' % _t] = _b
STD_VARIANTS = {'core::option::Option': 2, 'core::result::Result': 2, 'core::ops::ControlFlow': 2, 'hashbrown::hash_map::Entry': 2, 'hashbrown::hash_map::RawEntryMut': 2,
                'alloc::borrow::Cow': 2, 'core::ops::Bound': 3}


def model(*paths):
    def deco(fn):
        for p in paths:
            MODELS[p] = fn
        return fn
    return deco


OPT = 'core::option::Option::<T>::'
RES = 'core::result::Result::<T, E>::'
SOME = lambda v: ('agg', 'core::option::Option', 'Some', 1, (v,))
NONE = ('agg', 'core::option::Option', 'None', 0, ())
OK = lambda v: ('agg', 'core::result::Result', 'Ok', 0, (v,))
ERR = lambda v: ('agg', 'core::result::Result', 'Err', 1, (v,))
TRUE = ('c', 1)
FALSE = ('c', 0)
UNIT = ('agg', 'tuple', None, 0, ())


def tmp_ref(st, v):
    tl = ('T', st.fresh())
    st.store[tl] = v
    return ('r', tl)


def as_bool_fork(E, st, r, k_true, k_false):
    E.fork_bool(st, r, k_true, k_false)


@model(OPT + 'is_some')
def m_is_some(E, st, f, a, k, e):
    E.match_option(st, E.deref_arg(st, a[0]), lambda s, x: k(s, TRUE), lambda s: k(s, FALSE))


@model(OPT + 'is_none')
def m_is_none(E, st, f, a, k, e):
    E.match_option(st, E.deref_arg(st, a[0]), lambda s, x: k(s, FALSE), lambda s: k(s, TRUE))


@model(RES + 'is_ok')
def m_is_ok(E, st, f, a, k, e):
    E.match_result(st, E.deref_arg(st, a[0]), lambda s, x: k(s, TRUE), lambda s, x: k(s, FALSE))


@model(RES + 'is_err')
def m_is_err(E, st, f, a, k, e):
    E.match_result(st, E.deref_arg(st, a[0]), lambda s, x: k(s, FALSE), lambda s, x: k(s, TRUE))


def deref_arg(self, st, v):
    """value behind a reference argument"""
    if isinstance(v, tuple) and v[0] == 'r':
        return self.read(st, v[1])
    return ('d', v)


Engine.deref_arg = deref_arg


@model(OPT + 'map')
def m_map(E, st, f, a, k, e):
    E.match_option(st, a[0], lambda s, x: E.call_closure(s, a[1], [x], lambda s2, r: k(s2, SOME(r))), lambda s: k(s, NONE))


@model(OPT + 'and_then')
def m_and_then(E, st, f, a, k, e):
    E.match_option(st, a[0], lambda s, x: E.call_closure(s, a[1], [x], k), lambda s: k(s, NONE))


@model(OPT + 'filter')
def m_filter(E, st, f, a, k, e):
    def some(s, x):
        E.call_closure(s, a[1], [tmp_ref(s, x)], lambda s2, r: E.fork_bool(s2, r, lambda s3: k(s3, SOME(x)), lambda s3: k(s3, NONE)))
    E.match_option(st, a[0], some, lambda s: k(s, NONE))


@model(OPT + 'map_or')
def m_map_or(E, st, f, a, k, e):
    E.match_option(st, a[0], lambda s, x: E.call_closure(s, a[2], [x], k), lambda s: k(s, a[1]))


@model(OPT + 'map_or_else')
def m_map_or_else(E, st, f, a, k, e):
    E.match_option(st, a[0], lambda s, x: E.call_closure(s, a[2], [x], k), lambda s: E.call_closure(s, a[1], [], k))


@model(OPT + 'is_some_and')
def m_is_some_and(E, st, f, a, k, e):
    E.match_option(st, a[0], lambda s, x: E.call_closure(s, a[1], [x], k), lambda s: k(s, FALSE))


@model(OPT + 'is_none_or')
def m_is_none_or(E, st, f, a, k, e):
    E.match_option(st, a[0], lambda s, x: E.call_closure(s, a[1], [x], k), lambda s: k(s, TRUE))


@model(OPT + 'ok_or')
def m_ok_or(E, st, f, a, k, e):
    E.match_option(st, a[0], lambda s, x: k(s, OK(x)), lambda s: k(s, ERR(a[1])))


@model(OPT + 'ok_or_else')
def m_ok_or_else(E, st, f, a, k, e):
    E.match_option(st, a[0], lambda s, x: k(s, OK(x)), lambda s: E.call_closure(s, a[1], [], lambda s2, r: k(s2, ERR(r))))


@model(OPT + 'unwrap_or')
def m_unwrap_or(E, st, f, a, k, e):
    E.match_option(st, a[0], lambda s, x: k(s, x), lambda s: k(s, a[1]))


@model(OPT + 'unwrap_or_else')
def m_unwrap_or_else(E, st, f, a, k, e):
    E.match_option(st, a[0], lambda s, x: k(s, x), lambda s: E.call_closure(s, a[1], [], k))


@model(OPT + 'or_else')
def m_or_else(E, st, f, a, k, e):
    E.match_option(st, a[0], lambda s, x: k(s, SOME(x)), lambda s: E.call_closure(s, a[1], [], k))


@model(OPT + 'unwrap_unchecked', OPT + 'unwrap', OPT + 'expect')
def m_unwrap(E, st, f, a, k, e):
    def none(s):
        if f['path'].endswith('unwrap_unchecked'):
            E.finish(s, 'unreachable')
        else:
            E.finish(s, 'panic')
    E.match_option(st, a[0], lambda s, x: k(s, x), none)


@model(RES + 'unwrap_unchecked', RES + 'unwrap', RES + 'expect')
def m_runwrap(E, st, f, a, k, e):
    def err(s, x):
        E.finish(s, 'unreachable' if f['path'].endswith('unwrap_unchecked') else 'panic')
    E.match_result(st, a[0], lambda s, x: k(s, x), err)


@model(OPT + 'as_ref', OPT + 'as_mut', OPT + 'as_deref', OPT + 'as_deref_mut')
def m_as_ref(E, st, f, a, k, e):
    v = E.deref_arg(st, a[0])
    E.match_option(st, v, lambda s, x: k(s, SOME(tmp_ref(s, x) if not (isinstance(x, tuple) and x[0] in ('f', 'd', 'down')) else ('r', x))), lambda s: k(s, NONE))


@model(OPT + 'copied', OPT + 'cloned', 'core::option::Option::<&T>::copied', 'core::option::Option::<&T>::cloned', 'core::option::Option::<&mut T>::copied', 'core::option::Option::<&mut T>::cloned')
def m_copied(E, st, f, a, k, e):
    E.match_option(st, a[0], lambda s, x: k(s, SOME(E.deref_arg(s, x))), lambda s: k(s, NONE))


@model('core::option::Option::<core::option::Option<T>>::flatten')
def m_flatten(E, st, f, a, k, e):
    E.match_option(st, a[0], lambda s, x: k(s, x), lambda s: k(s, NONE))


def _opt_loc(E, st, ref):
    """location behind a `&mut Option<T>` argument"""
    if isinstance(ref, tuple) and ref[0] == 'r':
        return ref[1]
    return ('d', ref)


@model(OPT + 'insert')
def m_opt_insert(E, st, f, a, k, e):
    loc = _opt_loc(E, st, a[0])
    E.write_loc(st, loc, SOME(a[1]), e.get('ln'))
    k(st, ('r', ('f', ('down', loc, 'Some', 1), 0, 'core::option::Option')))


@model(OPT + 'replace')
def m_opt_replace(E, st, f, a, k, e):
    loc = _opt_loc(E, st, a[0])
    old = E.read(st, loc)
    E.write_loc(st, loc, SOME(a[1]), e.get('ln'))
    k(st, old)


@model(OPT + 'get_or_insert', OPT + 'get_or_insert_with')
def m_get_or_insert(E, st, f, a, k, e):
    loc = _opt_loc(E, st, a[0])
    cur = E.read(st, loc)
    payload = ('r', ('f', ('down', loc, 'Some', 1), 0, 'core::option::Option'))

    def none(s):
        def fill(s2, v):
            E.write_loc(s2, loc, SOME(v), e.get('ln'))
            k(s2, payload)
        if f['path'].endswith('get_or_insert_with'):
            E.call_closure(s, a[1], [], fill)
        else:
            fill(s, a[1])
    E.match_option(st, cur, lambda s, x: k(s, payload), none)


@model(OPT + 'take')
def m_take(E, st, f, a, k, e):
    v = E.deref_arg(st, a[0])
    if isinstance(a[0], tuple) and a[0][0] == 'r':
        E.write_loc(st, a[0][1], NONE)
    k(st, v)


@model(RES + 'map')
def m_rmap(E, st, f, a, k, e):
    E.match_result(st, a[0], lambda s, x: E.call_closure(s, a[1], [x], lambda s2, r: k(s2, OK(r))), lambda s, x: k(s, ERR(x)))


@model(RES + 'map_err')
def m_rmap_err(E, st, f, a, k, e):
    E.match_result(st, a[0], lambda s, x: k(s, OK(x)), lambda s, x: E.call_closure(s, a[1], [x], lambda s2, r: k(s2, ERR(r))))


@model(RES + 'and_then')
def m_rand_then(E, st, f, a, k, e):
    E.match_result(st, a[0], lambda s, x: E.call_closure(s, a[1], [x], k), lambda s, x: k(s, ERR(x)))


@model(RES + 'ok')
def m_rok(E, st, f, a, k, e):
    E.match_result(st, a[0], lambda s, x: k(s, SOME(x)), lambda s, x: k(s, NONE))


@model(RES + 'err')
def m_rerr(E, st, f, a, k, e):
    E.match_result(st, a[0], lambda s, x: k(s, NONE), lambda s, x: k(s, SOME(x)))


@model(RES + 'map_or')
def m_rmap_or(E, st, f, a, k, e):
    E.match_result(st, a[0], lambda s, x: E.call_closure(s, a[2], [x], k), lambda s, x: k(s, a[1]))


@model(RES + 'unwrap_or_else')
def m_runwrap_or_else(E, st, f, a, k, e):
    E.match_result(st, a[0], lambda s, x: k(s, x), lambda s, x: E.call_closure(s, a[1], [x], k))


# `?`
@model('core::ops::Try::branch')
def m_branch(E, st, f, a, k, e):
    self_ty = f['args'][0] if f.get('args') else {}
    p = self_ty.get('path', '')
    CF = 'core::ops::ControlFlow'
    if p == 'core::option::Option':
        return E.match_option(st, a[0], lambda s, x: k(s, ('agg', CF, 'Continue', 0, (x,))), lambda s: k(s, ('agg', CF, 'Break', 1, (NONE,))))
    if p == 'core::result::Result':
        return E.match_result(st, a[0], lambda s, x: k(s, ('agg', CF, 'Continue', 0, (x,))), lambda s, x: k(s, ('agg', CF, 'Break', 1, (ERR(x),))))
    ret = ('call', f['path'], tuple(a), st.fresh())
    e['ret'] = ret
    k(st, ret)


@model('core::ops::FromResidual::from_residual')
def m_from_residual(E, st, f, a, k, e):
    v = a[0]
    if isinstance(v, tuple) and v[0] == 'agg' and v[1] == 'core::option::Option':
        return k(st, NONE)
    if isinstance(v, tuple) and v[0] == 'agg' and v[1] == 'core::result::Result' and v[2] == 'Err':
        return k(st, ERR(('call', 'core::convert::From::from', (v[4][0],), None, 0)))
    self_ty = f['args'][0] if f.get('args') else {}
    if self_ty.get('path') == 'core::option::Option':
        return k(st, NONE)
    if self_ty.get('path') == 'core::result::Result':
        return k(st, ERR(('call', 'core::convert::From::from', (('f', ('down', v, 'Err', 1), 0, 'core::result::Result'),), None, 0)))
    k(st, ('call', f['path'], tuple(a), st.fresh()))


# closures called through the Fn traits
@model('core::ops::FnOnce::call_once', 'core::ops::FnMut::call_mut', 'core::ops::Fn::call')
def m_fn_call(E, st, f, a, k, e):
    tup = a[1] if len(a) > 1 else UNIT
    if isinstance(tup, tuple) and tup[0] == 'agg':
        args = list(tup[4])
    else:
        args = None
    cv = a[0]
    if E.closure_of(st, cv) is not None or (isinstance(cv, tuple) and cv[0] == 'fn'):
        return E.call_closure(st, cv, args, k)
    if isinstance(cv, tuple) and cv[0] == 'r':
        inner = E.read(st, cv[1])
        if isinstance(inner, tuple) and inner[0] == 'fn':
            return E.call_closure(st, inner, args, k)
    ret = ('call', 'indirect', (cv,) + tuple(args or ()), st.fresh())
    e['ret'] = ret
    e['indirect'] = True
    k(st, ret)


@model('core::bool::<impl bool>::then')
def m_then(E, st, f, a, k, e):
    E.fork_bool(st, a[0], lambda s: E.call_closure(s, a[1], [], lambda s2, r: k(s2, SOME(r))), lambda s: k(s, NONE))


@model('core::bool::<impl bool>::then_some')
def m_then_some(E, st, f, a, k, e):
    E.fork_bool(st, a[0], lambda s: k(s, SOME(a[1])), lambda s: k(s, NONE))


# integer / reference comparisons written as method calls
def _cmp_model(op):
    def m(E, st, f, a, k, e):
        self_ty = f['args'][0] if f.get('args') else {}
        x, y = E.deref_arg(st, a[0]), E.deref_arg(st, a[1])
        # peel reference layers of &&T comparisons
        t = self_ty
        while t.get('k') == 'ref':
            x, y = E.deref_arg(st, x) if True else x, E.deref_arg(st, y)
            t = t['t']
        if t.get('k') == 'prim' and t['name'] in ('usize', 'u8', 'u16', 'u32', 'u64', 'u128', 'isize', 'i8', 'i16', 'i32', 'i64', 'i128', 'bool', 'char'):
            return k(st, E.binop(op, x, y))
        ret = ('call', f['path'], E.snap(st, a), None, st.epoch)
        e['ret'] = ret
        e['modelled'] = False
        # a crate-local PartialEq::eq (derived or hand written) is walked inline when asked for;
        # `ne` is the trait's default method: !eq
        if op in ('Eq', 'Ne') and t.get('k') == 'adt' and st.depth < E.max_depth:
            callee = None
            for imp in E.prog.facts['impls']:
                if imp['trait'] and imp['trait']['path'] == 'core::cmp::PartialEq' and imp['self'].get('k') == 'adt' and imp['self']['path'] == t['path']:
                    for it in imp['items']:
                        if it['dp'].endswith('::eq') and it['dp'] in E.by_dp:
                            callee = E.by_dp[it['dp']]
            if callee is not None and (E.inline_eq or E.inline(callee)):
                xa, ya = a[0], a[1]
                tt = self_ty
                while tt.get('k') == 'ref':
                    xa, ya = E.deref_arg(st, xa), E.deref_arg(st, ya)
                    tt = tt['t']
                return E.call_fn(st, callee, [xa, ya], (lambda s, r: k(s, r if op == 'Eq' else E.negate(r))))
        k(st, ret)
    return m


for _n, _op in (('eq', 'Eq'), ('ne', 'Ne')):
    MODELS['core::cmp::PartialEq::' + _n] = _cmp_model(_op)
for _n, _op in (('lt', 'Lt'), ('le', 'Le'), ('gt', 'Gt'), ('ge', 'Ge')):
    MODELS['core::cmp::PartialOrd::' + _n] = _cmp_model(_op)


@model('rayon::join', 'rayon_core::join::join', 'rayon_core::join')
def m_join(E, st, f, a, k, e):
    """rayon::join(a, b): both closures run (possibly in parallel); result (ra, rb)."""
    e['join'] = True
    st.ev('join_begin', call=e['i'])

    def after_a(s, ra):
        s.ev('join_mid', call=e['i'])
        E.call_closure(s, a[1], [], lambda s2, rb: (s2.ev('join_end', call=e['i']), k(s2, ('agg', 'tuple', None, 0, (ra, rb))))[1])
    E.call_closure(st, a[0], [], after_a)


# arithmetic / bit operators written through the operator traits (e.g. `&u8 & u8`)
def _arith_model(op):
    def m(E, st, f, a, k, e):
        tys = [x for x in f.get('args', []) if x.get('k') != 'region']
        vals = []
        prim = None
        for i, x in enumerate(a[:2]):
            t = tys[i] if i < len(tys) else {}
            while t.get('k') == 'ref':
                x = E.deref_arg(st, x)
                t = t['t']
            if t.get('k') == 'prim':
                prim = prim or t['name']
            else:
                prim = False
            vals.append(x)
        if prim:
            if op == 'Not':
                return k(st, ('c', (~vals[0][1]) & MASK.get(prim, (1 << 64) - 1)) if vals[0][0] == 'c' and prim != 'bool' else (E.negate(vals[0]) if prim == 'bool' else ('un', 'BitNot', vals[0], prim)))
            if len(vals) == 2:
                return k(st, E.binop(op, vals[0], vals[1], prim))
        ret = ('call', f['path'], E.snap(st, a), None, st.epoch)
        e['ret'] = ret
        e['modelled'] = False
        k(st, ret)
    return m


for _tr, _me, _op in (('BitAnd', 'bitand', 'BitAnd'), ('BitOr', 'bitor', 'BitOr'), ('BitXor', 'bitxor', 'BitXor'), ('Shl', 'shl', 'Shl'), ('Shr', 'shr', 'Shr'),
                      ('Add', 'add', 'Add'), ('Sub', 'sub', 'Sub'), ('Mul', 'mul', 'Mul'), ('Div', 'div', 'Div'), ('Rem', 'rem', 'Rem'), ('Not', 'not', 'Not')):
    MODELS['core::ops::%s::%s' % (_tr, _me)] = _arith_model(_op)


def _checked(op):
    def m(E, st, f, a, k, e):
        x, y = a[0], a[1]
        if op == 'Sub':
            return E.fork_bool(st, E.binop('Lt', x, y), lambda s: k(s, NONE), lambda s: k(s, SOME(E.binop('Sub', x, y))))
        ret = ('call', f['path'], E.snap(st, a), None, st.epoch)
        e['ret'] = ret
        k(st, ret)
    return m


for _t in ('usize', 'u8', 'u16', 'u32', 'u64'):
    MODELS['core::num::<impl %s>::checked_sub' % _t] = _checked('Sub')


# ---- iterators ---------------------------------------------------------------------------------
ITER = 'core::iter::Iterator::'
PASS_ADAPT = ('copied', 'cloned', 'rev', 'by_ref', 'peekable', 'fuse', 'skip', 'take', 'step_by', 'chain', 'into_iter', 'iter', 'iter_mut', 'into_par_iter', 'par_iter', 'par_iter_mut', 'drain')


def it_elem(E, st, it, k, depth=0, serial=None):
    """Produce (by continuation) the symbolic element an iterator term yields; runs adaptor closures."""
    if isinstance(it, tuple) and it[0] == 'r':
        inner = E.read(st, it[1])
        if isinstance(inner, tuple) and inner[0] in ('it', 'call', 'p', 'f', 'd', 'agg'):
            it = inner
    if isinstance(it, tuple) and it[0] == 'it' and depth < 8:
        kind, inner, extra = it[1], it[2], it[3]
        if kind == 'map':
            return it_elem(E, st, inner, lambda s, x: E.call_closure(s, extra, [x], k), depth + 1, serial)
        if kind == 'enumerate':
            return it_elem(E, st, inner, lambda s, x: k(s, ('agg', 'tuple', None, 0, (('pos', inner) if serial is None else ('pos', inner, serial), x))), depth + 1, serial)
        if kind in ('copied', 'cloned'):
            return it_elem(E, st, inner, lambda s, x: k(s, E.deref_arg(s, x)), depth + 1, serial)
        if kind == 'zip':
            return it_elem(E, st, inner, lambda s, x: it_elem(E, s, extra, lambda s2, y: k(s2, ('agg', 'tuple', None, 0, (x, y))), depth + 1), depth + 1)
        if kind == 'filter':
            def got(s, x):
                E.call_closure(s, extra, [tmp_ref(s, x)], lambda s2, r: (E.assume(s2, r, True) if E.truth(s2, r) is None else None, k(s2, x))[1] if E.truth(s2, r) is not False else None)
            return it_elem(E, st, inner, got, depth + 1, serial)
        if kind == 'filter_map':
            def got(s, x):
                E.call_closure(s, extra, [x], lambda s2, r: E.match_option(s2, r, lambda s3, y: k(s3, y), lambda s3: None))
            return it_elem(E, st, inner, got, depth + 1, serial)
        if kind in ('filter', 'filter_map', 'zip'):
            pass
        elif kind in PASS_ADAPT and kind not in ('iter', 'iter_mut', 'into_iter', 'drain', 'chain', 'skip', 'step_by', 'rev') and isinstance(inner, tuple) and (inner[0] == 'it' or (inner[0] == 'r' and isinstance(E.read(st, inner[1]), tuple) and E.read(st, inner[1])[0] == 'it')):
            return it_elem(E, st, inner, k, depth + 1, serial)
    return k(st, ('elem', it) if serial is None else ('elem', it, serial))


def _adapt(kind, closure_arg=None):
    def m(E, st, f, a, k, e):
        extra = a[closure_arg] if closure_arg is not None and len(a) > closure_arg else None
        k(st, ('it', kind, a[0], extra))
    return m


for _n in ('map', 'filter', 'filter_map', 'zip', 'inspect', 'take_while', 'skip_while', 'flat_map'):
    MODELS[ITER + _n] = _adapt(_n, 1)
for _n in ('enumerate', 'copied', 'cloned', 'rev', 'by_ref', 'peekable', 'fuse'):
    MODELS[ITER + _n] = _adapt(_n)
MODELS['core::iter::IntoIterator::into_iter'] = lambda E, st, f, a, k, e: k(st, a[0] if isinstance(a[0], tuple) and a[0][0] == 'it' else ('it', 'into_iter', a[0], None))
for _p in ('alloc::collections::VecDeque::<T, A>::iter', 'alloc::collections::VecDeque::<T, A>::iter_mut', 'alloc::vec::Vec::<T, A>::drain', 'hashbrown::HashMap::<K, V, S, A>::iter', 'hashbrown::HashMap::<K, V, S, A>::values', 'hashbrown::HashMap::<K, V, S, A>::values_mut', 'hashbrown::HashMap::<K, V, S, A>::iter_mut'):
    MODELS[_p] = (lambda nm: (lambda E, st, f, a, k, e: k(st, ('it', nm, a[0], None))))(_p.rsplit('::', 1)[-1])
MODELS['core::slice::<impl [T]>::iter'] = lambda E, st, f, a, k, e: k(st, ('it', 'iter', a[0], None))
MODELS['core::slice::<impl [T]>::iter_mut'] = lambda E, st, f, a, k, e: k(st, ('it', 'iter_mut', a[0], None))


def _two_way(E, st, it, k_empty, k_elem):
    """empty iteration | one symbolic iteration"""
    if isinstance(it, tuple) and it[0] == 'r':
        inner = E.read(st, it[1])
        if isinstance(inner, tuple) and inner[0] in ('it', 'call', 'p', 'f', 'd', 'agg'):
            it = inner
    s2 = st.clone()
    s2.conds.append((('nonempty', it), False))
    k_empty(s2)
    if E.truncated:
        return
    st.conds.append((('nonempty', it), True))
    it_elem(E, st, it, k_elem)


@model(ITER + 'for_each')
def m_for_each(E, st, f, a, k, e):
    _two_way(E, st, a[0], lambda s: k(s, UNIT), lambda s, x: E.call_closure(s, a[1], [x], lambda s2, r: k(s2, UNIT)))


@model(ITER + 'all')
def m_all(E, st, f, a, k, e):
    _two_way(E, st, a[0], lambda s: k(s, TRUE), lambda s, x: E.call_closure(s, a[1], [x], lambda s2, r: E.fork_bool(s2, r, lambda s3: k(s3, TRUE), lambda s3: k(s3, FALSE))))


@model(ITER + 'any')
def m_any(E, st, f, a, k, e):
    _two_way(E, st, a[0], lambda s: k(s, FALSE), lambda s, x: E.call_closure(s, a[1], [x], lambda s2, r: E.fork_bool(s2, r, lambda s3: k(s3, TRUE), lambda s3: k(s3, FALSE))))


@model(ITER + 'position')
def m_position(E, st, f, a, k, e):
    _two_way(E, st, a[0], lambda s: k(s, NONE), lambda s, x: E.call_closure(s, a[1], [x], lambda s2, r: E.fork_bool(s2, r, lambda s3: k(s3, SOME(('pos', a[0]))), lambda s3: k(s3, NONE))))


def _exhausted(E, st, it):
    """mark: the consumer ran the iterator to its end on this path (the symbolic element stands for all)"""
    if isinstance(it, tuple) and it[0] == 'r':
        inner = E.read(st, it[1])
        if isinstance(inner, tuple) and inner[0] in ('it', 'call', 'p', 'f', 'd', 'agg'):
            it = inner
    st.conds.append((('exhausted', it), True))


@model(ITER + 'find')
def m_find(E, st, f, a, k, e):
    _two_way(E, st, a[0], lambda s: k(s, NONE), lambda s, x: E.call_closure(s, a[1], [tmp_ref(s, x)], lambda s2, r: E.fork_bool(s2, r, lambda s3: k(s3, SOME(x)), lambda s3: (_exhausted(E, s3, a[0]), k(s3, NONE))[1])))


@model(ITER + 'find_map')
def m_find_map(E, st, f, a, k, e):
    _two_way(E, st, a[0], lambda s: k(s, NONE), lambda s, x: E.call_closure(s, a[1], [x], lambda s2, r: E.match_option(s2, r, lambda s3, y: k(s3, SOME(y)), lambda s3: (_exhausted(E, s3, a[0]), k(s3, NONE))[1])))


@model(ITER + 'fold')
def m_fold(E, st, f, a, k, e):
    # fold(iter, init, |acc, x| ..): no element -> init; one symbolic element -> closure(init, x)
    _two_way(E, st, a[0], lambda s: k(s, a[1]), lambda s, x: E.call_closure(s, a[2], [a[1], x], k))


@model(ITER + 'try_for_each')
def m_try_for_each(E, st, f, a, k, e):
    tys = [x for x in f.get('args', []) if x.get('k') == 'adt' and x.get('path') in ('core::option::Option', 'core::result::Result')]
    is_opt = bool(tys) and tys[-1]['path'] == 'core::option::Option'

    def body(s, x):
        def got(s2, r):
            if isinstance(r, tuple) and r[0] == 'agg' and r[1] == 'core::result::Result':
                return k(s2, r if r[2] == 'Err' else OK(UNIT))
            if isinstance(r, tuple) and r[0] == 'agg' and r[1] == 'core::option::Option':
                return k(s2, NONE if r[2] == 'None' else SOME(UNIT))
            if is_opt:
                return E.match_option(s2, r, lambda s3, y: k(s3, SOME(UNIT)), lambda s3: k(s3, NONE))
            E.match_result(s2, r, lambda s3, y: k(s3, OK(UNIT)), lambda s3, y: k(s3, ERR(y)))
        E.call_closure(s, a[1], [x], got)
    _two_way(E, st, a[0], lambda s: k(s, SOME(UNIT) if is_opt else OK(UNIT)), body)


@model(ITER + 'next')
def m_next(E, st, f, a, k, e):
    it = a[0]
    v = E.read(st, it[1]) if isinstance(it, tuple) and it[0] == 'r' else it
    st.epoch += 1
    if isinstance(v, tuple) and v[0] == 'it':
        n = st.fresh()
        s2 = st.clone()
        s2.conds.append((('next', v, n), 0))
        k(s2, NONE)
        if E.truncated:
            return
        st.conds.append((('next', v, n), 1))
        # a plain integer range yields lo, lo+1, ...: the k-th `next` on this path is lo + k
        root, kinds = iter_chain(v)
        if isinstance(root, tuple) and root[0] == 'agg' and root[1] == 'core::ops::Range' and len(root[4]) == 2 and all(kd in ('into_iter', 'by_ref', 'iter') for kd in kinds):
            before = len([1 for a_, val in st.conds[:-1] if isinstance(a_, tuple) and a_[0] == 'next' and a_[1] == v and val == 1])
            return k(st, SOME(E.binop('Add', root[4][0], ('c', before), 'usize')))
        return it_elem(E, st, v, lambda s, x: k(s, SOME(x)), serial=n)
    ret = ('call', f['path'], tuple(a), st.fresh())
    e['ret'] = ret
    e['modelled'] = False
    k(st, ret)


def _consumer(E, st, f, a, k, e):
    """extend / collect / from_iter / sum / count ...: drives a lazy adaptor chain; the adaptor closures are
    walked once on a symbolic element (their events are part of the path, marked by consume_begin/end)."""
    it = a[-1] if f['path'].endswith('extend') or f['path'].endswith('from_iter') else a[0]
    ret = ('call', f['path'], tuple(a), st.fresh())
    st.epoch += 1
    e['ret'] = ret
    e['consumer'] = True
    src = E.read(st, it[1]) if isinstance(it, tuple) and it[0] == 'r' else it
    if isinstance(src, tuple) and src[0] == 'it' and mentions(src, lambda x: x[0] == 'it' and x[1] in ('map', 'filter', 'filter_map', 'inspect')):
        st.ev('consume_begin', it=src)
        st.conds.append((('consumed', src), True))
        tys = [x for x in f.get('args', []) if x.get('k') != 'region']
        into = tys[-1]['path'] if tys and tys[-1].get('k') == 'adt' else ''

        def got(s, x):
            s.ev('consume_end', it=src, elem=x)
            # collecting fallible items into Result<_, E> / Option<_>: the first failing item decides
            if f['path'].endswith(('::collect', '::from_iter')) and isinstance(x, tuple) and x[0] == 'agg':
                if into == 'core::result::Result' and x[1] == 'core::result::Result':
                    return k(s, x if x[2] == 'Err' else OK(ret))
                if into == 'core::option::Option' and x[1] == 'core::option::Option':
                    return k(s, NONE if x[2] == 'None' else SOME(ret))
            k(s, ret)
        return it_elem(E, st, src, got)
    k(st, ret)


for _p in ('core::iter::Extend::extend', ITER + 'collect', 'core::iter::FromIterator::from_iter', ITER + 'count', ITER + 'sum', ITER + 'last', ITER + 'max', ITER + 'min',
           ITER + 'unzip', ITER + 'for_each_unused'):
    MODELS[_p] = _consumer


def tail_level(st, E, recv):
    """Number of `.1` steps from a parameter of the root function to the receiver (a reference to a tail of the list),
    or None."""
    t = recv
    n = 0
    for _ in range(40):
        if not isinstance(t, tuple) or not t:
            return None
        if t[0] == 'r':
            v = t[1]
            # a reference to a local / temporary: what it holds
            if isinstance(v, tuple) and v and v[0] in ('L', 'T') and v in st.store:
                t = st.store[v]
                continue
            if isinstance(v, tuple) and v and v[0] == 'L':
                try:
                    t = E.read(st, v)
                    continue
                except Exception:
                    return None
            t = v
            continue
        if t[0] == 'd':
            t = t[1]
            continue
        if t[0] == 'f' and t[3] == 'tuple':
            if t[2] == 1:
                n += 1
                t = t[1]
                continue
            return None
        if t[0] == 'p':
            return n
        if t[0] == 'L':
            if t[1] == 0 and 1 <= t[2] <= E.fn.body.argc:
                return n            # a parameter of the root function, named by its place
            try:
                t = E.read(st, t)
                continue
            except Exception:
                return None
        return None
    return None


def evaluate(t, leaf, depth=0):
    """Concrete value (int) of a term given leaf(t) -> int|None for opaque subterms; None if unknown."""
    if depth > 60 or not isinstance(t, tuple):
        return None
    v = leaf(t)
    if v is not None:
        return v
    if t[0] == 'c' and isinstance(t[1], int):
        return t[1]
    if t[0] == 'bin':
        a, b = evaluate(t[2], leaf, depth + 1), evaluate(t[3], leaf, depth + 1)
        if a is None or b is None:
            return None
        ty = t[4] if len(t) > 4 else 'usize'
        m = MASK.get(ty, (1 << 64) - 1)
        op = t[1].replace('WithOverflow', '').replace('Unchecked', '')
        try:
            return {'Add': lambda: (a + b) & m, 'Sub': lambda: (a - b) & m, 'Mul': lambda: (a * b) & m, 'Div': lambda: a // b, 'Rem': lambda: a % b,
                    'BitAnd': lambda: a & b, 'BitOr': lambda: a | b, 'BitXor': lambda: a ^ b, 'Shl': lambda: (a << (b % BITS.get(ty, 64))) & m, 'Shr': lambda: a >> (b % BITS.get(ty, 64)),
                    'Eq': lambda: int(a == b), 'Ne': lambda: int(a != b), 'Lt': lambda: int(a < b), 'Le': lambda: int(a <= b), 'Gt': lambda: int(a > b), 'Ge': lambda: int(a >= b)}[op]()
        except (KeyError, ZeroDivisionError):
            return None
    if t[0] == 'un':
        a = evaluate(t[2], leaf, depth + 1)
        if a is None:
            return None
        if t[1] == 'Not':
            return int(not a)
        if t[1] == 'BitNot':
            return (~a) & MASK.get(t[3] if len(t) > 3 else 'usize', (1 << 64) - 1)
        if t[1] == 'Neg':
            return -a
        return None
    if t[0] == 'cast':
        return evaluate(t[2], leaf, depth + 1)
    if t[0] in ('d', 'r'):
        return evaluate(t[1], leaf, depth + 1)
    return None


def iter_chain(it, depth=0):
    """-> (root term the iteration draws from, [adaptor kinds outermost first])"""
    kinds = []
    while isinstance(it, tuple) and it and depth < 20:
        depth += 1
        if it[0] == 'it':
            kinds.append(it[1])
            it = it[2]
        elif it[0] in ('r', 'd') and isinstance(it[1], tuple):
            it = it[1]
        elif it[0] == 'call' and it[1].rsplit('::', 1)[-1] in ('deref', 'deref_mut', 'as_slice', 'as_mut_slice', 'as_ref', 'as_mut', 'borrow', 'iter', 'iter_mut', 'into_iter') and it[2]:
            if it[1].rsplit('::', 1)[-1] in ('iter', 'iter_mut', 'into_iter'):
                kinds.append(it[1].rsplit('::', 1)[-1])
            it = it[2][0]
        else:
            break
    return it, kinds


def canon(t, depth=0):
    """Rewrite element/position terms to name the *source* of the iteration instead of the adaptor chain:
    ('elem', adaptors(root), n) -> ('elem', root, n). Lets rules compare elements across filter/map/enumerate."""
    if not isinstance(t, tuple) or depth > 40:
        return t
    if t and t[0] in ('elem', 'pos') and len(t) >= 2:
        return (t[0], canon(iter_chain(t[1])[0], depth + 1)) + tuple(t[2:])
    return tuple(canon(x, depth + 1) if isinstance(x, tuple) else x for x in t)


def lin(t, depth=0):
    """Linear normal form of an integer term: ({atom: coeff}, const) as a hashable pair."""
    from .sym import Lin
    if depth > 30 or not isinstance(t, tuple):
        return Lin.atom(t)
    if t[0] == 'c' and isinstance(t[1], int):
        return Lin.k(t[1])
    if t[0] == 'bin' and t[1] in ('Add', 'AddWithOverflow'):
        return lin(t[2], depth + 1) + lin(t[3], depth + 1)
    if t[0] == 'bin' and t[1] in ('Sub', 'SubWithOverflow'):
        return lin(t[2], depth + 1) - lin(t[3], depth + 1)
    if t[0] == 'bin' and t[1] == 'Mul':
        a, b = lin(t[2], depth + 1), lin(t[3], depth + 1)
        if a.is_const():
            return b.scale(a.const)
        if b.is_const():
            return a.scale(b.const)
    if t[0] == 'call' and t[1].rsplit('::', 1)[-1] in ('wrapping_add', 'unchecked_add', 'saturating_add') and len(t[2]) == 2:
        return lin(t[2][0], depth + 1) + lin(t[2][1], depth + 1)
    if t[0] == 'call' and t[1].rsplit('::', 1)[-1] in ('wrapping_sub', 'unchecked_sub', 'saturating_sub') and len(t[2]) == 2:
        return lin(t[2][0], depth + 1) - lin(t[2][1], depth + 1)
    if t[0] == 'f' and t[2] == 0 and isinstance(t[1], tuple) and t[1][0] == 'bin' and t[1][1].endswith('WithOverflow'):
        return lin(t[1], depth + 1)
    if t[0] == 'f' and t[2] == 0 and isinstance(t[1], tuple) and t[1][0] == 'call' and t[1][1].rsplit('::', 1)[-1] in ('overflowing_add', 'overflowing_sub') and len(t[1][2]) == 2:
        a, b = lin(t[1][2][0], depth + 1), lin(t[1][2][1], depth + 1)
        return a + b if t[1][1].endswith('add') else a - b
    if t[0] == 'cast' and t[1].startswith('IntToInt'):
        return lin(t[2], depth + 1)
    return Lin.atom(t)


def analyse(prog, fn, **kw):
    E = Engine(prog, fn, **kw)
    E.run()
    return E
