"""Program model over the exported facts: types, functions, CFG, dominators, small dataflow helpers."""
import json
from collections import defaultdict, deque

# ---------------------------------------------------------------------------------------------
# type trees


def ty_str(t):
    if t is None:
        return '?'
    k = t.get('k')
    if k == 'prim':
        return t['name']
    if k == 'param':
        return t['name']
    if k == 'tuple':
        return '(' + ', '.join(ty_str(e) for e in t['e']) + (',' if len(t['e']) == 1 else '') + ')'
    if k == 'ref':
        return '&' + ('mut ' if t['mut'] else '') + ty_str(t['t'])
    if k == 'ptr':
        return '*' + ('mut ' if t['mut'] else 'const ') + ty_str(t['t'])
    if k == 'slice':
        return '[' + ty_str(t['t']) + ']'
    if k == 'array':
        return '[' + ty_str(t['t']) + '; ' + t['len'] + ']'
    if k == 'adt':
        args = [ty_str(a) for a in t['args'] if a.get('k') != 'region']
        return t['path'].split('::')[-1] + ('<' + ', '.join(args) + '>' if args else '')
    if k == 'alias':
        args = t['args']
        if args and t.get('trait'):
            rest = [ty_str(a) for a in args[1:] if a.get('k') != 'region']
            return '<' + ty_str(args[0]) + ' as ' + t['trait'].split('::')[-1] + ('<' + ', '.join(rest) + '>' if rest else '') + '>::' + t['name']
        return t['def']
    if k == 'fndef':
        return 'fn:' + t['path']
    if k == 'closure':
        return 'closure:' + t['dp'].split('::', 1)[-1]
    if k == 'region':
        return t.get('s', "'_")
    if k == 'const':
        return t['s']
    return t.get('s', k)


def ty_key(t):
    return json.dumps(t, sort_keys=True)


def ty_eq(a, b):
    return strip_regions(a) == strip_regions(b)


def strip_regions(t):
    if isinstance(t, dict):
        if t.get('k') == 'region':
            return {'k': 'region'}
        return {k: strip_regions(v) for k, v in t.items() if k != 'r'}
    if isinstance(t, list):
        return [strip_regions(x) for x in t]
    return t


def is_param(t, name=None):
    return t is not None and t.get('k') == 'param' and (name is None or t['name'] == name)


def is_adt(t, suffix=None):
    return t is not None and t.get('k') == 'adt' and (suffix is None or t['path'] == suffix or t['path'].endswith('::' + suffix))


def ty_mentions(t, pred):
    """Does any node of the type tree satisfy pred?"""
    if isinstance(t, dict):
        if pred(t):
            return True
        return any(ty_mentions(v, pred) for v in t.values())
    if isinstance(t, list):
        return any(ty_mentions(x, pred) for x in t)
    return False


def ty_params(t):
    out = set()

    def p(n):
        if n.get('k') == 'param':
            out.add(n['name'])
        return False
    ty_mentions(t, p)
    return out


def peel_refs(t):
    while t is not None and t.get('k') in ('ref', 'ptr'):
        t = t['t']
    return t

# ---------------------------------------------------------------------------------------------
# places / operands


def place_str(p, body=None):
    s = '_%d' % p['l']
    if body is not None:
        n = body.local_name(p['l'])
        if n:
            s = n + '#%d' % p['l']
    for e in p['p']:
        if e == '*':
            s = '(*' + s + ')'
        elif 'f' in e:
            s += '.%d' % e['f']
        elif 'idx' in e:
            s += '[_%d]' % e['idx']
        elif 'cidx' in e:
            s += '[%s%d]' % ('-' if e['from_end'] else '', e['cidx'])
        elif 'variant' in e:
            s = '(' + s + ' as ' + str(e.get('vname') or e['variant']) + ')'
        elif 'sub_from' in e:
            s += '[%d..%s%d]' % (e['sub_from'], '-' if e['from_end'] else '', e['sub_to'])
        else:
            s += '.?'
    return s


def op_place(op):
    if op is None:
        return None
    return op.get('copy') or op.get('move')


def op_local(op):
    """Local of an operand that is a bare local (no projection), else None."""
    p = op_place(op)
    if p is not None and not p['p']:
        return p['l']
    return None


def op_const(op):
    return op.get('const') if op else None


def fn_short(f):
    """Readable callee name with generic args."""
    if 'indirect' in f:
        return 'indirect'
    args = [ty_str(a) for a in f['args'] if a.get('k') != 'region']
    return f['path'] + ('::<' + ', '.join(args) + '>' if args else '')


def op_str(op, body=None):
    if 'copy' in op:
        return place_str(op['copy'], body)
    if 'move' in op:
        return 'move ' + place_str(op['move'], body)
    if 'const' in op:
        c = op['const']
        if 'fn' in c:
            return 'fn ' + fn_short(c['fn'])
        if 'val' in c:
            return 'const %s_%s' % (c['val'], ty_str(c['ty']))
        if 'uneval' in c:
            a = [ty_str(x) for x in c.get('uneval_args', []) if x.get('k') != 'region']
            return 'const ' + c['uneval'] + ('<' + ', '.join(a) + '>' if a else '')
        return 'const ' + str(c.get('s')) + ':' + ty_str(c['ty'])
    return str(op)


def rv_str(rv, body=None):
    k = rv['k']
    if k == 'use':
        return op_str(rv['op'], body)
    if k == 'ref':
        return '&' + ('mut ' if rv['mut'] else '') + place_str(rv['place'], body)
    if k == 'rawptr':
        return '&raw ' + ('mut ' if rv['mut'] else 'const ') + place_str(rv['place'], body)
    if k == 'cast':
        return op_str(rv['op'], body) + ' as ' + ty_str(rv['ty']) + ' (' + rv['cast'][:20] + ')'
    if k == 'binop':
        return '%s(%s, %s)' % (rv['op'], op_str(rv['a'], body), op_str(rv['b'], body))
    if k == 'unop':
        return '%s(%s)' % (rv['op'], op_str(rv['a'], body))
    if k == 'discr':
        return 'discriminant(' + place_str(rv['place'], body) + ')'
    if k == 'agg':
        what = rv['agg']
        if what == 'adt':
            what = rv['path'].split('::')[-1] + '::' + rv['vname']
        elif what == 'closure':
            what = 'closure ' + rv['dp'].split('::', 1)[-1]
        return what + '{' + ', '.join(op_str(o, body) for o in rv['ops']) + '}'
    return rv.get('s', k)

# ---------------------------------------------------------------------------------------------


class Body:
    def __init__(self, mir):
        self.mir = mir
        self.blocks = mir['blocks']
        self.locals = mir['locals']
        self.argc = mir['argc']
        self.n = len(self.blocks)
        self._succ = None
        self._pred = None
        self._dom = None
        self._pdom = None

    def local_name(self, l):
        return self.locals[l].get('name')

    def local_ty(self, l):
        return self.locals[l]['ty']

    def locals_named(self, name):
        return [i for i, l in enumerate(self.locals) if l.get('name') == name]

    def arg_local(self, name):
        for i in range(1, self.argc + 1):
            if self.locals[i].get('name') == name:
                return i
        return None

    def place_ty(self, p):
        t = self.local_ty(p['l'])
        for e in p['p']:
            if e == '*':
                t = t.get('t') if t and t.get('k') in ('ref', 'ptr') else (t['args'][0] if t and t.get('k') == 'adt' and t['args'] else None)
            elif isinstance(e, dict) and 'f' in e:
                t = e['ty']
            elif isinstance(e, dict) and ('idx' in e or 'cidx' in e):
                t = t.get('t') if t else None
            elif isinstance(e, dict) and 'variant' in e:
                pass
            else:
                return None
        return t

    # -- CFG -----------------------------------------------------------------------------------
    def term(self, b):
        return self.blocks[b]['term']

    def normal_succ(self, b):
        t = self.blocks[b]['term']
        k = t['k']
        if k == 'goto':
            return [t['target']]
        if k == 'switch':
            return list(dict.fromkeys(t['targets'] + [t['otherwise']]))
        if k in ('drop', 'assert'):
            return [t['target']]
        if k == 'call':
            return [t['target']] if t['target'] is not None else []
        return []

    def unwind_succ(self, b):
        t = self.blocks[b]['term']
        u = t.get('unwind')
        if isinstance(u, int):
            return [u]
        return []

    def succ(self, b, unwind=False):
        s = self.normal_succ(b)
        if unwind:
            s = s + self.unwind_succ(b)
        return s

    def preds(self, unwind=False):
        pr = defaultdict(list)
        for b in range(self.n):
            for s in self.succ(b, unwind):
                pr[s].append(b)
        return pr

    def reachable(self, start=0, unwind=False, avoid=(), cut_edges=()):
        """Blocks reachable from start (inclusive) not entering `avoid`, not using cut_edges."""
        avoid = set(avoid)
        cut = set(cut_edges)
        if start in avoid:
            return set()
        seen = {start}
        dq = deque([start])
        while dq:
            b = dq.popleft()
            for s in self.succ(b, unwind):
                if s in seen or s in avoid or (b, s) in cut:
                    continue
                seen.add(s)
                dq.append(s)
        return seen

    def reachable_after(self, b, unwind=False, avoid=(), cut_edges=()):
        """Blocks reachable from the *successors* of b (b itself only if on a cycle)."""
        out = set()
        for s in self.succ(b, unwind):
            if (b, s) in set(cut_edges):
                continue
            out |= self.reachable(s, unwind, avoid, cut_edges)
        return out

    def dominators(self):
        """Dominator sets over the normal (non-unwind) CFG from block 0."""
        if self._dom is not None:
            return self._dom
        reach = self.reachable(0)
        order = sorted(reach)
        pr = self.preds()
        dom = {b: set(order) for b in order}
        dom[0] = {0}
        changed = True
        while changed:
            changed = False
            for b in order:
                if b == 0:
                    continue
                ps = [p for p in pr[b] if p in reach]
                new = set.intersection(*[dom[p] for p in ps]) if ps else set()
                new = new | {b}
                if new != dom[b]:
                    dom[b] = new
                    changed = True
        self._dom = dom
        return dom

    def dominates(self, a, b):
        d = self.dominators()
        return b in d and a in d[b]

    def return_blocks(self):
        return [b for b in range(self.n) if self.blocks[b]['term']['k'] == 'return']

    def edge_dominates(self, edge, b):
        """Every normal path from entry to b uses edge (a->t)."""
        if b not in self.reachable(0):
            return False
        return b not in self.reachable(0, cut_edges=[edge])

    def must_pass(self, start, through, ends, unwind=False):
        """Every path from `start` to any block in `ends` passes through a block in `through`?"""
        r = self.reachable(start, unwind, avoid=through)
        return not (r & set(ends))

    # -- enumeration -----------------------------------------------------------------------------
    def calls(self, pred=None):
        out = []
        for b in range(self.n):
            t = self.blocks[b]['term']
            if t['k'] in ('call', 'tailcall') and 'path' in t['f']:
                if pred is None or pred(t['f']):
                    out.append((b, t))
        return out

    def stmts(self):
        for b in range(self.n):
            for i, s in enumerate(self.blocks[b]['stmts']):
                yield b, i, s

    def assigns_to(self, l):
        """(block, index, stmt) assigning exactly local l; also calls with dest l as (block, None, term)."""
        out = []
        for b, i, s in self.stmts():
            if s['k'] == 'assign' and s['place']['l'] == l and not s['place']['p']:
                out.append((b, i, s))
        for b in range(self.n):
            t = self.blocks[b]['term']
            if t['k'] == 'call' and t['dest']['l'] == l and not t['dest']['p']:
                out.append((b, None, t))
        return out

    def dump(self):
        lines = []
        for i, l in enumerate(self.locals):
            lines.append('  let _%d%s: %s' % (i, ' /*%s*/' % l['name'] if l.get('name') else '', ty_str(l['ty'])))
        for b in range(self.n):
            blk = self.blocks[b]
            lines.append(' bb%d%s:' % (b, ' (cleanup)' if blk['cleanup'] else ''))
            for s in blk['stmts']:
                if s['k'] == 'assign':
                    lines.append('    %s = %s   // L%d' % (place_str(s['place'], self), rv_str(s['rv'], self), s['ln']))
                else:
                    lines.append('    %s' % json.dumps(s)[:150])
            t = blk['term']
            k = t['k']
            if k in ('call', 'tailcall'):
                f = t['f']
                lines.append('    %s = %s(%s) -> %s unwind %s   // L%d' % (
                    place_str(t['dest'], self) if 'dest' in t else '-',
                    fn_short(f) + (' [=> ' + f['res']['path'] + ']' if 'res' in f else ''),
                    ', '.join(op_str(a, self) for a in t['args']), t.get('target'), t.get('unwind'), t['ln']))
            elif k == 'switch':
                lines.append('    switch %s [%s] else %d' % (op_str(t['discr'], self), ', '.join('%d→bb%d' % (v, tg) for v, tg in zip(t['values'], t['targets'])), t['otherwise']))
            elif k == 'drop':
                lines.append('    drop(%s: %s) -> %d unwind %s   // L%d' % (place_str(t['place'], self), ty_str(t['ty']), t['target'], t['unwind'], t['ln']))
            elif k == 'goto':
                lines.append('    goto %d' % t['target'])
            elif k == 'assert':
                lines.append('    assert(%s == %s) -> %d' % (op_str(t['cond'], self), t['expected'], t['target']))
            else:
                lines.append('    ' + k)
        return '\n'.join(lines)


class Fn:
    def __init__(self, d, prog):
        self.d = d
        self.prog = prog
        self.dp = d['dp']
        self.path = d['path']
        self.name = d.get('name') or d['dp'].rsplit('::', 1)[-1]
        self.kind = d['kind']
        self.parent = d.get('parent')
        self.body = Body(d['mir'])
        self.file = d['span']['file']
        self.line = d['span']['line']

    @property
    def impl(self):
        return self.prog.impls.get(self.parent)

    def loc(self, ln=None):
        return '%s:%d' % (self.file, ln if ln else self.line)

    def closures(self):
        """Closure bodies defined (transitively) inside this fn."""
        out = []
        for f in self.prog.fns.values():
            if f.kind == 'Closure' and f.dp.startswith(self.dp + '::'):
                out.append(f)
        return out

    def __repr__(self):
        return '<Fn %s>' % self.path


class Program:
    def __init__(self, facts):
        self.facts = facts
        self.impls = {i['dp']: i for i in facts['impls']}
        self.traits = {t['path']: t for t in facts['traits']}
        self.adts = {a['path']: a for a in facts['adts']}
        self.fns = {}
        for d in facts['fns']:
            self.fns[d['dp']] = Fn(d, self)
        self.by_path = defaultdict(list)
        for f in self.fns.values():
            self.by_path[f.path].append(f)
        self.consts = {c['dp']: c for c in facts.get('consts', [])}

    def fn(self, path):
        """Unique fn by exact printed path."""
        c = self.by_path.get(path, [])
        if len(c) != 1:
            raise KeyError('fn %r: %d candidates' % (path, len(c)))
        return c[0]

    def find_fns(self, pred):
        return [f for f in self.fns.values() if pred(f)]

    def fns_named(self, name, path_contains=None):
        return [f for f in self.fns.values() if f.name == name and (path_contains is None or path_contains in f.path)]

    def impls_of(self, trait_suffix):
        return [i for i in self.facts['impls'] if i['trait'] and (i['trait']['path'] == trait_suffix or i['trait']['path'].endswith('::' + trait_suffix))]

    def impl_methods(self, impl):
        return [self.fns[it['dp']] for it in impl['items'] if it['kind'] == 'AssocFn' and it['dp'] in self.fns]

    def impl_method_or_default(self, impl, name):
        """The impl's own method `name`, or — when the impl does not override it — the trait's provided body."""
        for f in self.impl_methods(impl):
            if f.name == name:
                return f
        if impl.get('trait'):
            want = impl['trait']['path'] + '::' + name
            for f in self.fns.values():
                if f.path == want and f.kind == 'AssocFn' and not f.impl:
                    return f
        return None

# ---------------------------------------------------------------------------------------------
# reads / writes / def-use helpers


def rv_operands(rv):
    """All operands (as dicts) and raw places read by an rvalue → list of places."""
    k = rv['k']
    out = []
    if k in ('use', 'cast', 'repeat'):
        p = op_place(rv['op'])
        if p:
            out.append(p)
    elif k in ('ref', 'rawptr', 'discr'):
        out.append(rv['place'])
    elif k == 'binop':
        for o in (rv['a'], rv['b']):
            p = op_place(o)
            if p:
                out.append(p)
    elif k == 'unop':
        p = op_place(rv['a'])
        if p:
            out.append(p)
    elif k == 'agg':
        for o in rv['ops']:
            p = op_place(o)
            if p:
                out.append(p)
    return out


def place_locals(p):
    ls = {p['l']}
    for e in p['p']:
        if isinstance(e, dict) and 'idx' in e:
            ls.add(e['idx'])
    return ls


def stmt_reads(s):
    """Set of locals whose value is read by statement s (assign)."""
    out = set()
    if s['k'] == 'assign':
        for p in rv_operands(s['rv']):
            out |= place_locals(p)
        # writing through a projection reads the base pointer
        if s['place']['p']:
            out |= place_locals(s['place'])
    return out


def term_reads(t):
    out = set()
    k = t['k']
    if k in ('call', 'tailcall'):
        for a in t['args']:
            p = op_place(a)
            if p:
                out |= place_locals(p)
        if 'indirect' in t['f']:
            p = op_place(t['f']['indirect'])
            if p:
                out |= place_locals(p)
    elif k == 'switch':
        p = op_place(t['discr'])
        if p:
            out |= place_locals(p)
    elif k == 'drop':
        out |= place_locals(t['place'])
    elif k == 'assert':
        p = op_place(t['cond'])
        if p:
            out |= place_locals(p)
    return out


def derived(body, seeds, through_calls=True):
    """Flow-insensitive forward closure: locals whose value may be computed from any seed local."""
    d = set(seeds)
    changed = True
    while changed:
        changed = False
        for b in range(body.n):
            for s in body.blocks[b]['stmts']:
                if s['k'] == 'assign' and s['place']['l'] not in d and (stmt_reads(s) - ({s['place']['l']} if s['place']['p'] else set())) & d:
                    # only value reads count (not the base pointer of the written place)
                    rd = set()
                    for p in rv_operands(s['rv']):
                        rd |= place_locals(p)
                    if rd & d:
                        d.add(s['place']['l'])
                        changed = True
            t = body.blocks[b]['term']
            if through_calls and t['k'] == 'call' and t['dest']['l'] not in d and term_reads(t) & d:
                d.add(t['dest']['l'])
                changed = True
    return d


def single_def(body, l):
    """The unique definition of local l: ('assign', b, i, stmt) | ('call', b, term) | None."""
    if l <= body.argc and l != 0:
        return None
    defs = body.assigns_to(l)
    if len(defs) != 1:
        return None
    b, i, s = defs[0]
    if i is None:
        return ('call', b, s)
    return ('assign', b, i, s)


DEREF_CALLS = ('core::ops::Deref::deref', 'core::ops::DerefMut::deref_mut',
               'core::borrow::Borrow::borrow', 'core::borrow::BorrowMut::borrow_mut',
               'core::convert::AsRef::as_ref', 'core::convert::AsMut::as_mut')
WRAP_CALLS = ('core::mem::ManuallyDrop::<T>::new',)


class Access:
    """Canonical access path of a value: root local (an argument or a multiply-assigned local) plus a
    list of steps ('*', ('f', idx), 'deref()', ...)."""

    def __init__(self, root, steps):
        self.root = root
        self.steps = tuple(steps)

    def key(self):
        return (self.root, self.steps)

    def __eq__(self, o):
        return isinstance(o, Access) and self.key() == o.key()

    def __hash__(self):
        return hash(self.key())

    def fields(self):
        return [s[1] for s in self.steps if isinstance(s, tuple) and s[0] == 'f']

    def __repr__(self):
        s = '_%d' % self.root
        for st in self.steps:
            if st == '*':
                s = '*' + s
            elif isinstance(st, tuple) and st[0] == 'f':
                s += '.%d' % st[1]
            else:
                s += '.' + str(st)
        return s


def _proj_steps(p):
    out = []
    for e in p['p']:
        if e == '*':
            out.append('*')
        elif isinstance(e, dict) and 'f' in e:
            out.append(('f', e['f']))
        elif isinstance(e, dict) and 'variant' in e:
            out.append(('v', e['variant']))
        elif isinstance(e, dict) and 'idx' in e:
            out.append(('idx', e['idx']))
        else:
            out.append(('?', json.dumps(e, sort_keys=True)))
    return out


def access_of_place(body, p, depth=0):
    """Follow unique definitions backwards through refs / copies / deref calls / ManuallyDrop::new."""
    base = access_of_local(body, p['l'], depth)
    return Access(base.root, list(base.steps) + _proj_steps(p))


def access_of_local(body, l, depth=0):
    if depth > 40:
        return Access(l, [])
    d = single_def(body, l)
    if d is None:
        return Access(l, [])
    if d[0] == 'assign':
        rv = d[3]['rv']
        if rv['k'] == 'use':
            p = op_place(rv['op'])
            if p is not None:
                return access_of_place(body, p, depth + 1)
        elif rv['k'] in ('ref', 'rawptr'):
            a = access_of_place(body, rv['place'], depth + 1)
            return Access(a.root, list(a.steps) + ['&'])
        elif rv['k'] == 'cast' and rv['cast'].startswith(('PtrToPtr', 'PointerCoercion')):
            p = op_place(rv['op'])
            if p is not None:
                return access_of_place(body, p, depth + 1)
    else:
        t = d[2]
        f = t['f']
        if 'path' in f and (f['path'] in DEREF_CALLS) and t['args']:
            p = op_place(t['args'][0])
            if p is not None:
                a = access_of_place(body, p, depth + 1)
                return Access(a.root, list(a.steps) + ['deref()'])
    return Access(l, [])


def normalize_access(a):
    """Cancel '&' followed by '*' and drop 'deref()' markers so that `&mut (*self).1` then `*` equals
    `(*self).1`."""
    out = []
    for s in a.steps:
        if s == '*' and out and out[-1] in ('&',):
            out.pop()
            continue
        out.append(s)
    return Access(a.root, out)


def field_path(body, a):
    """Field index path from the root, ignoring derefs/refs: e.g. self.free → [1]."""
    return [s[1] for s in a.steps if isinstance(s, tuple) and s[0] == 'f']


def callee_is(f, *names):
    """Match a callee by its generic path (e.g. 'alloc::vec::Vec::<T, A>::push') or resolved path."""
    if 'path' not in f:
        return False
    return f['path'] in names or ('res' in f and f['res']['path'] in names)


def callee_name(f):
    return f.get('name')


def adt_field_index(prog, adt_suffix, field):
    for path, a in prog.adts.items():
        if path == adt_suffix or path.endswith('::' + adt_suffix):
            for i, f in enumerate(a['variants'][0]['fields']):
                if f['name'] == field:
                    return i
    raise KeyError('%s.%s' % (adt_suffix, field))


def adt_field_name(prog, adt_path, idx):
    a = prog.adts.get(adt_path)
    if a is None:
        return str(idx)
    fs = a['variants'][0]['fields']
    return fs[idx]['name'] if idx < len(fs) else str(idx)


def access_field_names(prog, body, a):
    """Resolve an Access into root name + named fields where the types are known crate ADTs."""
    t = body.local_ty(a.root)
    names = [body.local_name(a.root) or '_%d' % a.root]
    for s in a.steps:
        if s in ('*', 'deref()'):
            if t is not None and t.get('k') in ('ref', 'ptr'):
                t = t['t']
            elif t is not None and t.get('k') == 'adt' and t['args']:
                # ManuallyDrop<T>/Box<T> deref
                t = t['args'][0] if s == 'deref()' else t
            continue
        if s == '&':
            continue
        if isinstance(s, tuple) and s[0] == 'f':
            while t is not None and t.get('k') in ('ref', 'ptr'):
                t = t['t']
            if t is not None and t.get('k') == 'adt' and t['path'] in prog.adts:
                fs = prog.adts[t['path']]['variants'][0]['fields']
                names.append(fs[s[1]]['name'])
                # substitute? field types are generic; fine for naming purposes
                t = fs[s[1]]['ty']
            elif t is not None and t.get('k') == 'tuple':
                names.append(str(s[1]))
                t = t['e'][s[1]]
            else:
                names.append(str(s[1]))
                t = None
        else:
            names.append(str(s))
            t = None
    return '.'.join(names)


def receiver_name(prog, body, op):
    """Named access path of an operand (usually arg 0 of a method call), e.g. 'self.free'."""
    p = op_place(op)
    if p is None:
        return None
    return access_field_names(prog, body, normalize_access(access_of_place(body, p)))


def block_reads(body, b, l, after_stmt=-1, include_term=True):
    """Does block b read local l (after statement index after_stmt)?"""
    for i, s in enumerate(body.blocks[b]['stmts']):
        if i <= after_stmt:
            continue
        if l in stmt_reads(s):
            return True
    if include_term and l in term_reads(body.blocks[b]['term']):
        return True
    return False


def path_between(body, start, goals, avoid=()):
    """Shortest normal-edge path from start to one of goals avoiding `avoid` → list of blocks or None."""
    avoid = set(avoid)
    goals = set(goals)
    prev = {start: None}
    dq = deque([start])
    while dq:
        b = dq.popleft()
        if b in goals and (b != start or prev[b] is not None):
            out = []
            while b is not None:
                out.append(b)
                b = prev[b]
            return out[::-1]
        for s in body.normal_succ(b):
            if s in prev or s in avoid:
                if s in goals and s == start:
                    return [start, '...', start]
                continue
            prev[s] = b
            dq.append(s)
    return None


def last_field(body, op, prog=None):
    """For an operand reading `<base>.f` (possibly via a temp copy) → (container ADT path, field index)."""
    p = op_place(op)
    seen = 0
    while p is not None and not p['p'] and seen < 10:
        d = single_def(body, p['l'])
        seen += 1
        if d and d[0] == 'assign' and d[3]['rv']['k'] == 'use':
            p = op_place(d[3]['rv']['op'])
        else:
            return None
    if p is None or not p['p']:
        return None
    last = p['p'][-1]
    if not (isinstance(last, dict) and 'f' in last):
        return None
    base = {'l': p['l'], 'p': p['p'][:-1]}
    t = body.place_ty(base)
    t = peel_refs(t)
    if t is None:
        return None
    if t.get('k') == 'adt':
        return (t['path'], last['f'])
    if t.get('k') == 'tuple':
        return ('tuple', last['f'])
    return None


def resolve_def(body, l, depth=0):
    """Follow plain copies/moves back to the defining statement of a value: returns single_def tuple or None."""
    while l is not None and depth < 20:
        d = single_def(body, l)
        if d is None:
            return None
        if d[0] == 'assign' and d[3]['rv']['k'] == 'use' and op_local(d[3]['rv']['op']) is not None:
            l = op_local(d[3]['rv']['op'])
            depth += 1
            continue
        return d
    return None


def bool_switches(body, root):
    """Switches on a bool derived (by copies / Not) from local `root`: list of (block, target_if_root_true, target_if_root_false)."""
    out = []
    der = derived(body, {root}, through_calls=False)
    for sb in range(body.n):
        st = body.term(sb)
        if st['k'] != 'switch' or 0 not in st['values']:
            continue
        dl = op_local(st['discr'])
        if dl is None or dl not in der:
            continue
        # count negations along the copy chain
        neg = False
        cur = dl
        ok = True
        steps = 0
        while cur != root and steps < 20:
            d = single_def(body, cur)
            steps += 1
            if d and d[0] == 'assign' and d[3]['rv']['k'] == 'use' and op_local(d[3]['rv']['op']) is not None:
                cur = op_local(d[3]['rv']['op'])
            elif d and d[0] == 'assign' and d[3]['rv']['k'] == 'unop' and d[3]['rv']['op'] == 'Not' and op_local(d[3]['rv']['a']) is not None:
                neg = not neg
                cur = op_local(d[3]['rv']['a'])
            else:
                ok = False
                break
        if not ok or cur != root:
            continue
        t_true, t_false = st['otherwise'], st['targets'][st['values'].index(0)]
        if neg:
            t_true, t_false = t_false, t_true
        out.append((sb, t_true, t_false))
    return out
