"""Entity allocator rules: P1 pop-must-use, P2 deactivate=>free-list, G1/G2 generation guard and bump,
P8 clone remap, A1 slots-never-shrink."""
from .engine import rule, Result
from .mir import *
from . import pathsem

POP = ('alloc::collections::VecDeque::<T, A>::pop_front', 'alloc::collections::VecDeque::<T, A>::pop_back')
PUSHQ = ('alloc::collections::VecDeque::<T, A>::push_back', 'alloc::collections::VecDeque::<T, A>::push_front')


def alloc_fns(prog):
    return [f for f in prog.fns.values() if f.path.startswith('entity::allocator::') or '::entity::allocator::' in f.path]


@rule('P1', props=['C13', 'C02', 'C06', 'C01'], floor=2)
def p1_pop_must_use(prog):
    """Every slot index popped from the allocator's free list is used on every CFG path from the pop to the
    function's return or to the next pop: it selects a slot that is activated, or it is pushed back (a popped
    index that is dropped is a lost slot — neither live nor free)."""
    r = Result()
    free_i = adt_field_index(prog, 'entity::allocator::Allocator', 'free')
    for f in prog.fns.values():
        if f.kind == 'Closure':
            continue
        has_drain = any(True for g in [f] + f.closures() for _ in g.body.calls(lambda c: c['name'] == 'drain' and 'VecDeque' in c['path']))
        if not any(True for g in [f] + f.closures() for _ in g.body.calls(lambda c: c['path'] in POP)) and not has_drain:
            continue
        E = pathsem.analyse(prog, f)
        pops_seen = 0
        rep = set()
        if has_drain and not E.truncated:
            # the same obligation for indices taken off the free list in bulk: `free.drain(..n)` removes n of them, so
            # all n must be consumed - zipped with an iterator that has at least n elements left (n is the smaller of
            # the two lengths) - and each must select a slot that is activated
            S = pathsem.strip_refs

            def norm(t):
                t = S(t)
                while isinstance(t, tuple) and t and t[0] in ('r', 'd'):
                    t = S(t[1])
                if isinstance(t, tuple) and t and t[0] == 'L' and t[1] == 0:
                    return ('p', t[2], f.body.local_name(t[2]) or '')
                return t
            for p in E.paths:
                if p.ended != 'return':
                    continue
                for d in p.calls(lambda e: e['name'] == 'drain' and 'VecDeque' in e['path'] and pathsem.is_field_of(e['vals'][0], 'entity::allocator::Allocator', free_i)):
                    pops_seen += 1
                    dterm = d['ret']
                    why = None
                    zips = [z for z in p.calls(lambda z: z['name'] == 'zip' and z['i'] > d['i'] and any(pathsem.mentions(v, lambda t: t == dterm) for v in z['vals']))]
                    cons = [c for c in p.calls(lambda c: c.get('consumer') and c['i'] > d['i'] and any(pathsem.mentions(v, lambda t: t == dterm) for v in c['vals']))]
                    rng = S(d['vals'][1]) if len(d['vals']) > 1 else None
                    end = None
                    if isinstance(rng, tuple) and rng[0] == 'agg' and rng[1] in ('core::ops::RangeTo', 'core::ops::range::RangeTo'):
                        end = S(rng[4][0])
                    elif isinstance(rng, tuple) and rng[0] == 'agg' and rng[1] in ('core::ops::Range', 'core::ops::range::Range') and rng[4][0] == ('c', 0):
                        end = S(rng[4][1])
                    if not cons:
                        why = 'the drained indices are not consumed'
                    elif len(zips) != 1:
                        why = 'the drained indices are not paired one to one with the locations of the batch'
                    else:
                        other = [v for v in zips[0]['vals'] if not pathsem.mentions(v, lambda t: t == dterm)]
                        oroot = norm(pathsem.iter_chain(other[0])[0]) if other else None
                        ok_end = False
                        if isinstance(end, tuple) and end[0] == 'call' and end[1].rsplit('::', 1)[-1] == 'min' and len(end[2]) == 2:
                            lens = [S(x) for x in end[2]]
                            def len_of(x, pred):
                                return isinstance(x, tuple) and x[0] == 'call' and x[1].rsplit('::', 1)[-1] == 'len' and x[2] and pred(x[2][0])
                            is_free = lambda a_: pathsem.is_field_of(a_, 'entity::allocator::Allocator', free_i)
                            is_other = lambda a_: oroot is not None and norm(a_) == oroot
                            ok_end = (len_of(lens[0], is_free) and len_of(lens[1], is_other)) or (len_of(lens[1], is_free) and len_of(lens[0], is_other))
                        if not ok_end:
                            why = 'more indices may be drained from the free list than there are locations to pair them with (the range must end at min(free.len(), locations.len())): the surplus is neither activated nor kept'
                        el = ('elem', dterm)
                        acts = p.calls(lambda a_: a_['name'] in ('activate_unchecked', 'activate') and a_['i'] > cons[0]['i'] and pathsem.mentions(a_['vals'][0], lambda t: t == el))
                        if not acts:
                            why = why or 'a drained index does not select a slot that is activated'
                    if why and 'd' not in rep:
                        rep.add('d')
                        r.viol('P1', '%s/drained-index-dropped' % f.path, f.loc(d['ln']), 'indices taken off the free list in bulk: %s' % why)
        if E.truncated:
            r.viol('P1', '%s/not-analysable' % f.path, f.loc(), 'path enumeration cut off')
            continue
        for p in E.paths:
            if p.ended not in ('return', 'cutoff'):
                continue
            pops = [e for e in p.calls(lambda e: e['path'] in POP) if pathsem.is_field_of(e['args'][0], 'entity::allocator::Allocator', free_i)]
            pops_seen += len(pops)
            for n, e in enumerate(pops):
                if p.lookup(('discr', e['ret'])) != 1:
                    continue       # nothing was popped (None) or the path ends before looking
                payload = ('f', ('down', e['ret'], 'Some', 1), 0, 'core::option::Option')
                until = pops[n + 1]['i'] if n + 1 < len(pops) else len(p.events)
                used = False
                for u in p.events[e['i'] + 1:until]:
                    if u['k'] == 'call' and (any(pathsem.mentions(x, lambda t: t == payload) for x in list(u['args']) + list(u.get('vals', ())))):
                        if u['name'] in ('activate_unchecked', 'activate', 'push_back', 'push_front'):
                            used = True       # the slot at that index is activated, or the index goes back to the list
                    if u['k'] == 'store' and pathsem.mentions(u['value'], lambda t: t == payload):
                        used = True
                if not used and p.ended == 'return' and 'u' not in rep:
                    rep.add('u')
                    r.viol('P1', '%s/unused-on-path' % f.path, f.loc(e['ln']),
                           'index popped from the free list is not used on a path from the pop to %s: the slot is neither activated nor returned to the free list' % ('the next pop' if n + 1 < len(pops) else 'return'))
        if pops_seen:
            r.inst('%s: pop on self.free on %d path event(s)' % (f.path, pops_seen))
    return r


@rule('P2', props=['C13', 'C02', 'C06'], floor=1)
def p2_deactivate_then_free(prog):
    """Every returning path of a function that calls Slot::deactivate also pushes onto the same allocator's
    free list (in either order), and the pushed value is the index that selected the deactivated slot."""
    r = Result()
    for f in prog.fns.values():
        if f.kind == 'Closure' or not any(True for _ in f.body.calls(lambda c: c['path'].endswith('::Slot::<R>::deactivate'))):
            continue
        E = pathsem.analyse(prog, f)
        r.inst('%s: deactivate on %d path(s)' % (f.path, len([p for p in E.paths if p.calls(lambda e: e['name'] == 'deactivate')])))
        if E.truncated:
            r.viol('P2', '%s/not-analysable' % f.path, f.loc(), 'path enumeration cut off')
            continue
        done = set()
        for p in E.paths:
            if p.ended != 'return':
                continue
            for d in p.calls(lambda e: e['path'].endswith('::Slot::<R>::deactivate')):
                slot = d['args'][0]
                idx = [t[2][1] for t in pathsem.subterms(slot) if t[0] == 'call' and t[1].rsplit('::', 1)[-1] in ('get_unchecked_mut', 'get_mut', 'index_mut') and len(t[2]) >= 2]
                pushes = [e for e in p.calls(lambda e: e['path'] in PUSHQ) if pathsem.tstr(e['args'][0]).endswith('self.%d' % adt_field_index(prog, 'entity::allocator::Allocator', 'free'))]
                if not pushes and 'np' not in done:
                    done.add('np')
                    r.viol('P2', '%s/no-push' % f.path, f.loc(d['ln']),
                           'a path from Slot::deactivate to return does not push the index onto the free list (slot lost)')
                for e in pushes:
                    if e['args'][1] not in idx and 'wi' not in done:
                        done.add('wi')
                        r.viol('P2', '%s/wrong-index' % f.path, f.loc(e['ln']),
                               'value pushed onto the free list (%s) is not the index used to select the deactivated slot (%s)' % (pathsem.tstr(e['args'][1]), ', '.join(pathsem.tstr(x) for x in idx)))
    return r


@rule('G1', props=['C02', 'C13'], floor=2)
def g1_generation_guard(prog):
    """Allocator::get / is_active: on every path that reports the identifier as live (get: anything but a
    literal None; is_active: true) the path conditions contain `slot.generation == identifier.generation`
    for the slot selected by identifier.index (whatever the syntactic form: if/else, match guard, `?`,
    let-else, Option::filter/and_then/map_or closures, negated or De Morgan'd conditions)."""
    r = Result()
    gen_slot = adt_field_index(prog, 'Slot', 'generation')
    gen_id = adt_field_index(prog, 'entity::identifier::Identifier', 'generation')
    idx_id = adt_field_index(prog, 'entity::identifier::Identifier', 'index')
    for name in ('get', 'is_active'):
        cands = [f for f in prog.fns.values() if f.name == name and f.path.startswith('entity::allocator::Allocator')]
        if len(cands) != 1:
            r.viol('G1', 'missing/' + name, '-', 'anchor Allocator::%s not found (%d candidates)' % (name, len(cands)))
            continue
        f = cands[0]
        E = pathsem.analyse(prog, f)
        if E.truncated or not E.paths:
            r.viol('G1', '%s/not-analysable' % f.path, f.loc(), 'path enumeration of %s was cut off' % f.path)
            continue

        def is_guard(a):
            if not (a[0] == 'bin' and a[1] == 'Eq'):
                return False
            for x, y in ((a[2], a[3]), (a[3], a[2])):
                if pathsem.is_field_of(x, 'Slot', gen_slot) and pathsem.is_field_of(y, 'entity::identifier::Identifier', gen_id) \
                        and pathsem.mentions(x, lambda t: pathsem.is_field_of(t, 'entity::identifier::Identifier', idx_id)):
                    return True
            return False
        live = []
        guards = 0
        for p in E.paths:
            if p.ended != 'return':
                continue
            guards += len([1 for a, v in p.conds if is_guard(a)])
            if name == 'get' and p.ret == pathsem.NONE:
                continue
            if name == 'is_active' and p.ret == pathsem.FALSE:
                continue
            live.append(p)
        r.inst('%s: %d paths, %d report live' % (f.path, len(E.paths), len(live)))
        if not guards:
            r.viol('G1', '%s/no-guard' % f.path, f.loc(), 'no comparison of slot.generation with identifier.generation found')
            continue
        if not live:
            r.viol('G1', '%s/no-live-exit' % f.path, f.loc(), 'no exit reporting the identifier as live was found (rule cannot anchor)')
        for p in live:
            if not p.cond_true(is_guard):
                r.viol('G1', '%s/unguarded-live-exit' % f.path, f.loc(),
                       'a path reports the identifier as live (returns %s) without having established slot.generation == identifier.generation for the slot at identifier.index: stale identifiers would resolve'
                       % pathsem.tstr(p.ret), {'conds': [(pathsem.tstr(a), str(v)) for a, v in p.conds]})
                break
    return r


@rule('G2', props=['C02', 'C11', 'C01'], floor=1)
def g2_generation_bump(prog):
    """Slot::activate_unchecked assigns `generation` a value computed from the old generation by adding
    a non-zero constant (wrapping)."""
    r = Result()
    cands = [f for f in prog.fns.values() if f.name == 'activate_unchecked' and 'slot::Slot' in f.path]
    if len(cands) != 1:
        r.viol('G2', 'missing', '-', 'anchor Slot::activate_unchecked not found')
        return r
    f = cands[0]
    gen = adt_field_index(prog, 'Slot', 'generation')
    r.inst(f.path)
    E = pathsem.analyse(prog, f)
    rets = [p for p in E.paths if p.ended == 'return']
    if E.truncated or not rets:
        r.viol('G2', 'not-analysable', f.loc(), 'path enumeration cut off')
        return r
    bad = None
    for p in rets:
        stores = [e for e in p.events if e['k'] == 'store' and pathsem.is_field_of(e['loc'], 'Slot', gen) and pathsem.mentions(e['loc'], lambda t: t[0] == 'p' and t[1] == 1)]
        if not stores:
            r.viol('G2', 'no-write', f.loc(), 'activate_unchecked does not write self.generation on every path: a reused slot would keep its generation and stale identifiers would resolve again')
            return r
        st = stores[-1]
        d = pathsem.lin(st['value']) - pathsem.lin(st['loc'])
        if not (d.is_const() and d.const != 0):
            bad = bad or st
        # the generation space wraps by design: an overflow-checked `+` panics at u64::MAX in builds with overflow
        # checks (a deserialised world may carry any generation), where wrapping_add carries on
        chk = [t for t in pathsem.subterms(st['value']) if isinstance(t, tuple) and t[0] == 'bin' and t[1] in ('Add', 'Sub', 'Mul', 'AddWithOverflow', 'SubWithOverflow', 'AddUnchecked')
               and pathsem.mentions(t, lambda u: pathsem.is_field_of(u, 'Slot', gen))]
        if chk:
            r.viol('G2', 'checked-arithmetic', f.loc(st['ln']), 'the generation is bumped with overflow-checked arithmetic (%s): at the maximum generation this panics (or is UB for unchecked_add) instead of wrapping' % pathsem.tstr(chk[0])[:80])
            return r
    if bad is not None:
        r.viol('G2', 'not-a-bump', f.loc(bad['ln']), 'write to self.generation (%s) is not old generation + non-zero constant' % pathsem.tstr(bad['value']))
    return r


SHRINKERS = ('pop', 'truncate', 'remove', 'swap_remove', 'drain', 'clear', 'split_off', 'retain', 'retain_mut', 'dedup', 'dedup_by', 'dedup_by_key', 'set_len', 'resize', 'resize_with')


@rule('A1', props=['C02', 'C13', 'C16', 'C10'], floor=3)
def a1_slots_never_shrink(prog):
    """Slots are never removed from the allocator (generations must survive): no length-reducing Vec
    method is called on `Allocator.slots` except `clear` immediately refilled in clone_from, and the
    field is only assigned in constructors."""
    r = Result()
    n = 0
    for f in prog.fns.values():
        body = f.body
        for b, t in body.calls(lambda c: c['path'].startswith('alloc::vec::Vec::<T, A>::') or c['path'].startswith('alloc::vec::Vec::<T>::')):
            if not t['args']:
                continue
            recv = receiver_name(prog, body, t['args'][0])
            if recv is None or not recv.endswith('.slots'):
                continue
            rt = peel_refs(body.place_ty(op_place(t['args'][0])))
            if not (rt and rt.get('k') == 'adt' and rt['args'] and is_adt(rt['args'][0], 'Slot')):
                continue
            n += 1
            r.inst('%s: Vec::%s on %s' % (f.path, t['f']['name'], recv))
            if t['f']['name'] in SHRINKERS:
                if t['f']['name'] == 'clear' and f.name == 'clone_from' and f.path.startswith('entity::allocator::Allocator'):
                    continue   # destination is rebuilt from the source right after
                r.viol('A1', '%s/%s' % (f.path, t['f']['name']), f.loc(t['ln']),
                       'Vec::%s on the allocator slot table: removing a slot discards its generation, so a later identifier can equal a stale one' % t['f']['name'])
    return r


def p8_whole_chain(prog, f, src_p):
    """Allocator::clone / clone_from with Slot::/Location::clone_with_new_identifier (and closures) walked inline:
    every new slot is Slot{source generation, None | Some(Location{IMAGE(old identifier), old index})} for the slots of
    the source in order, where IMAGE is a lookup of the old identifier in an identifier-map parameter, or the
    application of a closure parameter whose argument at every call site of f is such a lookup. -> (ok, reason)"""
    S = pathsem.strip_refs
    LOC, SLOT = 'entity::allocator::location::Location', 'entity::allocator::slot::Slot'
    slots_i = adt_field_index(prog, 'entity::allocator::Allocator', 'slots')
    g_, l_ = adt_field_index(prog, SLOT, 'generation'), adt_field_index(prog, SLOT, 'location')
    li_, lx_ = adt_field_index(prog, LOC, 'identifier'), adt_field_index(prog, LOC, 'index')
    E = pathsem.analyse(prog, f, inline=lambda c: c.name == 'clone_with_new_identifier' or (c.name == 'new' and 'location::Location' in c.path), max_paths=20000)
    rets = [p for p in E.paths if p.ended == 'return']
    if E.truncated or not rets:
        return False, 'not analysable'
    n_some = 0
    closure_params = set()
    for p in rets:
        for ce in [e for e in p.events if e['k'] == 'consume_end']:
            x = ce['elem']
            if not (isinstance(x, tuple) and x[0] == 'agg' and x[1] == SLOT):
                continue
            gen, loc = x[4][g_], x[4][l_]
            # where the new slots go: the returned allocator's slots (clone) / the destination's, emptied first (clone_from)
            cons = [e for e in p.calls(lambda e: e.get('consumer')) if e['i'] < ce['i']]
            c_ = cons[-1] if cons else None
            if src_p == 1:
                if not (c_ is not None and isinstance(p.ret, tuple) and p.ret[0] == 'agg' and len(p.ret[4]) > slots_i and p.ret[4][slots_i] == c_['ret']):
                    return False, 'the remapped slots do not become the new allocator\'s slots'
            else:
                dst_ok = c_ is not None and pathsem.is_field_of(c_['args'][0], 'entity::allocator::Allocator', slots_i) and pathsem.mentions(c_['args'][0], lambda t: t[0] == 'p' and t[1] == 1)
                cleared = dst_ok and any(e['name'] == 'clear' and e['i'] < c_['i'] and pathsem.is_field_of(e['args'][0], 'entity::allocator::Allocator', slots_i) for e in p.calls(lambda e: e['name'] == 'clear'))
                if not (dst_ok and cleared):
                    return False, 'the remapped slots do not replace the destination allocator\'s slots'
            els = [t for t in pathsem.subterms(gen) if isinstance(t, tuple) and t[0] == 'elem']
            if not els:
                return False, 'the generation of a new slot is not the source slot\'s'
            el = els[0]
            root, kinds = pathsem.iter_chain(el[1])
            rt = root
            while isinstance(rt, tuple) and rt[0] == 'call' and rt[1].rsplit('::', 1)[-1] in ('deref', 'as_slice', 'as_ref', 'borrow') and rt[2]:
                rt = S(rt[2][0])
            if not (pathsem.is_field_of(rt, 'entity::allocator::Allocator', slots_i) and pathsem.mentions(rt, lambda t: t[0] == 'p' and t[1] == src_p)
                    and all(k in ('iter', 'into_iter', 'map', 'by_ref', 'copied', 'cloned', 'inspect', 'deref') for k in kinds)):
                return False, 'new slots are not produced from the source slots in order'
            if not (pathsem.is_field_of(gen, SLOT, g_) and pathsem.mentions(gen, lambda u: u == el)):
                return False, 'a new slot does not keep the source slot\'s generation'
            if loc == pathsem.NONE:
                continue
            if not (isinstance(loc, tuple) and loc[0] == 'agg' and loc[2] == 'Some' and isinstance(loc[4][0], tuple) and loc[4][0][0] == 'agg' and loc[4][0][1] == LOC):
                return False, 'cannot see the location of a new active slot (%s)' % pathsem.tstr(loc)[:60]
            ident, index = loc[4][0][4][li_], loc[4][0][4][lx_]
            if not (pathsem.is_field_of(index, LOC, lx_) and pathsem.mentions(index, lambda u: u == el)):
                return False, 'the row index of a cloned location is not the source location\'s'

            def old_id(t):
                return pathsem.is_field_of(t, LOC, li_) and pathsem.mentions(t, lambda u: u == el)
            looked = [t for t in pathsem.subterms(ident) if t[0] == 'call' and 'HashMap' in t[1] and t[1].rsplit('::', 1)[-1] in ('get', 'get_unchecked', 'index', 'get_key_value') and len(t[2]) >= 2
                      and S(t[2][0])[0] == 'p' and old_id(t[2][1])]
            applied = [t for t in pathsem.subterms(ident) if t[0] == 'call' and t[1] == 'indirect' and len(t[2]) == 2 and old_id(t[2][1])]
            if looked:
                n_some += 1
            elif applied:
                c = applied[0][2][0]
                while isinstance(c, tuple) and c[0] in ('r', 'd'):
                    c = c[1]
                k = c[2] if isinstance(c, tuple) and c[0] == 'L' and c[1] == 0 else (c[1] if isinstance(c, tuple) and c[0] == 'p' else None)
                if not isinstance(k, int):
                    return False, 'the identifier of a cloned location comes from an unknown function value'
                closure_params.add(k)
                n_some += 1
            else:
                return False, 'the identifier of a cloned location is not the image of the old identifier under the identifier map'
    if not n_some:
        return False, 'no path remaps the location of an active slot'
    for k in closure_params:
        callers = [g for g in prog.fns.values() if g.kind != 'Closure' and any(True for _ in g.body.calls(lambda c: (c.get('res') or c).get('dp') == f.dp or c.get('dp') == f.dp))]
        if not callers:
            return False, 'the identifier translation is a parameter and no caller was found'
        for g in callers:
            Eg = pathsem.analyse(prog, g, max_paths=20000)
            for p in Eg.paths:
                for e in p.calls(lambda e: e['path'] == f.path):
                    a = e['vals'][k - 1] if k - 1 < len(e['vals']) else None
                    a = S(a) if a is not None else None
                    if not (isinstance(a, tuple) and a[0] == 'agg' and isinstance(a[1], str) and a[1].startswith('closure:')):
                        return False, '%s passes something other than a closure as the identifier translation' % g.name
                    cf = prog.fns.get(a[1][len('closure:'):])
                    if cf is None:
                        return False, 'closure body not found'
                    Ec = pathsem.analyse(prog, cf)
                    arg = ('p', 2, cf.body.local_name(2) or '')
                    for q in Ec.paths:
                        if q.ended != 'return':
                            continue
                        if not pathsem.mentions(q.ret, lambda t: isinstance(t, tuple) and t[0] == 'call' and 'HashMap' in t[1] and t[1].rsplit('::', 1)[-1] in ('get', 'get_unchecked', 'index') and len(t[2]) >= 2 and pathsem.mentions(t[2][1], lambda u: u == arg)):
                            return False, 'the identifier translation %s passes is not a lookup of its argument in the identifier map' % g.name
    return True, None


@rule('P8', props=['C10', 'C02', 'C05', 'C13', 'C16'], floor=4)
def p8_clone_remap(prog):
    """Allocator::{clone, clone_from} produce slots only through Slot::clone_with_new_identifier; the
    identifier of the cloned location comes from identifier_map; no wholesale Vec<Slot> clone."""
    r = Result()
    for name in ('clone', 'clone_from'):
        cands = [f for f in prog.fns.values() if f.name == name and f.path.startswith('entity::allocator::Allocator')]
        if len(cands) != 1:
            r.viol('P8', 'missing/' + name, '-', 'anchor Allocator::%s not found' % name)
            continue
        f = cands[0]
        r.inst(f.path)
        E = pathsem.analyse(prog, f)
        rets = [p for p in E.paths if p.ended == 'return']
        if E.truncated or not rets:
            r.viol('P8', '%s/not-analysable' % f.path, f.loc(), 'path enumeration cut off')
            continue
        slots_i = adt_field_index(prog, 'entity::allocator::Allocator', 'slots')
        src_p = 1 if name == 'clone' else 2
        idm = f.body.arg_local('identifier_map')
        ORDERED = ('iter', 'into_iter', 'map', 'by_ref', 'copied', 'cloned', 'inspect')
        reported = set()
        for p in rets:
            # forbidden: cloning slots wholesale
            for e in p.calls(lambda e: e['name'] in ('clone', 'clone_from', 'to_vec', 'extend_from_slice', 'to_owned', 'cloned', 'copied', 'clone_into', 'clone_from_slice', 'copy_from_slice')):
                tys = [a_ for a_ in e['f'].get('args', []) if a_.get('k') != 'region']
                if tys and ty_mentions(tys[0], lambda n: is_adt(n, 'Slot') or is_adt(n, 'Location')) and e['name'] not in reported:
                    reported.add(e['name'])
                    r.viol('P8', '%s/wholesale-%s' % (f.path, e['name']), f.loc(e['ln']),
                           '%s of slots/locations without remapping archetype identifiers: the copy would point into the source world\'s identifier buffers' % e['name'])
            good = []
            for ce in [e for e in p.events if e['k'] == 'consume_end']:
                x = ce['elem']
                if not (isinstance(x, tuple) and x[0] == 'call' and x[1].endswith('::clone_with_new_identifier') and 'Slot' in x[1] and len(x[2]) == 2):
                    continue
                el, m = pathsem.strip_refs(x[2][0]), pathsem.strip_refs(x[2][1])
                if not (isinstance(el, tuple) and el[0] == 'elem'):
                    continue
                root, kinds = pathsem.iter_chain(el[1])
                src_ok = pathsem.is_field_of(root, 'entity::allocator::Allocator', slots_i) and pathsem.mentions(root, lambda t: t[0] == 'p' and t[1] == src_p) and all(k in ORDERED for k in kinds)
                if src_ok and m == ('p', idm, 'identifier_map'):
                    good.append(ce)
            if not good and 'nr' not in reported:
                reported.add('nr')
                r.viol('P8', '%s/no-remap' % f.path, f.loc(), 'the new slots are not produced by mapping Slot::clone_with_new_identifier(.., identifier_map) over the source slots in order')
                continue
            # where the remapped slots go
            if good:
                cons = [e for e in p.calls(lambda e: e.get('consumer')) if e['i'] < good[0]['i']]
                c = cons[-1] if cons else None
                if name == 'clone':
                    ok = c is not None and isinstance(p.ret, tuple) and p.ret[0] == 'agg' and len(p.ret[4]) > slots_i and p.ret[4][slots_i] == c['ret']
                else:
                    ok = c is not None and pathsem.is_field_of(c['args'][0], 'entity::allocator::Allocator', slots_i) and pathsem.mentions(c['args'][0], lambda t: t[0] == 'p' and t[1] == 1)
                if not ok and 'sink' not in reported:
                    reported.add('sink')
                    r.viol('P8', '%s/remapped-slots-not-stored' % f.path, f.loc(), 'the remapped slots do not become the %s allocator\'s slots' % ('new' if name == 'clone' else 'destination'))
    # Location::clone_with_new_identifier: (identifier_map[old identifier], same index); Slot: same generation,
    # location remapped through Location::clone_with_new_identifier
    S = pathsem.strip_refs
    LOC, SLOT = 'entity::allocator::location::Location', 'entity::allocator::slot::Slot'
    for owner in ('slot::Slot', 'location::Location'):
        cands = [f for f in prog.fns.values() if f.name == 'clone_with_new_identifier' and owner in f.path]
        if len(cands) != 1:
            r.viol('P8', 'missing/%s' % owner, '-', 'anchor %s::clone_with_new_identifier not found' % owner)
            continue
        f = cands[0]
        r.inst(f.path)
        E = pathsem.analyse(prog, f)
        rets = [p for p in E.paths if p.ended == 'return']
        if E.truncated or not rets:
            r.viol('P8', '%s/not-analysable' % f.path, f.loc(), 'path enumeration cut off')
            continue
        src = ('p', 1, f.body.local_name(1) or 'self')
        mp = ('p', f.body.arg_local('identifier_map') or 2, 'identifier_map')
        if owner.endswith('Location'):
            li_, lx_ = adt_field_index(prog, LOC, 'identifier'), adt_field_index(prog, LOC, 'index')
            bad = None
            for p in rets:
                v = p.ret
                parts = None
                if isinstance(v, tuple) and v[0] == 'agg' and v[1] == LOC:
                    parts = (v[4][li_], v[4][lx_])
                elif isinstance(v, tuple) and v[0] == 'call' and v[1].endswith('Location::<R>::new') and len(v[2]) == 2:
                    parts = (v[2][0], v[2][1])
                if parts is None:
                    bad = bad or 'cannot see the cloned Location (%s)' % pathsem.tstr(v)[:80]
                    continue
                ident, index = parts
                looked = [t for t in pathsem.subterms(ident) if t[0] == 'call' and 'HashMap' in t[1] and t[1].rsplit('::', 1)[-1] in ('get', 'get_unchecked', 'index', 'get_key_value') and len(t[2]) >= 2
                          and S(t[2][0]) == mp and pathsem.is_field_of(t[2][1], LOC, li_) and pathsem.mentions(t[2][1], lambda u: u == src)]
                if not looked:
                    bad = bad or 'the identifier field of the cloned Location is not data-dependent on identifier_map.get(<old identifier>)'
                if not (pathsem.is_field_of(index, LOC, lx_) and pathsem.mentions(index, lambda u: u == src)):
                    bad = bad or 'the row index of the cloned Location is not the source location\'s index'
            if bad:
                r.viol('P8', '%s/identifier-not-remapped' % f.path, f.loc(), bad)
        else:
            g_, l_ = adt_field_index(prog, SLOT, 'generation'), adt_field_index(prog, SLOT, 'location')
            remapped = False
            bad = None
            for p in rets:
                v = p.ret
                if not (isinstance(v, tuple) and v[0] == 'agg' and v[1] == SLOT):
                    bad = bad or 'cannot see the cloned Slot'
                    continue
                if not (pathsem.is_field_of(v[4][g_], SLOT, g_) and pathsem.mentions(v[4][g_], lambda u: u == src)):
                    bad = bad or 'the cloned slot does not keep the source slot\'s generation'
                d = p.lookup(('discr', ('f', ('d', src), l_, SLOT)))
                lv = v[4][l_]
                if d == 0 or lv == pathsem.NONE:
                    continue
                calls = p.calls(lambda e: e['name'] == 'clone_with_new_identifier' and 'Location' in e['path'])
                if isinstance(lv, tuple) and lv[0] == 'agg' and lv[2] == 'Some' and calls and lv[4][0] == calls[0]['ret'] and any(S(x) == mp for x in calls[0]['vals']):
                    remapped = True
                else:
                    bad = bad or 'an active slot\'s location is not remapped through Location::clone_with_new_identifier(.., identifier_map)'
            if bad or not remapped:
                r.viol('P8', '%s/location-not-remapped' % f.path, f.loc(), bad or 'Slot::clone_with_new_identifier does not remap its location')
    # the three function-by-function clauses above assume the map travels down the chain as a `&HashMap`; when they do
    # not hold, decide the same property on the chain walked as a whole (the lookup may sit at another level)
    CHAIN = ('/no-remap', '/identifier-not-remapped', '/location-not-remapped')
    if any(v.key.endswith(CHAIN) for v in r.violations):
        verdicts = []
        for name, src_p in (('clone', 1), ('clone_from', 2)):
            cands = [f for f in prog.fns.values() if f.name == name and f.path.startswith('entity::allocator::Allocator')]
            verdicts.append(p8_whole_chain(prog, cands[0], src_p) if len(cands) == 1 else (False, 'missing'))
        if all(ok for ok, _ in verdicts):
            r.violations = [v for v in r.violations if not v.key.endswith(CHAIN)]
        else:
            why = next(w for ok, w in verdicts if not ok)
            for v in r.violations:
                if v.key.endswith(CHAIN):
                    v.msg += ' [walked as a whole: %s]' % why
    return r


@rule('G2b', props=['C02', 'C13', 'C01'], floor=2)
def g2b_identifier_generation_after_activation(prog):
    """allocate / allocate_batch: the generation put into a returned identifier for a *reused* slot is read
    from that slot after activate_unchecked bumped it (a value read before the bump is one generation
    stale: the identifier handed to the caller would not be live); fresh slots use generation 0."""
    r = Result()
    from .sym import pos_after
    gen_slot = adt_field_index(prog, 'Slot', 'generation')
    for name in ('allocate', 'allocate_batch'):
        cands = [f for f in prog.fns.values() if f.name == name and f.path.startswith('entity::allocator::Allocator')]
        if len(cands) != 1:
            r.viol('G2b', 'missing/' + name, '-', 'Allocator::%s not found' % name)
            continue
        f = cands[0]
        bodies = [f] + f.closures()
        n_acts = sum(len(list(g.body.calls(lambda c: c['name'] == 'activate_unchecked'))) for g in bodies)
        r.inst('%s: %d activation(s)' % (f.path, n_acts))
        if not n_acts:
            r.viol('G2b', name + '/no-activation', f.loc(), 'reused slots are not activated')
            continue
        for body, acts, b, t in [(g.body, [(b_, t_) for b_, t_ in g.body.calls(lambda c: c['name'] == 'activate_unchecked')], b, t) for g in bodies
                                 for b, t in g.body.calls(lambda c: c['name'] == 'new' and 'entity::identifier::Identifier' in c['path'])]:
            gl = op_local(t['args'][1])
            c = op_const(t['args'][1])
            if c is not None:
                continue
            # trace generation back to a field read of a slot
            reads = []
            seen = set()
            work = [gl]
            while work:
                l = work.pop()
                if l is None or l in seen:
                    continue
                seen.add(l)
                for db, di, ds in body.assigns_to(l):
                    if di is None:
                        # produced by a call: a generation returned by the activation itself must be the bumped one
                        if ds['f'].get('name') == 'activate_unchecked':
                            callee = [g for g in prog.fns.values() if g.name == 'activate_unchecked' and 'slot::Slot' in g.path]
                            if len(callee) == 1:
                                cb = callee[0].body
                                gw = [(b2, i2) for b2, i2, s2 in cb.stmts() if s2['k'] == 'assign' and s2['place']['p'] and receiver_name(prog, cb, {'copy': s2['place']}) == 'self.generation']
                                okret = False
                                for b2, i2, s2 in cb.stmts():
                                    if s2['k'] == 'assign' and s2['place']['l'] == 0 and s2['rv']['k'] == 'use':
                                        src = s2['rv']['op']
                                        # walk copies back to a read of self.generation
                                        cur = op_local(src)
                                        pos = (b2, i2)
                                        hops = 0
                                        while cur is not None and hops < 10:
                                            hops += 1
                                            d3 = single_def(cb, cur)
                                            if d3 and d3[0] == 'assign' and d3[3]['rv']['k'] == 'use':
                                                pl3 = op_place(d3[3]['rv']['op'])
                                                if pl3 is not None and pl3['p'] and receiver_name(prog, cb, d3[3]['rv']['op']) == 'self.generation':
                                                    okret = any(pos_after(cb, (d3[1], d3[2]), w) for w in gw)
                                                    break
                                                cur = op_local(d3[3]['rv']['op'])
                                            else:
                                                break
                                        if op_place(src) is not None and op_place(src)['p'] and receiver_name(prog, cb, src) == 'self.generation':
                                            okret = any(pos_after(cb, (b2, i2), w) for w in gw)
                                if not okret:
                                    r.viol('G2b', name + '/activation-returns-stale-generation', callee[0].loc(),
                                           'the generation returned by Slot::activate_unchecked (and used for the returned identifier) is not the generation after the bump')
                        continue
                    rv = ds['rv']
                    if rv['k'] == 'use':
                        pl = op_place(rv['op'])
                        if pl is not None and pl['p']:
                            lf = last_field(body, rv['op'])
                            if lf and lf[0].endswith('::Slot') and lf[1] == gen_slot:
                                reads.append((db, di, ds))
                            elif lf and lf[0] == 'tuple':
                                # (index, generation) tuples: follow the tuple's construction
                                for tb, ti, ts in body.assigns_to(pl['l']):
                                    if ti is not None and ts['rv']['k'] == 'agg' and ts['rv']['agg'] == 'tuple':
                                        o = ts['rv']['ops'][lf[1]]
                                        if op_local(o) is not None:
                                            work.append(op_local(o))
                        elif pl is not None:
                            work.append(pl['l'])
            for db, di, ds in reads:
                ok = any(pos_after(body, (db, di), (ab, None)) and body.dominates(ab, db) for ab, at in acts)
                if not ok:
                    r.viol('G2b', name + '/generation-read-before-activation', f.loc(ds['ln']),
                           'the generation stored in the returned identifier is read from the slot before activate_unchecked bumps it: the identifier returned (and stored in the archetype) is one generation stale and does not resolve')
    return r


@rule('A3', props=['C02', 'C13', 'C01'], floor=10, configs=('all', 'default'))
def a3_allocator_internals_stay_inside(prog):
    """The slot table, the free queue and a slot's generation/location are read and written only by code of the
    `entity::allocator` module (the allocator, its slots, its serde impl): every other part of the crate resolves an
    identifier through `Allocator::get` / `is_active` (whose generation comparison G1 checks) and changes it through
    the allocator's methods. A projection of `Allocator.slots`, `Allocator.free`, `Slot.generation` or `Slot.location`
    in a function outside that module bypasses the generation check (a stale identifier resolves) or the free-list
    discipline."""
    r = Result()
    fields = {}
    for path, names in (('entity::allocator::Allocator', ('slots', 'free')), ('entity::allocator::slot::Slot', ('generation', 'location'))):
        adt = prog.adts.get(path)
        if adt is None:
            r.viol('A3', 'missing/' + path, '-', 'type not found')
            return r
        fn_ = [x['name'] for x in adt['variants'][0]['fields']]
        for n in names:
            if n not in fn_:
                r.viol('A3', 'missing/%s.%s' % (path, n), '-', 'field not found')
                return r
            fields[(path, fn_.index(n))] = n
    seen = set()
    for f in prog.fns.values():
        body = f.body
        def is_inside(path, dp):
            return path.startswith('entity::allocator::') or path.startswith('<entity::allocator::') or 'for entity::allocator::' in path or dp.startswith('brood::entity::allocator::')
        inside = is_inside(f.path, f.dp)

        def written_inside(b):
            # code of a helper the rule set has never seen is spliced into its callers (vlib/inline.py): it still
            # *lives* in the function it was written in
            o = body.blocks[b].get('inl')
            return is_inside(o['path'], o['dp']) if o else inside
        touched_in, touched_out = set(), set()
        for b, i, s in body.stmts():
            if s['k'] != 'assign':
                continue
            places = list(rv_operands(s['rv'])) + [s['place']]
            if s['rv']['k'] in ('ref', 'rawptr', 'discr', 'len'):
                places.append(s['rv']['place'])
            for p in places:
                for j, e in enumerate(p['p']):
                    if isinstance(e, dict) and 'f' in e:
                        base = peel_refs(body.place_ty({'l': p['l'], 'p': p['p'][:j]}))
                        if base is not None and base.get('k') == 'adt' and (base['path'], e['f']) in fields:
                            (touched_in if written_inside(b) else touched_out).add('%s.%s' % (base['path'].rsplit('::', 1)[-1], fields[(base['path'], e['f'])]))
        for b, t in body.calls():
            for a in t['args']:
                p = op_place(a)
                if p is None:
                    continue
                for j, e in enumerate(p['p']):
                    if isinstance(e, dict) and 'f' in e:
                        base = peel_refs(body.place_ty({'l': p['l'], 'p': p['p'][:j]}))
                        if base is not None and base.get('k') == 'adt' and (base['path'], e['f']) in fields:
                            (touched_in if written_inside(b) else touched_out).add('%s.%s' % (base['path'].rsplit('::', 1)[-1], fields[(base['path'], e['f'])]))
        if not touched_in and not touched_out:
            continue
        top = f
        while top.kind == 'Closure' and top.parent in prog.fns:
            top = prog.fns[top.parent]
        if touched_in and inside:
            if top.dp not in seen:
                seen.add(top.dp)
                r.inst('%s touches %s' % (top.path[:80], sorted(touched_in)))
        if touched_out:
            outs = sorted({body.blocks[b].get('inl', {}).get('path', '') for b in range(body.n) if body.blocks[b].get('inl') and not written_inside(b)} - {''})
            r.viol('A3', '%s/touches-allocator-internals' % (top.path if not inside else outs[0] if outs else top.path), f.loc(), 'function %s outside the allocator module accesses %s directly: identifiers must be resolved through Allocator::get / is_active (generation check) and changed through the allocator\'s methods' % (top.name if not inside else (outs[0] if outs else top.name), sorted(touched_out)))
    return r
