"""Boolean-function extraction for small bool-returning functions: atoms are calls returning bool and
comparisons; the function's result is tabulated over all atom assignments by walking CFG paths.
Pure control/data-flow shape analysis — nothing is executed."""
import itertools
from .mir import *
from .sym import SymEval


class Atom:
    def __init__(self, kind, key, desc, term=None, pos=None):
        self.kind = kind    # 'call' | 'cmp' | 'param' | 'other'
        self.key = key
        self.desc = desc
        self.term = term
        self.pos = pos

    def __repr__(self):
        return self.desc


def _callee_key(t):
    f = t['f']
    if 'path' not in f:
        return 'indirect'
    args = [ty_str(a) for a in f['args'] if a.get('k') != 'region']
    return f['path'] + '<' + ','.join(args) + '>'


class BoolFn:
    def __init__(self, prog, fn):
        self.prog = prog
        self.fn = fn
        self.body = fn.body
        self.atoms = {}      # local -> (Atom, negated)
        self.paths = []      # (conds {atomkey: bool}, result) result: True/False/('atom', key, neg)/('unknown',)
        self.ok = True
        self._resolve_cache = {}

    def atom_of_local(self, l, depth=0):
        """Resolve a bool local to (Atom, negated) through copies / Not / deref of refs."""
        if depth > 20:
            return None
        if l in self._resolve_cache:
            return self._resolve_cache[l]
        body = self.body
        res = None
        if 1 <= l <= body.argc:
            res = (Atom('param', 'param:%d' % l, body.local_name(l) or '_%d' % l), False)
        else:
            d = single_def(body, l)
            if d is None:
                res = None
            elif d[0] == 'call':
                t = d[2]
                res = (Atom('call', 'call:%d:%s' % (d[1], _callee_key(t)), _callee_key(t), term=t, pos=d[1]), False)
            else:
                rv = d[3]['rv']
                if rv['k'] == 'use':
                    p = op_place(rv['op'])
                    c = op_const(rv['op'])
                    if c is not None and 'val' in c:
                        res = ('const', bool(c['val']))
                    elif p is not None and not p['p']:
                        res = self.atom_of_local(p['l'], depth + 1)
                    elif p is not None:
                        nm = access_field_names(self.prog, body, normalize_access(access_of_place(body, p)))
                        res = (Atom('other', 'place:' + nm, nm), False)
                elif rv['k'] == 'unop' and rv['op'] == 'Not':
                    l2 = op_local(rv['a'])
                    inner = self.atom_of_local(l2, depth + 1) if l2 is not None else None
                    if inner and inner[0] == 'const':
                        res = ('const', not inner[1])
                    elif inner:
                        res = (inner[0], not inner[1])
                elif rv['k'] == 'binop' and rv['op'] in ('Eq', 'Ne', 'Lt', 'Le', 'Gt', 'Ge'):
                    se = SymEval(self.prog, body)
                    a = se.operand(rv['a'], (d[1], d[2]))
                    c = se.operand(rv['b'], (d[1], d[2]))
                    desc = '%s(%s, %s)' % (rv['op'], a, c)
                    res = (Atom('cmp', 'cmp:' + desc, desc, term=rv, pos=d[1]), False)
                elif rv['k'] == 'binop' and rv['op'] in ('BitAnd', 'BitOr', 'BitXor'):
                    res = (Atom('other', 'bitop:%d' % l, 'bitop'), False)
        self._resolve_cache[l] = res
        return res

    def run(self, max_paths=512):
        body = self.body
        stack = [(0, {}, {})]   # block, conds, visits
        while stack:
            b, conds, visits = stack.pop()
            if len(self.paths) > max_paths:
                self.ok = False
                return self
            visits = dict(visits)
            visits[b] = visits.get(b, 0) + 1
            if visits[b] > 2:
                self.ok = False
                continue
            t = body.term(b)
            k = t['k']
            if k == 'return':
                self.paths.append((conds, self.result_value(b, conds)))
                continue
            if k in ('unreachable', 'resume', 'terminate'):
                if k == 'unreachable':
                    continue
                continue
            if k == 'switch' and t['discr_ty'].get('name') == 'bool':
                l = op_local(t['discr'])
                a = self.atom_of_local(l) if l is not None else None
                ft = t['targets'][t['values'].index(0)] if 0 in t['values'] else None
                tt = t['otherwise'] if ft is not None else None
                if a is None or ft is None:
                    self.ok = False
                    for s in body.normal_succ(b):
                        stack.append((s, conds, visits))
                    continue
                if a[0] == 'const':
                    stack.append((tt if a[1] else ft, conds, visits))
                    continue
                atom, neg = a
                if atom.key in conds:
                    truth = conds[atom.key] != neg
                    stack.append((tt if truth else ft, conds, visits))
                    continue
                for truth, tgt in ((True, tt), (False, ft)):
                    c2 = dict(conds)
                    c2[atom.key] = (truth != neg)
                    self.atoms_seen(atom)
                    stack.append((tgt, c2, visits))
                continue
            if k == 'call' and t['target'] is None:
                # diverging call (panic): record as a panic result
                self.paths.append((conds, ('panic',)))
                continue
            for s in body.normal_succ(b):
                stack.append((s, conds, visits))
        return self

    def atoms_seen(self, atom):
        self.atoms[atom.key] = atom

    def result_value(self, ret_block, conds):
        """Value of _0 at return: find the reaching assignment along... approximated by the unique
        assignment to _0 that dominates or lies on the path; we pick assignments to _0 in blocks from
        which ret_block is reachable, preferring the closest (fewest successors)."""
        body = self.body
        cands = []
        for b, i, s in body.stmts():
            if s['k'] == 'assign' and s['place']['l'] == 0 and not s['place']['p']:
                if ret_block == b or ret_block in body.reachable_after(b):
                    cands.append((b, s))
        for b in range(body.n):
            t = body.term(b)
            if t['k'] == 'call' and t['dest']['l'] == 0 and not t['dest']['p'] and t['target'] is not None:
                if ret_block in body.reachable(t['target']):
                    cands.append((b, t))
        # filter candidates consistent with the path conditions: a candidate in a block that is only
        # reachable under contradicting conditions is dropped by checking edge-sensitive reachability
        good = []
        for b, s in cands:
            if self.block_on_path(b, conds):
                good.append((b, s))
        if len(good) != 1:
            # several assignments on one path (loops/overwrites): take the last in dominance order
            good2 = [g for g in good if all(g is h or self.body.dominates(h[0], g[0]) for h in good)]
            if len(good2) == 1:
                good = good2
            else:
                self.ok = False
                return ('unknown',)
        b, s = good[0]
        if s.get('k') == 'call':
            atom = Atom('call', 'call:%d:%s' % (b, _callee_key(s)), _callee_key(s), term=s, pos=b)
            self.atoms_seen(atom)
            if atom.key in conds:
                return conds[atom.key]
            return ('atom', atom.key, False)
        rv = s['rv']
        if rv['k'] == 'use':
            c = op_const(rv['op'])
            if c is not None and 'val' in c:
                return bool(c['val'])
            l = op_local(rv['op'])
            a = self.atom_of_local(l) if l is not None else None
            if a is None:
                return ('unknown',)
            if a[0] == 'const':
                return a[1]
            atom, neg = a
            self.atoms_seen(atom)
            if atom.key in conds:
                return conds[atom.key] != neg
            return ('atom', atom.key, neg)
        if rv['k'] == 'unop' and rv['op'] == 'Not':
            l = op_local(rv['a'])
            a = self.atom_of_local(l) if l is not None else None
            if a is None:
                return ('unknown',)
            if a[0] == 'const':
                return not a[1]
            atom, neg = a
            self.atoms_seen(atom)
            if atom.key in conds:
                return not (conds[atom.key] != neg)
            return ('atom', atom.key, not neg)
        if rv['k'] == 'binop':
            a = self.atom_of_local(0)
            return ('unknown',)
        return ('unknown',)

    def block_on_path(self, b, conds):
        """Is block b reachable from entry using only switch edges consistent with conds?"""
        body = self.body
        seen = {0}
        st = [0]
        while st:
            x = st.pop()
            if x == b:
                return True
            t = body.term(x)
            succ = body.normal_succ(x)
            if t['k'] == 'switch' and t['discr_ty'].get('name') == 'bool':
                l = op_local(t['discr'])
                a = self.atom_of_local(l) if l is not None else None
                if a and a[0] != 'const' and a[0].key in conds and 0 in t['values']:
                    truth = conds[a[0].key] != a[1]
                    ft = t['targets'][t['values'].index(0)]
                    succ = [t['otherwise'] if truth else ft]
                elif a and a[0] == 'const' and 0 in t['values']:
                    ft = t['targets'][t['values'].index(0)]
                    succ = [t['otherwise'] if a[1] else ft]
            for s in succ:
                if s not in seen:
                    seen.add(s)
                    st.append(s)
        return False

    def truth_table(self):
        """-> (atom keys sorted, {assignment tuple: result}) or None if not extractable."""
        if not self.ok:
            return None
        keys = sorted(self.atoms)
        table = {}
        for vals in itertools.product([False, True], repeat=len(keys)):
            asg = dict(zip(keys, vals))
            res = None
            for conds, r in self.paths:
                if all(asg.get(k) == v for k, v in conds.items()):
                    if isinstance(r, tuple) and r[0] == 'atom':
                        rr = asg[r[1]] != r[2]
                    elif isinstance(r, tuple):
                        rr = r[0]
                    else:
                        rr = r
                    if res is not None and res != rr:
                        return None
                    res = rr
            table[vals] = res
        return keys, table


def bool_table(prog, fn):
    bf = BoolFn(prog, fn).run()
    return bf, bf.truth_table()
