"""World-level protocols: P5 shape-change relocation, P7 archetype table protocol, C10a clone_from
clearing pass, A2 free-list provenance."""
from .engine import rule, Result
from .mir import *
from . import pathsem
from .sym import SymEval, Lin
from .rules_guard import is_negated, owner_fn


def call_chain(body, names):
    """First call blocks for each name in order; returns list of (name, block, term) or None entries."""
    out = []
    for n in names:
        cs = [(b, t) for b, t in body.calls(lambda c, n=n: c['name'] == n)]
        out.append(cs)
    return out


@rule('P5', props=['C01', 'C02', 'C13', 'C04', 'C03', 'C05'], floor=2, configs=('all', 'default'))
def p5_shape_change(prog):
    """Entry::add (component absent) and Entry::remove (component present): pop the row, look up / create
    the archetype whose identifier differs in exactly this component's bit, push the row there, store
    the new location both in the allocator and in the entry; the bit index is LEN - INDEX - 1 at the
    branch test and at the bit flip; add sets the bit (|=), remove clears a set bit (^= under the
    set-bit branch or &= !mask)."""
    r = Result()
    for name, push_name, want_edge in (('add', 'push_from_buffer_and_component', False), ('remove', 'push_from_buffer_skipping_component', True)):
        fs = [f for f in prog.fns.values() if f.path == 'world::entry::Entry::<\'a, Registry, Resources>::%s' % name]
        if len(fs) != 1:
            r.viol('P5', 'missing/Entry::' + name, '-', 'Entry::%s not found' % name)
            continue
        f = fs[0]
        key = 'Entry::' + name
        r.inst(key)
        E = pathsem.analyse(prog, f)
        rets = [p for p in E.paths if p.ended == 'return']
        rep = set()

        def once(k, ln, msg, key=key, f=f, rep=rep):
            if k not in rep:
                rep.add(k)
                r.viol('P5', key + '/' + k, f.loc(ln), msg)
        if E.truncated or not rets:
            once('not-analysable', None, 'path enumeration cut off')
            continue
        S = pathsem.strip_refs
        me = ('p', 1, f.body.local_name(1) or 'self')
        SAMPLES = [(1, 0), (8, 3), (9, 0), (9, 8), (17, 16), (20, 7), (64, 31)]

        def leaf_for(L, I, extra=None):
            def leaf(t):
                if t[0] == 'k' and isinstance(t[1], str):
                    if '::LEN<' in t[1]:
                        return L
                    if '::INDEX<' in t[1]:
                        return I
                if extra is not None:
                    return extra(t)
                return None
            return leaf

        def is_test(a_):
            return isinstance(a_, tuple) and a_[0] == 'call' and a_[1].endswith('::get_unchecked') and 'IdentifierRef' in a_[1] and len(a_[2]) == 2
        steps = ['pop_row_unchecked', 'get_mut_or_insert_new', push_name, 'modify_location_unchecked']
        n_move = n_stay = 0
        for p in rets:
            tests = [(a_, v) for a_, v in p.conds if is_test(a_)]
            calls = {n: p.calls(lambda e, n=n: e['name'] == n) for n in steps}
            if len(tests) != 1:
                once('bit-test', None, 'expected exactly one test of the component bit in the entity\'s archetype identifier on every path')
                continue
            (ta, tv) = tests[0]
            for (L, I) in SAMPLES:
                got = pathsem.evaluate(ta[2][1], leaf_for(L, I))
                if got != L - I - 1:
                    once('bit-index', None, 'component bit index evaluates to %s for LEN=%d INDEX=%d, expected LEN - INDEX - 1' % (got, L, I))
                    break
            if not pathsem.mentions(ta[2][0], lambda t: t == me):
                once('bit-test', None, 'the bit test is not applied to the entry\'s own archetype identifier')
            moving = (tv is want_edge)
            if not moving:
                n_stay += 1
                for n in steps:
                    if calls[n]:
                        once('moves-on-stay-branch/' + n, calls[n][0]['ln'], '%s reachable on the branch that must leave the entity in place' % n)
                continue
            n_move += 1
            summ = push_summary(prog, calls[push_name][0]) if len(calls[push_name]) == 1 else None
            records = bool(summ and summ.get('records'))
            bad_count = [n for n in steps if len(calls[n]) != (0 if (n == 'modify_location_unchecked' and records) else 1)]
            if bad_count:
                once('step-count/' + bad_count[0], None, 'shape change must %s exactly once on the moving path (found %d in Entry::%s%s)' % (
                    'update the moved entity\'s location' if bad_count[0] == 'modify_location_unchecked' else 'call ' + bad_count[0], len(calls[bad_count[0]]), name, ', and the push records it as well' if records else ''))
                continue
            pop, gmi, push = (calls[n][0] for n in steps[:3])
            mod = calls['modify_location_unchecked'][0] if not records else None
            if not (pop['i'] < gmi['i'] < push['i'] and (mod is None or push['i'] < mod['i'])):
                once('order/%s' % '-'.join(n for n, _ in sorted(((n, calls[n][0]['i']) for n in steps), key=lambda x: x[1])), None, 'pop, archetype lookup, push and location update must happen in this order')
            # popped row: the entry's own row of the entry's own archetype
            li = adt_field_index(prog, 'world::entry::Entry', 'location')
            loc_i = adt_field_index(prog, 'entity::allocator::location::Location', 'index')
            if not (pathsem.is_field_of(pop['args'][1], 'entity::allocator::location::Location', loc_i) and pathsem.mentions(pop['args'][1], lambda t: t == me)):
                once('pops-other-row', pop['ln'], 'the row popped is not the entry\'s own row')
            # bit flip on the copied identifier bytes
            flips = [e for e in p.events if e['k'] == 'store' and pop['i'] < e['i'] < gmi['i'] and
                     pathsem.mentions(e['loc'], lambda t: t[0] == 'call' and t[1].rsplit('::', 1)[-1] in ('get_unchecked_mut', 'index_mut', 'get_mut'))]
            if len(flips) != 1:
                once('bit-flip', None, 'expected exactly one bit update of the copied identifier on the move branch (found %d)' % len(flips))
            else:
                fl = flips[0]
                bytecall = [t for t in pathsem.subterms(fl['loc']) if t[0] == 'call' and t[1].rsplit('::', 1)[-1] in ('get_unchecked_mut', 'index_mut', 'get_mut')][0]
                oldbyte = fl['loc']
                for (L, I) in SAMPLES:
                    bit = L - I - 1
                    bi = pathsem.evaluate(bytecall[2][1], leaf_for(L, I))
                    if bi != bit // 8:
                        once('bit-byte', fl['ln'], 'updated byte is not component_index / 8 of the identifier copy (LEN=%d INDEX=%d: byte %s)' % (L, I, bi))
                        break
                    okv = True
                    for x in (0x00, 0xFF, 0xA5, 0x5A, 0x80, 0x01):
                        if (name == 'remove') != bool((x >> (bit % 8)) & 1):
                            continue      # the bit is known to be set (remove) / clear (add) on the moving path
                        got = pathsem.evaluate(fl['value'], leaf_for(L, I, lambda t, x=x: x if (t == oldbyte or S(t) == S(oldbyte)) else None))
                        want = (x | (1 << (bit % 8))) if name == 'add' else (x & ~(1 << (bit % 8)) & 0xFF)
                        if got != want:
                            okv = False
                            once('bit-mask', fl['ln'], 'Entry::%s must %s exactly the component bit: byte 0x%02x becomes %s for LEN=%d INDEX=%d (expected 0x%02x)' % (name, 'set' if name == 'add' else 'clear', x, hex(got) if got is not None else got, L, I, want))
                            break
                    if not okv:
                        break
                # the archetype looked up is the one identified by the flipped copy
                vec_root = S(bytecall[2][0])
                if not pathsem.mentions(gmi['args'][1], lambda t: S(t) == vec_root or t == vec_root or pathsem.iter_chain(t)[0] == pathsem.iter_chain(vec_root)[0]):
                    once('target-archetype', gmi['ln'], 'the target archetype is not looked up with the modified identifier copy')
            # row threaded through: push gets the popped entity and bytes
            row = pop['ret']
            # the packed components travel in the value pop returns, or in a buffer the caller handed to pop
            bufs = [t for a_ in list(pop['args'][2:]) + list(pop['vals'][2:]) for t in pathsem.subterms(a_)
                    if isinstance(t, tuple) and t[0] == 'call' and t[1].startswith('alloc::vec::Vec') and t[1].rsplit('::', 1)[-1] in ('with_capacity', 'new', 'with_capacity_in')]
            bytes_ok = pathsem.mentions(push['args'][2], lambda t: t == row) or any(pathsem.mentions(x, lambda t, b_=b_: t == b_) for b_ in bufs for x in (push['args'][2], push['vals'][2]))
            if not (S(push['args'][0]) == gmi['ret'] and pathsem.mentions(push['args'][1], lambda t: t == row) and bytes_ok):
                once('row-not-threaded', push['ln'], 'the popped row (identifier and packed components) is not what is pushed into the target archetype')
            ladt = prog.adts.get('entity::allocator::location::Location')
            lnames = [x['name'] for x in ladt['variants'][0]['fields']] if ladt else []
            if summ is not None and summ.get('kind') == 'location':
                # the push itself builds (and, if `records`, stores) the location of the row it pushed — checked on the
                # callee (push_summary) — and hands it back
                lc = {'ret': push['ret'], 'ln': push['ln']}
                if not summ.get('ok'):
                    once('location-new', push['ln'], 'the location returned by %s is not (identifier of that archetype, index of the pushed row)' % push['name'])
                    continue
                if records:
                    ai, ej = summ['alloc_pos'], summ['entity_pos']
                    aa = push['args']
                    alloc_f = adt_field_index(prog, 'world::World', 'entity_allocator')
                    if not (ai < len(aa) and pathsem.mentions(aa[ai], lambda t: pathsem.is_field_of(t, 'world::World', alloc_f)) and pathsem.mentions(aa[ai], lambda t: t == me)):
                        once('allocator-gets-other-location', push['ln'], 'the push is not handed this world\'s entity allocator to record the new location in')
                    if not (ej < len(aa) and pathsem.mentions(aa[ej], lambda t: t == row)):
                        once('allocator-gets-other-entity', push['ln'], 'the location is not updated for the entity that was moved')
                else:
                    if S(mod['args'][2]) != push['ret']:
                        once('allocator-gets-other-location', mod['ln'], 'allocator is not given the location the push returned')
                    if not pathsem.mentions(mod['args'][1], lambda t: t == row):
                        once('allocator-gets-other-entity', mod['ln'], 'the location is not updated for the entity that was moved')
            else:
                # the new location: whatever the allocator is handed — `Location::new(identifier, index)` or the struct itself
                lv = S(mod['args'][2]) if len(mod['args']) > 2 else None
                l_id = l_ix = None
                if isinstance(lv, tuple) and lv[0] == 'call' and lv[1].endswith('location::Location::<R>::new') and len(lv[2]) == 2:
                    l_id, l_ix = lv[2]
                elif isinstance(lv, tuple) and lv[0] == 'agg' and lv[1] == 'entity::allocator::location::Location' and 'identifier' in lnames and 'index' in lnames:
                    l_id, l_ix = lv[4][lnames.index('identifier')], lv[4][lnames.index('index')]
                if l_id is None:
                    once('location-new', mod['ln'], 'the allocator is not handed a location built from the target archetype\'s identifier and the new row index')
                    continue
                lc = {'ret': lv, 'ln': mod['ln']}
                # what the push returns: the row index (length before the push) or — after a contract change — the row
                # count (one more); read off the callee, the caller must use it accordingly
                off = summ.get('off') if summ else None
                if off is None:
                    once('location-index', lc['ln'], 'cannot relate the value returned by %s to the row it pushed' % push['name'])
                else:
                    want = pathsem.lin(push['ret']) - Lin.k(off)
                    got = pathsem.lin(l_ix)
                    if str(got) != str(want):
                        once('location-index', lc['ln'], 'new location does not use the row index of the pushed row (the push returns %s, the location stores %s)' % ('the row index' if off == 0 else 'the row index + %d' % off, pathsem.tstr(l_ix)[:60]))
                ida = S(l_id)
                if not (isinstance(ida, tuple) and ida[0] == 'call' and ida[1].endswith('::identifier') and S(ida[2][0]) == gmi['ret']):
                    once('location-identifier', lc['ln'], 'new location does not use the target archetype\'s identifier')
                if not pathsem.mentions(mod['args'][1], lambda t: t == row):
                    once('allocator-gets-other-entity', mod['ln'], 'the location is not updated for the entity that was moved')
            wrote = [e for e in p.events if e['k'] == 'store' and pathsem.is_field_of(e['loc'], 'world::entry::Entry', li) and S(e['value']) == lc['ret']]
            if not wrote:
                once('entry-location-stale', None, 'the entry keeps its old location after the move: a second add/remove on the same entry would address the wrong row')
        if not n_move or not n_stay:
            once('branch', None, 'bit test does not control a branch (moving paths: %d, staying paths: %d)' % (n_move, n_stay))
    return r


_PUSH_SUMM = {}


def push_summary(prog, ev):
    """What an Archetype push method hands back, read off its own paths: {'kind': 'index', 'off': c} when it returns
    (index of the pushed row) + c (0: `self.length - 1` after the increment, 1: the new row count); {'kind':
    'location', 'ok': identifier is this archetype's and index is the pushed row's, 'records': it also stores that
    location for the entity in the allocator it was given, 'alloc_pos'/'entity_pos': which arguments those are}."""
    tgt = ev['f'].get('res') or ev['f']
    dp = tgt.get('dp')
    key = (id(prog), dp)
    if key in _PUSH_SUMM:
        return _PUSH_SUMM[key]
    out = None
    f = prog.fns.get(dp)
    if f is not None:
        S = pathsem.strip_refs
        li = adt_field_index(prog, 'archetype::Archetype', 'length')
        ii = adt_field_index(prog, 'archetype::Archetype', 'identifier')
        ladt = prog.adts.get('entity::allocator::location::Location')
        lnames = [x['name'] for x in ladt['variants'][0]['fields']] if ladt else []
        me = ('p', 1, f.body.local_name(1) or '')
        E = pathsem.analyse(prog, f)
        outs = []
        for p in E.paths:
            if p.ended != 'return':
                continue
            v = S(p.ret)

            def row_off(t):
                L = pathsem.lin(t)
                atoms = [a_ for a_ in L.terms if pathsem.is_field_of(a_, 'archetype::Archetype', li)]
                if len(L.terms) == 1 and len(atoms) == 1 and L.terms[atoms[0]] == 1:
                    return L.const
                return None
            l_id = l_ix = None
            if isinstance(v, tuple) and v[0] == 'call' and v[1].endswith('location::Location::<R>::new') and len(v[2]) == 2:
                l_id, l_ix = v[2]
            elif isinstance(v, tuple) and v[0] == 'agg' and v[1] == 'entity::allocator::location::Location' and 'identifier' in lnames and 'index' in lnames:
                l_id, l_ix = v[4][lnames.index('identifier')], v[4][lnames.index('index')]
            if l_id is not None:
                ok = row_off(l_ix) == 0 and pathsem.mentions(l_id, lambda t: pathsem.is_field_of(t, 'archetype::Archetype', ii) and pathsem.mentions(t, lambda w: w == me))
                rec = [e for e in p.calls(lambda e: e['name'] == 'modify_location_unchecked') if len(e['args']) > 2 and S(e['args'][2]) == v]
                d = {'kind': 'location', 'ok': bool(ok), 'records': len(rec) == 1}
                if len(rec) == 1:
                    ap = [x for x in (S(rec[0]['args'][0]), ) if isinstance(x, tuple)]
                    params = {('p', i, f.body.local_name(i) or ''): i for i in range(1, f.body.argc + 1)}
                    a0 = S(rec[0]['args'][0])
                    while isinstance(a0, tuple) and a0[0] == 'd':
                        a0 = S(a0[1])
                    e1 = S(rec[0]['args'][1])
                    d['alloc_pos'] = params.get(a0, 0) - 1
                    d['entity_pos'] = params.get(e1, 0) - 1
                    if d['alloc_pos'] < 0 or d['entity_pos'] < 0:
                        d['ok'] = False
                elif rec:
                    d['ok'] = False
                outs.append(d)
            else:
                c = row_off(v)
                outs.append({'kind': 'index', 'off': c})
        if outs and not E.truncated and all(o == outs[0] for o in outs):
            out = outs[0]
    _PUSH_SUMM[key] = out
    return out


def field_of_self(prog, body, op, field):
    nm = receiver_name(prog, body, op)
    return nm is not None and (nm == 'self.' + field or nm.endswith('.' + field))


def table_lookups(prog, p):
    """Look-ups of an archetype table by the bytes of an identifier, on path p, in either spelling:
    `get[_mut]_with_foreign(self, X)` or `foreign_identifier_lookup.get(X.as_slice())` followed by `get[_mut](self, id)`.
    -> [{'i': event index of the (first) call, 'key': term X, 'miss': True if the path found no table, 'hit': True if
    it found one, 'table': term of the table found (or None)}]"""
    S = pathsem.strip_refs
    fil = adt_field_index(prog, 'archetypes::Archetypes', 'foreign_identifier_lookup')
    out = []
    for g in p.calls(lambda g: g['name'] in ('get_with_foreign', 'get_mut_with_foreign')):
        d = p.lookup(('discr', g['ret']))
        out.append({'i': g['i'], 'key': S(g['vals'][1]) if len(g['vals']) > 1 else None, 'miss': d == 0, 'hit': d == 1,
                    'table': ('f', ('down', g['ret'], 'Some', 1), 0, 'core::option::Option'), 'ret': g['ret']})
    for g in p.calls(lambda g: g['name'] in ('get', 'get_key_value') and 'HashMap' in g['path'] and len(g['args']) >= 2 and pathsem.is_field_of(g['args'][0], 'archetypes::Archetypes', fil)):
        key = S(g['vals'][1])
        while isinstance(key, tuple) and key[0] == 'call' and key[1].rsplit('::', 1)[-1] in ('as_slice', 'deref', 'as_ref', 'borrow') and key[2]:
            key = S(key[2][0])
        d = p.lookup(('discr', g['ret']))
        rec = {'i': g['i'], 'key': key, 'miss': d == 0, 'hit': False, 'table': None, 'ret': g['ret']}
        if d == 1:
            pay = ('f', ('down', g['ret'], 'Some', 1), 0, 'core::option::Option')
            for h in p.calls(lambda h: h['name'] in ('get', 'get_mut') and h['path'].startswith('archetypes::Archetypes') and h['i'] > g['i']
                             and pathsem.mentions(h['vals'][1] if len(h['vals']) > 1 else None, lambda t: t == pay)):
                d2 = p.lookup(('discr', h['ret']))
                if d2 == 0:
                    rec['miss'] = True
                elif d2 == 1:
                    rec['hit'] = True
                    rec['table'] = ('f', ('down', h['ret'], 'Some', 1), 0, 'core::option::Option')
                    rec['ret'] = h['ret']
        out.append(rec)
    return out


@rule('P7', props=['C13', 'C05', 'C01', 'C10', 'C16'], floor=6, configs=('all', 'default'))
def p7_archetype_tables(prog):
    """Archetype table protocol: (a) an archetype is inserted into raw_archetypes only on the miss branch of
    a lookup of its identifier bytes in foreign_identifier_lookup (one table per component set) and
    together with an insertion of those bytes into foreign_identifier_lookup; (b) type_id_lookup values
    come from the identifier of the archetype just found/inserted or from identifier_map; (c) in
    shrink_to_fit every erase comes after both purge loops, only empty archetypes are scheduled for
    erasure, and each scheduled archetype's identifier is scheduled for purging."""
    r = Result()
    til0 = adt_field_index(prog, 'archetypes::Archetypes', 'type_id_lookup')

    def touches_til(f):
        # a place `<Archetypes>.type_id_lookup` anywhere in the function or its closures (type-checked projection)
        for g in [f] + f.closures():
            for b_, i_, s_ in g.body.stmts():
                if s_['k'] != 'assign':
                    continue
                for pl in ([s_['rv'].get('place')] if s_['rv'].get('place') else []) + [s_['place']]:
                    for j, e in enumerate(pl['p']):
                        if isinstance(e, dict) and e.get('f') == til0:
                            base = peel_refs(g.body.place_ty({'l': pl['l'], 'p': pl['p'][:j]}))
                            if base is not None and is_adt(base, 'archetypes::Archetypes'):
                                return True
        return False
    for f in prog.fns.values():
        if f.kind == 'Closure':
            continue
        own = f.path.startswith('archetypes::Archetypes::<R>::') and f.kind == 'AssocFn'
        # the table protocol is checked wherever the tables are touched (a step moved to a caller stays in view)
        if not own and not touches_til(f):
            continue
        body = f.body
        RAW_INS = ('insert', 'insert_entry', 'insert_no_grow', 'insert_in_slot')
        if any(True for g in [f] + f.closures() for _ in g.body.calls(lambda c: 'RawTable' in c['path'] and c['name'] in RAW_INS)):
            key = 'Archetypes::%s/raw-insert' % f.name
            r.inst(key)
            E = pathsem.analyse(prog, f)
            fil = adt_field_index(prog, 'archetypes::Archetypes', 'foreign_identifier_lookup')
            rep = set()
            if E.truncated:
                r.viol('P7', key + '/not-analysable', f.loc(), 'path enumeration cut off')
            for p in E.paths:
                for e in p.calls(lambda e: 'RawTable' in e['path'] and e['name'] in RAW_INS):
                    looks = [g for g in p.calls(lambda g: g['i'] < e['i'] and g['name'] in ('contains_key', 'get_mut'))
                             if pathsem.is_field_of(g['args'][0], 'archetypes::Archetypes', fil)]
                    miss = [g for g in looks if (p.lookup(g['ret']) is False if g['name'] == 'contains_key' else p.lookup(('discr', g['ret'])) == 0)]
                    miss += [t_ for t_ in table_lookups(prog, p) if t_['i'] < e['i'] and t_['miss']]
                    if not miss:
                        # no look-up is needed when a table made empty in this very function receives one copy of each
                        # element of an iteration over an existing table: the identifiers are distinct because they
                        # were distinct there
                        raw0 = adt_field_index(prog, 'archetypes::Archetypes', 'raw_archetypes')
                        S_ = pathsem.strip_refs
                        tbl = S_(e['vals'][0])
                        fresh = pathsem.is_field_of(tbl, 'archetypes::Archetypes', raw0) and isinstance(S_(tbl[1]), tuple) and S_(tbl[1])[0] == 'call' and \
                            S_(tbl[1])[1].startswith('archetypes::Archetypes') and S_(tbl[1])[1].rsplit('::', 1)[-1] in ('new', 'with_capacity') and \
                            not pathsem.mentions(tbl, lambda t: t[0] == 'p' and t[1] != 0 and not pathsem.mentions(tbl, lambda u: u[0] == 'call' and u[1].rsplit('::', 1)[-1] in ('len', 'capacity') and pathsem.mentions(u, lambda w: w == t)))
                        val = S_(e['vals'][2]) if len(e['vals']) > 2 else None
                        src_el = None
                        if isinstance(val, tuple) and val[0] == 'call' and val[1].rsplit('::', 1)[-1] == 'clone' and val[2]:
                            el = S_(val[2][0])
                            if isinstance(el, tuple) and el[0] == 'elem' and any(k_ in ('iter',) for k_ in pathsem.iter_chain(el[1])[1]) and \
                                    isinstance(S_(pathsem.iter_chain(el[1])[0]), tuple) and S_(pathsem.iter_chain(el[1])[0])[0] == 'p':
                                src_el = el
                        once_each = src_el is not None and len([1 for q in p.calls(lambda q: 'RawTable' in q['path'] and q['name'] in RAW_INS and len(q['vals']) > 2 and S_(q['vals'][2]) == val)]) == 1
                        if fresh and once_each:
                            miss = [e]
                    if not miss and 'm' not in rep:
                        rep.add('m')
                        r.viol('P7', key + '/not-on-miss-branch', f.loc(e['ln']), 'archetype inserted without first finding that no table for these identifier bytes exists: entities with one component set could be split over two tables')
                    regs = p.calls(lambda g: 'HashMap' in g['path'] and g['name'] in ('insert', 'insert_unique_unchecked') and pathsem.is_field_of(g['args'][0], 'archetypes::Archetypes', fil))
                    if not regs and p.ended == 'return' and 'r' not in rep:
                        rep.add('r')
                        r.viol('P7', key + '/no-lookup-entry', f.loc(e['ln']), 'archetype inserted into the table without registering its identifier bytes in foreign_identifier_lookup: later lookups by bytes miss it and a second table for the same component set is created')
        # (b) every value written into type_id_lookup (insert or extend) is the identifier of the archetype just
        #     found/inserted, or its image under an identifier map
        til = adt_field_index(prog, 'archetypes::Archetypes', 'type_id_lookup')
        mentions_til = touches_til(f)
        if mentions_til and f.name not in ('shrink_to_fit', 'new', 'with_capacity', 'eq', 'fmt', 'drop'):
            E = pathsem.analyse(prog, f, max_paths=30000)
            S = pathsem.strip_refs
            key = ('Archetypes::%s/type-id-insert' % f.name) if own else ('%s/type-id-insert' % f.path.split('<')[0][:60] + f.name)
            vals = []
            for p in E.paths:
                for e in p.calls(lambda e: 'HashMap' in e['path'] and e['name'] in ('insert', 'insert_unique_unchecked') and len(e['args']) >= 3 and pathsem.is_field_of(e['args'][0], 'archetypes::Archetypes', til)):
                    vals.append((e['args'][2], e['ln']))
                for e in p.calls(lambda e: e.get('consumer') and pathsem.is_field_of(e['args'][0], 'archetypes::Archetypes', til)):
                    ends = [c for c in p.events if c['k'] == 'consume_end' and c['i'] > e['i']]
                    if not ends:
                        continue      # the path ended inside the adaptor closure (e.g. unwrap_unchecked of None)
                    x = ends[0]['elem']
                    if isinstance(x, tuple) and x[0] == 'agg' and x[1] == 'tuple' and len(x[4]) == 2:
                        vals.append((x[4][1], e['ln']))
                    else:
                        vals.append((('unk', 'extend', x), e['ln']))
            if vals:
                r.inst(key)
            for v, ln in vals:
                def from_map(t):
                    if not (t[0] == 'call' and 'HashMap' in t[1] and t[1].rsplit('::', 1)[-1] in ('get', 'get_unchecked', 'index') and t[2]):
                        return False
                    m = S(t[2][0])
                    # an identifier *map* (parameter or local), not one of the tables of an Archetypes value
                    return not (isinstance(m, tuple) and m[0] == 'f' and isinstance(m[3], str) and m[3].endswith('archetypes::Archetypes'))
                ok = pathsem.mentions(v, lambda t: t[0] == 'call' and t[1].endswith('::identifier')) or pathsem.mentions(v, from_map)
                if not ok:
                    r.viol('P7', key + '/value-provenance', f.loc(ln), 'type_id_lookup entry does not point at the identifier of the archetype just found/inserted (or its image under identifier_map)')
                    break
    # (c) shrink_to_fit
    fs = [f for f in prog.fns.values() if f.path == 'archetypes::Archetypes::<R>::shrink_to_fit']
    if len(fs) != 1:
        r.viol('P7', 'shrink_to_fit/missing', '-', 'Archetypes::shrink_to_fit not found')
        return r
    f = fs[0]
    r.inst('Archetypes::shrink_to_fit')
    E = pathsem.analyse(prog, f, max_paths=30000)
    rets = [p for p in E.paths if p.ended == 'return']
    rep = set()

    def once(k, ln, msg):
        if k not in rep:
            rep.add(k)
            r.viol('P7', 'shrink_to_fit/' + k, f.loc(ln), msg)
    if E.truncated or not rets:
        once('not-analysable', None, 'path enumeration cut off')
        return r
    S = pathsem.strip_refs
    til = adt_field_index(prog, 'archetypes::Archetypes', 'type_id_lookup')
    fil = adt_field_index(prog, 'archetypes::Archetypes', 'foreign_identifier_lookup')
    n_erase = 0
    purged = set()

    def table_of(t):
        for nm, ix in (('type_id_lookup', til), ('foreign_identifier_lookup', fil)):
            if pathsem.mentions(t, lambda u: pathsem.is_field_of(u, 'archetypes::Archetypes', ix)):
                return nm
        return None
    for p in E.paths:
        if p.ended not in ('return', 'cutoff'):
            continue
        erases = p.calls(lambda e: 'RawTable' in e['path'] and e['name'] in ('erase', 'remove', 'erase_no_drop', 'remove_entry'))
        purges = [(e, table_of(e['args'][0])) for e in p.calls(lambda e: 'HashMap' in e['path'] and e['name'] in ('remove', 'remove_entry', 'retain'))]
        purges = [(e, t) for e, t in purges if t]
        n_erase += len(erases)
        purged |= {t for e, t in purges if not erases or e['i'] < erases[0]['i']}
        if erases:
            first = erases[0]['i']
            for e, t in purges:
                if e['i'] > first:
                    once('purge-after-erase', e['ln'], 'a lookup table is purged after archetypes were erased: the keys being compared point into freed identifier buffers')
            # both purge passes ran before the first erase: an iteration over (or retain on) each lookup table
            visited = set()
            for (a_, v), at in zip(p.conds, p.conds.at):
                if isinstance(a_, tuple) and a_[0] in ('next', 'nonempty', 'consumed') and at <= first:
                    t = table_of(a_[1])
                    if t:
                        visited.add(t)
            for e, t in purges:
                if e['i'] < first and e['name'] == 'retain':
                    visited.add(t)
            for t in ('type_id_lookup', 'foreign_identifier_lookup'):
                if t not in visited:
                    once('no-purge', erases[0]['ln'], 'shrink_to_fit erases archetypes without purging %s: dangling identifier references remain in the lookup table' % t)
        # scheduling: only empty archetypes, table and identifier together
        emp = p.calls(lambda e: e['name'] == 'is_empty' and 'Archetype' in e['path'])
        sched_ids = p.calls(lambda e: 'HashSet' in e['path'] and e['name'] == 'insert')
        sched_tabs = [e for e in p.calls(lambda e: e['name'] == 'push' and e['path'].startswith('alloc::vec::Vec')) if any('Bucket' in ty_str(a_) for a_ in e['f'].get('args', []))]
        if (sched_ids or sched_tabs) and not emp:
            once('no-empty-test', None, 'archetypes are scheduled for erasure without testing is_empty()')
        for em in emp:
            tv = p.lookup(em['ret'])
            nxt = [x['i'] for x in emp if x['i'] > em['i']]
            end = nxt[0] if nxt else len(p.events)
            ids = [e for e in sched_ids if em['i'] < e['i'] < end]
            tabs = [e for e in sched_tabs if em['i'] < e['i'] < end]
            if tv is False and (ids or tabs):
                once('schedules-nonempty', (ids + tabs)[0]['ln'], 'an archetype is scheduled for erasure outside the is_empty() branch: live rows would be destroyed')
            if tv is True and p.ended == 'return' and (len(ids) != 1 or len(tabs) != 1):
                once('schedule-pairing', em['ln'], 'scheduling a table for erasure and its identifier for purging must happen together (identifiers %d, tables %d)' % (len(ids), len(tabs)))
    for t in ('type_id_lookup', 'foreign_identifier_lookup'):
        if n_erase and t not in purged:
            once('no-purge', None, 'shrink_to_fit never removes the erased archetypes\' keys from %s: dangling identifier references remain in the lookup table' % t)
    if not n_erase:
        once('no-erase', None, 'shrink_to_fit no longer removes empty tables (rule cannot anchor)')
    return r


def json_s(x):
    import json
    return json.dumps(x)


@rule('C10a', props=['C10', 'C13', 'C01', 'C04', 'C16', 'C06'], floor=2, configs=('all', 'default'))
def c10a_clone_from_clears(prog):
    """Archetypes::clone_from: every path to return runs the pass that clears (clear_detached) each
    destination archetype that is not the image of a source archetype (test: `!set_of_images.contains`);
    source archetypes are cloned into an existing table or a freshly cloned one that is inserted; the
    identifier map records every source archetype."""
    r = Result()
    fs = [f for f in prog.fns.values() if f.path == 'archetypes::Archetypes::<R>::clone_from']
    if len(fs) != 1:
        r.viol('C10a', 'missing', '-', 'Archetypes::clone_from not found')
        return r
    f = fs[0]
    r.inst('Archetypes::clone_from')
    E = pathsem.analyse(prog, f, max_paths=30000)
    rets = [p for p in E.paths if p.ended == 'return']
    done = set()

    def once(k, ln, msg):
        if k not in done:
            done.add(k)
            r.viol('C10a', k, f.loc(ln), msg)
    if E.truncated or not rets:
        once('not-analysable', None, 'path enumeration cut off')
        return r
    def S(t):
        return pathsem.canon(pathsem.strip_refs(t))
    body = f.body
    p_self = ('p', 1, body.local_name(1) or 'self')
    p_src = ('p', 2, body.local_name(2) or 'source')

    def yielded(p, root_name, owner):
        """elements produced on path p by iterating <owner>.<root_name>()"""
        out = []
        for a_, v in p.conds:
            if isinstance(a_, tuple) and ((a_[0] == 'next' and v == 1) or (a_[0] == 'nonempty' and v is True)):
                root, kinds = pathsem.iter_chain(a_[1])
                if S(root) == owner and root_name in kinds:
                    out.append(pathsem.canon(('elem', a_[1]) + tuple(a_[2:3] if a_[0] == 'next' else ())))
        return out

    def ident_of(p, t):
        """if t is the result of `<archetype>.identifier()` -> the archetype value it was called on"""
        for e in p.calls(lambda e: e['name'] == 'identifier' and e.get('ret') is not None and S(e['ret']) == S(t)):
            return S(e['vals'][0])
        return None
    n_src = n_dst = 0
    # every source archetype is visited: the source loop's iterator is not filtered / truncated
    for p in E.paths:
        for a_, v in p.conds:
            if isinstance(a_, tuple) and a_[0] in ('next', 'nonempty', 'consumed'):
                root, kinds = pathsem.iter_chain(a_[1])
                if S(root) == p_src and 'iter' in kinds and any(k in ('filter', 'filter_map', 'skip', 'take', 'step_by', 'skip_while', 'take_while') for k in kinds):
                    once('source-archetype-skipped', None, 'the loop over the source archetypes filters or truncates them (%s): a source archetype that is skipped is never cloned into the destination, identifier_map stays incomplete and the two worlds end up with different tables' % '/'.join(kinds))
    for p in E.paths:
        if p.ended not in ('return', 'cutoff'):
            continue
        idmap = p.ret if p.ended == 'return' else None
        if p.ended == 'return' and not (isinstance(idmap, tuple) and idmap and idmap[0] == 'call'):
            # the map is not returned but consumed on the spot: it is the one the allocator is remapped with
            ac = p.calls(lambda e: e['name'] in ('clone_from', 'clone') and e['path'].startswith('entity::allocator::Allocator'))
            if ac:
                idmap = S(ac[-1]['vals'][-1])
        # ---- source loop
        for s_el in yielded(p, 'iter', p_src):
            n_src += 1
            cfs = p.calls(lambda e: e['name'] == 'clone_from' and len(e['vals']) == 2 and S(e['vals'][1]) == s_el)
            cls = p.calls(lambda e: e['name'] == 'clone' and e['f'].get('trait') == 'core::clone::Clone' and S(e['vals'][0]) == s_el)
            if len(cfs) + len(cls) == 0:
                # the path may have been cut off inside this iteration
                if p.ended == 'return':
                    once('source-archetype-skipped', None, 'an iteration over the source archetypes can finish without cloning that archetype into the destination (neither clone_from nor clone+insert): identifier_map stays incomplete and lookups later point into the source world')
                continue
            if len(cfs) + len(cls) > 1:
                once('source-loop-shape', (cfs + cls)[0]['ln'], 'a source archetype is cloned more than once on a path')
                continue
            if cfs:
                dest = S(cfs[0]['vals'][0])
                # dest must be the table found for the source's identifier
                ok = isinstance(dest, tuple) and any(t_['hit'] and t_['key'] is not None and ident_of(p, t_['key']) == s_el and pathsem.mentions(dest, lambda t, r_=S(t_['ret']): t == r_) for t_ in table_lookups(prog, p))
                if not ok:
                    once('clone-target', cfs[0]['ln'], 'a source archetype is cloned into a table that was not looked up by the source archetype\'s identifier')
                at = cfs[0]['i']
            else:
                dest = S(cls[0]['ret'])
                ins = p.calls(lambda e: (e['name'] == 'insert' and e['path'].startswith('archetypes::Archetypes') and S(e['vals'][1]) == dest) or
                              ('RawTable' in e['path'] and e['name'] in ('insert', 'insert_entry', 'insert_no_grow') and len(e['vals']) > 2 and S(e['vals'][2]) == dest))
                if not ins:
                    if p.ended == 'return':
                        once('clone-not-inserted', cls[0]['ln'], 'a freshly cloned archetype is not inserted into the destination')
                    continue
                miss = [t_ for t_ in table_lookups(prog, p) if t_['i'] < cls[0]['i'] and t_['miss'] and t_['key'] is not None and ident_of(p, t_['key']) == s_el]
                if not miss:
                    once('clone-without-lookup', cls[0]['ln'], 'a source archetype is cloned into a new table without first finding that the destination has no table for its identifier')
                at = cls[0]['i']
            recs = [e for e in p.calls(lambda e: e['name'] == 'insert' and 'HashMap' in e['path'] and len(e['args']) >= 3)
                    if ident_of(p, S(e['vals'][1])) == s_el and ident_of(p, S(e['vals'][2])) in (dest, S(dest))]
            if not recs and p.ended == 'return':
                once('identifier-map-incomplete', (cfs + cls)[0]['ln'], 'a cloned archetype is not recorded in identifier_map: slots pointing at it cannot be remapped')
            for e in recs:
                if idmap is not None and S(e['vals'][0]) != idmap:
                    once('identifier-map-incomplete', e['ln'], 'the source/destination pair is recorded in a map that is not the one returned')
        if p.ended != 'return':
            continue
        # ---- clear pass
        nexts = [a_ for a_, v in p.conds if isinstance(a_, tuple) and a_[0] in ('next', 'nonempty') and
                 (lambda rk: S(rk[0]) == p_self and 'iter_mut' in rk[1])(pathsem.iter_chain(a_[1]))]
        def skip_justified():
            """The pass has nothing to clear when every table of `self` is the image of a source archetype. A path may
            skip it if it established that by counting: (a) `identifier_map.len()` (one entry, one distinct image, per
            source archetype) is not below the number of tables `self` holds *now* (read after the last insert), or
            (b) a count of the look-up hits of this path is not below the number of tables `self` held *before* any
            insert (the new tables are images by construction)."""
            raw_i = adt_field_index(prog, 'archetypes::Archetypes', 'raw_archetypes')
            ins_ep = [e['epoch'] for e in p.calls(lambda e: e['name'] in ('insert', 'insert_unique_unchecked', 'insert_unchecked') and
                                                  (S(e['vals'][0]) in (p_self, ('d', p_self)) or pathsem.mentions(e['vals'][0], lambda t: pathsem.is_field_of(t, 'archetypes::Archetypes', raw_i) and S(S(t)[1]) in (p_self, ('d', p_self)))))]
            hits = len([1 for e in p.calls(lambda e: e['name'] == 'clone_from' and len(e['vals']) == 2) if any(t_['hit'] and pathsem.mentions(S(e['vals'][0]), lambda t, r_=S(t_['ret']): t == r_) for t_ in table_lookups(prog, p))])

            def tables_len(t):
                # -> epoch of a `len()` of self's table, or None
                if isinstance(t, tuple) and t[0] == 'call' and t[1].rsplit('::', 1)[-1] == 'len' and len(t) > 4 and t[2] and \
                        pathsem.mentions(t[2][0], lambda u: pathsem.is_field_of(u, 'archetypes::Archetypes', raw_i) and S(S(u)[1]) in (p_self, ('d', p_self))):
                    return t[4] if t[4] is not None else -1
                return None

            def images(t, ep_tables):
                if isinstance(t, tuple) and t[0] == 'call' and t[1].rsplit('::', 1)[-1] == 'len' and 'HashMap' in t[1] and t[2] and idmap is not None and S(t[2][0]) == idmap:
                    # the whole map, against the tables as they are after the last insert
                    return all(ep_tables >= e_ for e_ in ins_ep)
                if isinstance(t, tuple) and t[0] == 'c' and t[1] == hits:
                    # this path's hits, against the tables as they were before the first insert
                    return all(ep_tables < e_ for e_ in ins_ep)
                return False
            for a_, v in p.conds:
                if not (isinstance(a_, tuple) and a_[0] == 'bin' and a_[1] in ('Lt', 'Eq') and not isinstance(v, tuple)):
                    continue
                x, y = a_[2], a_[3]
                for im, tb, ok in ((x, y, (a_[1] == 'Lt' and v is False) or (a_[1] == 'Eq' and v is True)), (y, x, (a_[1] == 'Lt' and v is True) or (a_[1] == 'Eq' and v is True))):
                    ep = tables_len(tb)
                    if ok and ep is not None and images(im, ep):
                        return True
            return False
        if not nexts and not skip_justified():
            once('clear-pass-skippable', None,
                 'a path through clone_from returns without running the pass that clears destination-only archetypes: their rows (and identifiers) survive and the world holds entities the source never had')
        for d_el in yielded(p, 'iter_mut', p_self):
            n_dst += 1
            cons = [e for e in p.calls(lambda e: e['name'] == 'contains' and 'HashSet' in e['path']) if ident_of(p, S(e['vals'][1])) == d_el]
            # the table-only clear of an archetype (no allocator involved), whatever it is called
            cds = p.calls(lambda e: e['name'] in ('clear_detached', 'clear') and e['path'].startswith('archetype::Archetype') and len(e['vals']) == 1 and S(e['vals'][0]) == d_el)
            if not cons:
                once('clear-guard', None, 'clear_detached must be applied exactly to archetypes that are NOT an image of a source archetype (no membership test found)')
                continue
            c = cons[0]
            tv = p.lookup(c['ret'])
            if tv is False and not cds:
                once('no-clear-pass', c['ln'], 'destination archetypes that the source lacks are not cleared: their entities survive the clone_from')
            if tv is True and cds:
                once('clear-guard', cds[0]['ln'], 'clear_detached must be applied exactly to archetypes that are NOT an image of a source archetype')
            if tv is None:
                once('clear-guard', c['ln'], 'the membership test does not decide whether the archetype is cleared')
            # provenance of the set: collected from identifier_map.values()
            st_ = S(c['vals'][0])
            vals = [e for e in p.calls(lambda e: e['name'] == 'values' and 'HashMap' in e['path']) if pathsem.mentions(st_, lambda t: t[0] == 'it' and t[1] == 'values') or pathsem.mentions(st_, lambda t: t == e.get('ret'))]
            if not any(S(e['vals'][0]) == idmap for e in vals):
                once('image-set-provenance', c['ln'], 'the set of cloned-into archetypes is not built from identifier_map.values()')
    r.inst('Archetypes::clone_from source loop')
    if not n_src or not n_dst:
        once('clear-loop-source' if not n_dst else 'source-loop-shape', None, 'could not find the %s loop' % ('clearing' if not n_dst else 'source'))
    return r


@rule('A2', props=['C06', 'C10', 'C16', 'C02', 'C01', 'C13'], floor=4, configs=('all',))
def a2_free_list_provenance(prog):
    """The free list is an ordered queue (it decides which identifier the next insert returns and takes
    part in equality): Allocator::clone / clone_from copy it wholesale from the source's `free`, and the
    deserialiser's `free` is the validated input list itself — never a list recomputed by scanning
    slots (same set, different order)."""
    r = Result()
    adt = prog.adts['entity::allocator::Allocator']
    names = [x['name'] for x in adt['variants'][0]['fields']]
    fi = names.index('free')
    # clone: aggregate field `free` derived from Clone::clone(&self.free)
    fs = [f for f in prog.fns.values() if f.path == 'entity::allocator::Allocator::<R>::clone']
    if len(fs) == 1:
        f = fs[0]
        body = f.body
        r.inst('Allocator::clone free')
        ok = False
        for b, i, s in body.stmts():
            if s['k'] == 'assign' and s['rv']['k'] == 'agg' and s['rv'].get('path') == 'entity::allocator::Allocator':
                l = op_local(s['rv']['ops'][fi])
                d = single_def(body, access_of_local(body, l).root) if l is not None else None
                if d and d[0] == 'call' and d[2]['f']['name'] == 'clone' and (receiver_name(prog, body, d[2]['args'][0]) or '').endswith('self.free'):
                    ok = True
        if not ok:
            r.viol('A2', 'clone/free-not-copied', f.loc(), 'Allocator::clone does not copy the source free list verbatim')
    else:
        r.viol('A2', 'clone/missing', '-', 'Allocator::clone not found')
    fs = [f for f in prog.fns.values() if f.path == 'entity::allocator::Allocator::<R>::clone_from']
    if len(fs) == 1:
        f = fs[0]
        body = f.body
        r.inst('Allocator::clone_from free')
        # on every returning path the last thing done to `self.free` leaves it equal to `source.free`: a wholesale
        # `clone_from(&source.free)` / `= source.free.clone()`, or `clear()` where the path found `source.free` empty
        E = pathsem.analyse(prog, f)
        S = pathsem.strip_refs
        me = ('p', 1, body.local_name(1) or 'self')
        p_src = body.arg_local('source')
        src = ('p', p_src, 'source') if p_src else None

        def is_free_of(t, who):
            t = S(t)
            return who is not None and pathsem.is_field_of(t, 'entity::allocator::Allocator', fi) and S(t[1]) in (who, ('d', who))
        bad = None
        if E.truncated or not [p for p in E.paths if p.ended == 'return']:
            bad = ('free-not-copied', None, 'Allocator::clone_from not analysable')
        for p in E.paths:
            if p.ended != 'return' or bad:
                continue
            ops = []
            for e in p.events:
                if e['k'] == 'call' and e.get('vals') and is_free_of(e['vals'][0], me):
                    if e['name'] == 'clone_from' and e['f'].get('trait') == 'core::clone::Clone':
                        ops.append(('copy' if len(e['vals']) > 1 and is_free_of(e['vals'][1], src) else 'other', e))
                    elif 'VecDeque' in e['path'] and e['name'] not in ('len', 'is_empty', 'iter', 'get', 'front', 'back', 'contains', 'capacity', 'as_slices', 'clone', 'eq', 'ne', 'reserve', 'reserve_exact', 'try_reserve', 'shrink_to_fit', 'shrink_to', 'range', 'binary_search', 'fmt', 'hash'):
                        ops.append((e['name'], e))      # anything else may reorder or change the queue
                    elif e['name'] == 'extend' and e['f'].get('trait') == 'core::iter::Extend':
                        ops.append(('extend', e))
                elif e['k'] == 'store' and not e.get('synthetic') and is_free_of(e['loc'], me):
                    v = S(e['value'])
                    ops.append(('copy' if isinstance(v, tuple) and v[0] == 'call' and v[1].rsplit('::', 1)[-1] == 'clone' and v[2] and is_free_of(v[2][0], src) else 'other', e))
            if not ops:
                bad = ('free-not-copied', None, 'Allocator::clone_from does not copy the source free list verbatim (clone_from(&source.free)) on some path')
                continue
            kind, e = ops[-1]
            if kind == 'copy':
                continue
            src_empty = any(isinstance(a_, tuple) and a_[0] == 'call' and a_[1].rsplit('::', 1)[-1] == 'is_empty' and a_[2] and is_free_of(a_[2][0], src) and v is True for a_, v in p.conds) or \
                any(isinstance(a_, tuple) and a_[0] == 'bin' and a_[1] == 'Eq' and ('c', 0) in a_[2:] and any(isinstance(x, tuple) and x[0] == 'call' and x[1].rsplit('::', 1)[-1] == 'len' and x[2] and is_free_of(x[2][0], src) for x in a_[2:]) and v is True for a_, v in p.conds)
            if kind == 'clear' and src_empty:
                continue
            if any(k_ == 'copy' for k_, _ in ops) or kind in ('push_back', 'push_front', 'extend', 'insert'):
                bad = ('free-rebuilt', e.get('ln'), 'Allocator::clone_from rebuilds the free list element by element (%s): order of reuse differs from the source' % kind)
            else:
                bad = ('free-not-copied', e.get('ln'), 'Allocator::clone_from does not copy the source free list verbatim (clone_from(&source.free)): a path ends with `%s` on the free list' % kind)
        if bad:
            r.viol('A2', 'clone_from/' + bad[0], f.loc(bad[1]), bad[2])
    else:
        r.viol('A2', 'clone_from/missing', '-', 'Allocator::clone_from not found')
    # writer: SerializeFree iterates the free queue itself (its order is what the reader restores)
    fs = [f for f in prog.fns.values() if f.name == 'serialize' and f.impl and is_adt(f.impl['self'], 'entity::allocator::impl_serde::SerializeFree')]
    if len(fs) == 1:
        f = fs[0]
        r.inst('SerializeFree::serialize iterates free')
        E = pathsem.analyse(prog, f)
        n = 0
        bad = None
        bad_gen = None
        ORDERED = ('iter', 'into_iter', 'copied', 'cloned', 'by_ref', 'map', 'enumerate', 'inspect', 'peekable', 'fuse')
        for p in E.paths:
            for e in p.calls(lambda e: e['name'] == 'serialize_element'):
                n += 1
                v = e['vals'][1] if len(e['vals']) > 1 else None
                els = [t for t in pathsem.subterms(v) if t[0] == 'elem'] if v is not None else []
                ok = False
                for t in els:
                    root, kinds = pathsem.iter_chain(t[1])
                    if pathsem.is_field_of(root, 'entity::allocator::Allocator', fi) and all(k in ORDERED for k in kinds):
                        ok = True
                # the identifier written is (index, generation of the slot AT that index)
                if ok and v is not None:
                    S = pathsem.strip_refs
                    parts = None
                    if isinstance(v, tuple) and v[0] == 'agg' and v[1].endswith('entity::identifier::Identifier') and len(v[4]) == 2:
                        ii = adt_field_index(prog, 'entity::identifier::Identifier', 'index')
                        parts = (v[4][ii], v[4][1 - ii])
                    elif isinstance(v, tuple) and v[0] == 'call' and v[1].endswith('entity::identifier::Identifier::new') and len(v[2]) == 2:
                        parts = (v[2][0], v[2][1])
                    gs = adt_field_index(prog, 'Slot', 'generation')
                    slots_i = names.index('slots')
                    good = False
                    if parts is not None:
                        idx, gen = S(parts[0]), parts[1]
                        g = S(gen)
                        if pathsem.is_field_of(g, 'Slot', gs):
                            lk = [t for t in pathsem.subterms(g) if t[0] == 'call' and t[1].rsplit('::', 1)[-1] in ('get_unchecked', 'index', 'get') and len(t[2]) == 2]
                            good = any(S(t[2][1]) == idx and pathsem.mentions(t[2][0], lambda u: pathsem.is_field_of(u, 'entity::allocator::Allocator', slots_i)) for t in lk)
                    if not good:
                        bad_gen = bad_gen or e
                if not ok:
                    bad = bad or e
        if bad_gen is not None and bad is None:
            r.viol('A2', 'serialize/free-generation', f.loc(bad_gen['ln']), 'a freed identifier is serialised with a generation that is not the generation of the slot at its own index: after a round trip the slot\'s generation is rolled back or swapped and an identifier already issued can be issued again')
        lens = [e for p in E.paths for e in p.calls(lambda e: e['name'] == 'serialize_seq')]
        if E.truncated or not n or bad is not None:
            r.viol('A2', 'serialize/free-not-iterated', f.loc(bad['ln'] if bad else None), 'the serialised free list is not produced by iterating the allocator\'s free queue in queue order')
    fs = [f for f in prog.fns.values() if f.name == 'from_serialized_parts' and 'allocator' in f.path]
    if len(fs) == 1:
        f = fs[0]
        body = f.body
        r.inst('Allocator::from_serialized_parts free')
        ok = False
        for b, i, s in body.stmts():
            if s['k'] == 'assign' and s['rv']['k'] == 'agg' and s['rv'].get('path') == 'entity::allocator::Allocator':
                l = op_local(s['rv']['ops'][fi])
                root = access_of_local(body, l).root if l is not None else None
                # derived from the `free` parameter by moves / into() / collect over that very list
                fp = body.arg_local('free')
                if root is not None and fp is not None and (root == fp or root in derived(body, {fp})):
                    # must not be derived from the slots
                    ok = True
        if not ok:
            r.viol('A2', 'deserialize/free-recomputed', f.loc(), 'the deserialised allocator\'s free list is not the (validated) serialised list itself: order of reuse is lost')
    else:
        r.viol('A2', 'deserialize/missing', '-', 'Allocator::from_serialized_parts not found')
    return r


@rule('G8', props=['C05', 'C01', 'C04'], floor=3, configs=('all', 'default'))
def g8_lookup_and_row_operation_agree(prog):
    """The archetype a row operation runs on was looked up for the very entity shape the operation is instantiated
    with, and that shape is canonical: every `Archetype::push::<E>` / `reserve::<E>` / `extend::<Es>` whose receiver is
    the result of `Archetypes::get_mut_or_insert_new_for_entity::<L, _>` has E == L (for extend: `<Es as Contains>::Entity
    == L`), and L is a `Canonical` projection of the registry's ContainsEntity/ContainsEntities relation. The columns of
    an archetype are laid out in registry order; walking them with a shape in the caller's order grows or fills each
    column as a Vec of another component type."""
    r = Result()
    OPS = ('push', 'extend', 'reserve')
    S = pathsem.strip_refs
    seen_ops = 0
    for f in prog.fns.values():
        if f.kind == 'Closure':
            continue
        if not any(True for _ in f.body.calls(lambda c: c['name'] in OPS and c['path'].startswith('archetype::Archetype::<R>::'))):
            continue
        E = pathsem.analyse(prog, f, max_paths=20000)
        if E.truncated:
            r.viol('G8', f.path + '/not-analysable', f.loc(), 'path enumeration cut off')
            continue
        rep = set()
        for p in E.paths:
            if p.ended not in ('return', 'cutoff'):
                continue
            lookups = {e['ret']: e for e in p.calls(lambda e: e['name'] == 'get_mut_or_insert_new_for_entity')}
            for e in p.calls(lambda e: e['name'] in OPS and e['path'].startswith('archetype::Archetype::<R>::')):
                recv = S(e['args'][0])
                while isinstance(recv, tuple) and recv[0] == 'd':
                    recv = S(recv[1])
                lk = lookups.get(recv)
                if lk is None:
                    continue
                k = (e['name'], e['ln'])
                if k in rep:
                    continue
                rep.add(k)
                seen_ops += 1
                r.inst('%s: %s on the archetype looked up for the same shape' % (f.path[:80], e['name']))
                og = [json.loads(g) for g in e['gargs']]
                lg = [json.loads(g) for g in lk['gargs']]
                if len(og) < 2 or len(lg) < 2:
                    r.viol('G8', '%s/%s/shape' % (f.path, e['name']), f.loc(e['ln']), 'cannot read the generic instantiation')
                    continue
                op_t, lk_t = og[1], lg[1]
                if e['name'] == 'extend':
                    # lookup is for <Es as Contains>::Entity
                    ok = lk_t.get('k') == 'alias' and lk_t.get('name') == 'Entity' and lk_t.get('args') and ty_eq(lk_t['args'][0], op_t)
                    canon = op_t
                else:
                    ok = ty_eq(op_t, lk_t)
                    canon = lk_t
                if not ok:
                    r.viol('G8', '%s/%s/shape-differs' % (f.path, e['name']), f.loc(e['ln']),
                           'Archetype::%s is instantiated with %s but the archetype was looked up for %s: columns would be walked as Vecs of the wrong component types' % (e['name'], ty_str(op_t), ty_str(lk_t)))
                elif not (canon.get('k') == 'alias' and canon.get('name') == 'Canonical'):
                    r.viol('G8', '%s/%s/not-canonical' % (f.path, e['name']), f.loc(e['ln']),
                           'the entity shape %s used for the archetype is not the registry-ordered canonical form' % ty_str(canon))
    return r
