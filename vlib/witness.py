"""E2 witness engine (compile-pass / compile-fail families). Filled in below."""
FAMILIES = {}


def run_families(ctx, pid, tier, seed):
    out = []
    for fid, fam in sorted(FAMILIES.items()):
        if pid in fam.props:
            out.append((fid, fam.run(ctx, tier, seed)))
    return out
