"""E2 witness engine: generated client programs that must / must not type-check (or borrow-check)
against /repo's current working tree. rustc is the decision procedure; nothing is ever run."""
import json, os, shutil, subprocess, time, hashlib
from .engine import Violation
from . import facts as factsmod

VERIF = factsmod.VERIF
CACHE = os.path.join(VERIF, '.cache')
FAMILIES = {}

CLASSES = {
    'trait': {'E0277', 'E0271', 'E0282', 'E0283', 'E0284', 'E0599', 'E0275', 'E0308'},
    'borrow': {'E0499', 'E0502', 'E0505', 'E0506', 'E0597', 'E0716', 'E0521', 'E0503', 'E0515', 'E0713', 'E0712'},
    'privacy': {'E0451', 'E0603', 'E0616', 'E0624', 'E0423', 'E0639'},
    'unsafe': {'E0133'},
    'macro': {'MACRO'},
    'mismatch': {'E0308', 'E0271'},
}


class W:
    """One witness program."""

    def __init__(self, key, code, expect, cls=None, note=''):
        self.key = key          # stable key (no line numbers)
        self.code = code
        self.expect = expect    # 'compile' | 'fail'
        self.cls = cls          # error class for 'fail'
        self.note = note


def family(fid, props, floor, doc, quick_props=None):
    def deco(fn):
        FAMILIES[fid] = Fam(fid, props, floor, doc, fn)
        FAMILIES[fid].quick_props = quick_props if quick_props is not None else props
        return fn
    return deco


class Fam:
    def __init__(self, fid, props, floor, doc, gen):
        self.id = fid
        self.props = props
        self._floor = floor
        self.doc = doc
        self.gen = gen

    def run(self, ctx, tier, seed, pid=None):
        repo = ctx.repo or factsmod.REPO
        import inspect
        if 'pid' in inspect.signature(self.gen).parameters:
            ws, exhaustive = self.gen(tier, seed, pid=pid)
        else:
            ws, exhaustive = self.gen(tier, seed)
        res = check_witnesses(self.id, ws, repo)
        floor = self._floor.get(tier, 0) if isinstance(self._floor, dict) else self._floor
        viol = []
        for w, verdict, detail in res:
            if w.expect == 'compile' and verdict != 'accepted':
                viol.append(Violation(self.id, w.key + '/rejected', 'witness:' + w.key,
                                      ('the compile-time Stages type differs from the reference partition (%s): %s' if self.id == 'V-SCHED' else 'program that must compile (conflict-free twin / expected type) is rejected by the compiler (%s): %s') % (detail.get('codes'), w.note), {'code': w.code, 'rustc': detail.get('msg', '')[:1500]}))
            if w.expect == 'fail' and verdict == 'accepted':
                viol.append(Violation(self.id, w.key + '/accepted', 'witness:' + w.key,
                                      'program that must be rejected (%s) compiles: %s' % (w.cls, w.note), {'code': w.code}))
            if w.expect == 'fail' and verdict == 'other-error':
                viol.append(Violation(self.id, w.key + '/wrong-error', 'witness:' + w.key,
                                      'program is rejected, but not for the expected reason (%s; got %s): the witness no longer exercises the rule: %s' % (w.cls, detail.get('codes'), w.note), {'code': w.code, 'rustc': detail.get('msg', '')[:1500]}))
        if len(ws) < floor:
            viol.append(Violation(self.id, 'below-floor', '-', 'witness family generated %d programs, fewer than %d' % (len(ws), floor)))
        return {'programs': len(ws), 'keys': [w.key for w in ws], 'floor': floor, 'violations': viol, 'doc': self.doc,
                'samples': ['%s: %s [%s]' % (self.id, w.key, w.expect + ('/' + w.cls if w.cls else '')) for w in ws[:3]],
                'exhaustive': exhaustive}


CARGO_TOML = '''[package]
name = "witness"
version = "0.0.0"
edition = "2021"

[lib]
path = "src/lib.rs"

[dependencies]
brood = { path = "%s", features = ["serde", "rayon"] }
rayon = "1"
serde = { version = "1", default-features = false, features = ["alloc"] }

[workspace]
'''


def _crate_dir(name):
    return os.path.join(CACHE, 'witness', name)


_DEPS = {}


def _deps(repo):
    """Build brood (current working tree of `repo`, hooks on, all features) and the other dependencies
    once through cargo; return (deps_dir, {crate: rmeta path})."""
    if repo in _DEPS:
        return _DEPS[repo]
    d = _crate_dir('deps')
    os.makedirs(os.path.join(d, 'src'), exist_ok=True)
    with open(os.path.join(d, 'Cargo.toml'), 'w') as f:
        f.write(CARGO_TOML % repo)
    shutil.copy(os.path.join(repo, 'Cargo.lock'), os.path.join(d, 'Cargo.lock'))
    os.makedirs(os.path.join(d, '.cargo'), exist_ok=True)
    with open(os.path.join(d, '.cargo', 'config.toml'), 'w') as f:
        f.write('[net]\noffline = true\n')
    with open(os.path.join(d, 'src', 'lib.rs'), 'w') as f:
        f.write('// deps only\n')
    env = dict(os.environ)
    env['CARGO_NET_OFFLINE'] = 'true'
    env['RUSTFLAGS'] = '--cfg brood_verif -Awarnings'
    tag = '' if repo == '/repo' else '-' + hashlib.sha1(repo.encode()).hexdigest()[:8]
    env['CARGO_TARGET_DIR'] = os.path.join(CACHE, 'target-witness' + tag)
    env.pop('RUSTC_WORKSPACE_WRAPPER', None)
    p = subprocess.run(['cargo', 'check', '--offline', '--message-format=json', '--lib'], cwd=d, env=env,
                       stdout=subprocess.PIPE, stderr=subprocess.PIPE, text=True)
    arts = {}
    errors = []
    for line in p.stdout.splitlines():
        try:
            m = json.loads(line)
        except Exception:
            continue
        if m.get('reason') == 'compiler-artifact':
            n = m['target']['name']
            for fn in m.get('filenames', []):
                if fn.endswith('.rmeta'):
                    arts[n.replace('-', '_')] = fn
        if m.get('reason') == 'compiler-message' and m['message'].get('level') == 'error':
            errors.append(m['message'].get('rendered', '')[:1500])
    if p.returncode != 0 or 'brood' not in arts:
        raise RuntimeError('witness dependencies (brood with hooks, all features) failed to build:\n%s\n%s' % ('\n'.join(errors)[:4000], p.stderr[-2000:]))
    deps_dir = os.path.dirname(arts['brood'])
    _DEPS[repo] = (deps_dir, arts)
    return _DEPS[repo]


def _rustc_shard(shard_dir, items, repo):
    """items: list of (global index, W). Returns {index: [(code, rendered)]}, crate_errors."""
    deps_dir, arts = _deps(repo)
    if os.path.isdir(shard_dir):
        shutil.rmtree(shard_dir)
    os.makedirs(shard_dir)
    lib = ['#![allow(warnings)]']
    for gi, w in items:
        mod = 'w_%05d' % gi
        lib.append('mod %s;' % mod)
        with open(os.path.join(shard_dir, mod + '.rs'), 'w') as f:
            f.write(w.code)
    with open(os.path.join(shard_dir, 'lib.rs'), 'w') as f:
        f.write('\n'.join(lib) + '\n')
    cmd = ['rustc', '--edition=2021', '--crate-type', 'lib', '--crate-name', 'witness', '--emit=metadata',
           '--out-dir', os.path.join(shard_dir, 'out'), '-L', 'dependency=' + deps_dir, '--error-format=json', '-Awarnings',
           '--cap-lints', 'allow']
    for n in ('brood', 'rayon', 'serde'):
        if n in arts:
            cmd += ['--extern', '%s=%s' % (n, arts[n])]
    cmd.append(os.path.join(shard_dir, 'lib.rs'))
    p = subprocess.run(cmd, stdout=subprocess.PIPE, stderr=subprocess.PIPE, text=True)
    per = {}
    crate_errors = []
    for line in p.stderr.splitlines():
        try:
            msg = json.loads(line)
        except Exception:
            continue
        if msg.get('level') != 'error':
            continue
        code = (msg.get('code') or {}).get('code')
        text = msg.get('message', '')
        if code is None:
            if 'no rules expected' in text or 'unexpected end of macro' in text or 'unexpected token' in text:
                code = 'MACRO'
            elif text.startswith('aborting due to') or text.startswith('could not compile'):
                continue
            else:
                code = 'NOCODE:' + text[:60]
        allf = []

        def walk(sp, acc):
            acc.append(sp['file_name'])
            if sp.get('expansion') and sp['expansion'].get('span'):
                walk(sp['expansion']['span'], acc)
        for sp in msg.get('spans', []):
            walk(sp, allf)
        hit = False
        for fn in allf:
            base = os.path.basename(fn)
            if base.startswith('w_') and base.endswith('.rs'):
                per.setdefault(int(base[2:-3]), []).append((code, msg.get('rendered', '')[:1500]))
                hit = True
                break
        if not hit:
            crate_errors.append('%s %s' % (code, msg.get('rendered', '')[:800]))
    shutil.rmtree(os.path.join(shard_dir, 'out'), ignore_errors=True)
    return per, crate_errors


def check_witnesses(fam, ws, repo):
    """Returns list of (W, verdict, detail) with verdict in accepted | rejected | other-error.
    Programs are grouped by expected outcome class (so that an early type error cannot mask a borrow
    error), sharded, and checked by parallel rustc invocations against the once-built dependencies."""
    from concurrent.futures import ThreadPoolExecutor
    _deps(repo)
    workers = max(2, min(14, (os.cpu_count() or 4) - 2))
    groups = {}
    for gi, w in enumerate(ws):
        g = 'pass' if w.expect == 'compile' else w.cls
        groups.setdefault(g, []).append((gi, w))
    jobs = []
    for g, items in sorted(groups.items()):
        # cap shard size: rustc's memory grows with the number of schedule programs in one crate (~70 MB each)
        per_shard = min(24, max(3, -(-len(items) // workers)))
        for k in range(0, len(items), per_shard):
            jobs.append((g, k // per_shard, items[k:k + per_shard]))
    base = os.path.join(CACHE, 'witness', '%s-%d' % (fam, os.getpid()))
    results = {}

    def run(job):
        g, k, items = job
        return job, _rustc_shard(os.path.join(base, '%s-%d' % (g, k)), items, repo)
    with ThreadPoolExecutor(max_workers=workers) as ex:
        for job, (per, crate_errors) in ex.map(run, jobs):
            g, k, items = job
            for gi, w in items:
                results[gi] = (per.get(gi, []), crate_errors)
    out = []
    suspicious = []
    for gi, w in enumerate(ws):
        errs, crate_errors = results[gi]
        verdict, detail = _verdict(w, errs)
        bad = (w.expect == 'compile' and verdict != 'accepted') or (w.expect == 'fail' and verdict != 'rejected')
        if bad or crate_errors:
            suspicious.append(gi)
        out.append([w, verdict, detail])
    # anything suspicious (or sharing a shard with an unattributable error) is re-checked alone
    def run1(gi):
        per, ce = _rustc_shard(os.path.join(base, 'single-%d' % gi), [(gi, ws[gi])], repo)
        return gi, per.get(gi, []) + [('NOCODE:crate', x) for x in ce]
    if suspicious:
        with ThreadPoolExecutor(max_workers=workers) as ex:
            for gi, errs in ex.map(run1, suspicious):
                verdict, detail = _verdict(ws[gi], errs)
                out[gi][1], out[gi][2] = verdict, detail
    shutil.rmtree(base, ignore_errors=True)
    return [tuple(x) for x in out]


def _verdict(w, errs):
    codes = sorted({c for c, _ in errs})
    detail = {'codes': codes, 'msg': '\n'.join(m for _, m in errs[:3])}
    if not errs:
        return 'accepted', detail
    if w.expect == 'compile':
        return 'rejected', detail
    want = CLASSES[w.cls]
    if any(c in want for c in codes):
        return 'rejected', detail
    return 'other-error', detail


def run_families(ctx, pid, tier, seed):
    out = []
    from . import families  # noqa: registers
    for fid, fam in sorted(FAMILIES.items()):
        if pid in (fam.props if tier == 'thorough' else fam.quick_props):
            out.append((fid, fam.run(ctx, tier, seed, pid)))
    return out
