"""Fact base: extraction (runs the broodfacts driver over /repo's working tree) and loading."""
import json, os, subprocess, sys, time, shutil, glob, hashlib, fcntl

VERIF = os.path.dirname(os.path.dirname(os.path.abspath(__file__)))
CACHE = os.path.join(VERIF, '.cache')
DRIVER = os.path.join(VERIF, 'broodfacts', 'target', 'debug', 'broodfacts')
REPO = os.environ.get('VERIF_REPO', '/repo')

# floors: counted on the tree when the exporter was written (fail closed below these)
FLOORS = {
    'all': {'fns': 740, 'impls': 715, 'adts': 130, 'traits': 105},
    'default': {'fns': 395, 'impls': 360, 'adts': 48, 'traits': 68},
}
FEATURE_ARGS = {'all': ['--all-features'], 'default': []}


def nightly_sysroot():
    return subprocess.check_output(['rustc', '+nightly', '--print', 'sysroot'], text=True).strip()


def ensure_driver():
    if not os.path.exists(DRIVER):
        env = dict(os.environ, CARGO_NET_OFFLINE='true')
        subprocess.check_call(['cargo', 'build', '--offline'], cwd=os.path.join(VERIF, 'broodfacts'), env=env)
    return DRIVER


def extract(config='all', repo=None, extra_cfg=()):
    """Run the driver over `repo` (default /repo) and return (facts dict, info)."""
    repo = repo or REPO
    ensure_driver()
    os.makedirs(CACHE, exist_ok=True)
    tdir = os.path.join(CACHE, 'target-' + config + ('-' + hashlib.sha1(repo.encode()).hexdigest()[:8] if repo != '/repo' else ''))
    out = os.path.join(CACHE, 'facts-%s-%d.json' % (config, os.getpid()))
    if os.path.exists(out):
        os.remove(out)
    # one extraction at a time per target directory: two checks started together on the same tree would otherwise
    # race on the fingerprint below (the later one finds the crate fresh, cargo skips the driver, and the check
    # fails closed for lack of a fact file)
    lock = open(tdir + '.lock', 'w')
    fcntl.flock(lock, fcntl.LOCK_EX)
    # defeat cargo's freshness cache for the brood crate only
    for fp in glob.glob(os.path.join(tdir, 'debug', '.fingerprint', 'brood-*')):
        shutil.rmtree(fp, ignore_errors=True)
    env = dict(os.environ)
    env['LD_LIBRARY_PATH'] = os.path.join(nightly_sysroot(), 'lib') + ':' + env.get('LD_LIBRARY_PATH', '')
    flags = '-Zmir-opt-level=0 -Awarnings -Cdebug-assertions=off -Coverflow-checks=off'
    for c in extra_cfg:
        flags += ' --cfg ' + c
    env['RUSTFLAGS'] = flags
    env['RUSTC_WORKSPACE_WRAPPER'] = DRIVER
    env['CARGO_TARGET_DIR'] = tdir
    env['CARGO_NET_OFFLINE'] = 'true'
    env['BROODFACTS_OUT'] = out
    env['BROODFACTS_LABEL'] = config
    env.pop('RUSTC_WRAPPER', None)
    t0 = time.time()
    p = subprocess.run(['cargo', '+nightly', 'check', '--offline', '--lib'] + FEATURE_ARGS[config],
                       cwd=repo, env=env, stdout=subprocess.PIPE, stderr=subprocess.STDOUT, text=True)
    wall = time.time() - t0
    fcntl.flock(lock, fcntl.LOCK_UN)
    lock.close()
    if p.returncode != 0:
        raise RuntimeError('fact extraction failed (cargo check exit %d):\n%s' % (p.returncode, p.stdout[-4000:]))
    if not os.path.exists(out) or os.path.getmtime(out) < t0 - 1:
        raise RuntimeError('fact file missing or stale after extraction: ' + out + '\n' + p.stdout[-2000:])
    with open(out) as f:
        facts = json.load(f)
    os.remove(out)
    for k, floor in FLOORS[config].items():
        if len(facts[k]) < floor:
            raise RuntimeError('fact base below floor: %s=%d < %d (config %s)' % (k, len(facts[k]), floor, config))
    info = {'config': config, 'repo': repo, 'wall_s': round(wall, 2),
            'counts': {k: len(v) for k, v in facts.items() if isinstance(v, list)}}
    return facts, info
