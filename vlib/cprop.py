"""Conditional constant propagation over MIR for tiny closed integer/enum computations.

Used for exactly three clauses (stated in DESIGN.md): the 3x3 claim-merge table (T2), the identifier
padding-bit validator (G5i) and small index arithmetic. The abstract domain is {constant, unknown};
unknown conditions explore both successors, so the result is a may-reach set. No brood code runs."""
from .mir import *

TOP = ('top',)
MASK = {'u8': 0xFF, 'u16': 0xFFFF, 'u32': 0xFFFFFFFF, 'u64': (1 << 64) - 1, 'usize': (1 << 64) - 1, 'bool': 1,
        'i8': 0xFF, 'i16': 0xFFFF, 'i32': 0xFFFFFFFF, 'i64': (1 << 64) - 1, 'isize': (1 << 64) - 1, 'u128': (1 << 128) - 1}
BITS = {'u8': 8, 'u16': 16, 'u32': 32, 'u64': 64, 'usize': 64, 'u128': 128, 'i8': 8, 'i16': 16, 'i32': 32, 'i64': 64, 'isize': 64}


class CProp:
    def __init__(self, prog, fn, consts=None, call_model=None, place_model=None):
        """consts: {uneval const name -> int}; call_model(term, argvals) -> value|None;
        place_model(place, env) -> value|None for projected places (fields, derefs)."""
        self.prog = prog
        self.fn = fn
        self.body = fn.body
        self.consts = consts or {}
        self.call_model = call_model
        self.place_model = place_model

    def ty_name(self, t):
        return t.get('name') if t and t.get('k') == 'prim' else None

    def operand(self, op, env):
        if 'const' in op:
            c = op['const']
            if 'val' in c:
                return c['val']
            if 'uneval' in c:
                return self.consts.get(c['uneval_name'], TOP)
            return TOP
        p = op_place(op)
        if p is None:
            return TOP
        return self.place(p, env)

    def place(self, p, env):
        if not p['p']:
            return env.get(p['l'], TOP)
        if self.place_model:
            v = self.place_model(p, env)
            if v is not None:
                return v
        # deref of a local holding ('ref', l)
        base = env.get(p['l'], TOP)
        v = base
        for e in p['p']:
            if e == '*' and isinstance(v, tuple) and v and v[0] == 'ref':
                v = env.get(v[1], TOP)
            elif isinstance(e, dict) and 'f' in e and isinstance(v, tuple) and v and v[0] == 'tuple':
                v = v[1][e['f']]
            elif isinstance(e, dict) and 'variant' in e:
                pass
            elif isinstance(e, dict) and 'f' in e and isinstance(v, tuple) and v and v[0] == 'enum':
                v = v[2][e['f']] if e['f'] < len(v[2]) else TOP
            else:
                return TOP
        return v

    def binop(self, op, a, b, ty):
        if a is TOP or b is TOP or not isinstance(a, int) or not isinstance(b, int):
            return TOP
        n = self.ty_name(ty)
        m = MASK.get(n, (1 << 64) - 1)
        base = op.replace('WithOverflow', '').replace('Unchecked', '')
        if base == 'Add':
            return (a + b) & m
        if base == 'Sub':
            return (a - b) & m
        if base == 'Mul':
            return (a * b) & m
        if base == 'Div':
            return a // b if b else TOP
        if base == 'Rem':
            return a % b if b else TOP
        if base == 'BitAnd':
            return a & b
        if base == 'BitOr':
            return a | b
        if base == 'BitXor':
            return a ^ b
        if base == 'Shl':
            return (a << (b % BITS.get(n, 64))) & m
        if base == 'Shr':
            return a >> (b % BITS.get(n, 64))
        if base == 'Eq':
            return int(a == b)
        if base == 'Ne':
            return int(a != b)
        if base == 'Lt':
            return int(a < b)
        if base == 'Le':
            return int(a <= b)
        if base == 'Gt':
            return int(a > b)
        if base == 'Ge':
            return int(a >= b)
        return TOP

    def rvalue(self, rv, env, dest_ty):
        k = rv['k']
        if k == 'use':
            return self.operand(rv['op'], env)
        if k in ('ref', 'rawptr'):
            p = rv['place']
            if not p['p']:
                return ('ref', p['l'])
            if p['p'] == ['*']:
                return env.get(p['l'], TOP)
            return TOP
        if k == 'binop':
            a = self.operand(rv['a'], env)
            b = self.operand(rv['b'], env)
            # operand type for masks: type of a
            pa = op_place(rv['a'])
            ta = self.body.place_ty(pa) if pa else (rv['a'].get('const', {}).get('ty'))
            if rv['op'] in ('Shl', 'Shr', 'ShlUnchecked', 'ShrUnchecked'):
                pass
            return self.binop(rv['op'], a, b, ta)
        if k == 'unop':
            a = self.operand(rv['a'], env)
            if a is TOP or not isinstance(a, int):
                return TOP
            if rv['op'] == 'Not':
                n = self.ty_name(dest_ty)
                if n == 'bool':
                    return int(not a)
                return (~a) & MASK.get(n, (1 << 64) - 1)
            if rv['op'] == 'Neg':
                return (-a) & MASK.get(self.ty_name(dest_ty), (1 << 64) - 1)
            return TOP
        if k == 'cast':
            a = self.operand(rv['op'], env)
            if isinstance(a, int) and rv['cast'].startswith('IntToInt'):
                return a & MASK.get(self.ty_name(rv['ty']), (1 << 64) - 1)
            return a if rv['cast'].startswith(('PtrToPtr', 'PointerCoercion')) else TOP
        if k == 'discr':
            v = self.place(rv['place'], env)
            if isinstance(v, tuple) and v and v[0] == 'enum':
                return v[1]
            return TOP
        if k == 'agg':
            vals = tuple(self.operand(o, env) for o in rv['ops'])
            if rv['agg'] == 'tuple':
                return ('tuple', vals)
            if rv['agg'] == 'adt':
                return ('enum', rv['variant'], vals, rv['path'], rv['vname'])
            return TOP
        return TOP

    def run(self, start, env, stop_blocks, max_steps=4000):
        """Explore from `start` with environment env; returns set of stop blocks that may be reached and
        the environments at them: {block: [env...]}."""
        body = self.body
        out = {}
        work = [(start, dict(env), 0)]
        seen = 0
        while work:
            b, env, depth = work.pop()
            seen += 1
            if seen > max_steps or depth > 400:
                out.setdefault('cutoff', []).append(env)
                continue
            if b in stop_blocks:
                out.setdefault(b, []).append(env)
                continue
            blk = body.blocks[b]
            for s in blk['stmts']:
                if s['k'] == 'assign':
                    p = s['place']
                    v = self.rvalue(s['rv'], env, body.place_ty(p))
                    if not p['p']:
                        env[p['l']] = v
                    elif p['p'] == ['*'] and isinstance(env.get(p['l']), tuple) and env[p['l']][0] == 'ref':
                        env[env[p['l']][1]] = v
            t = blk['term']
            k = t['k']
            if k == 'goto':
                work.append((t['target'], env, depth + 1))
            elif k == 'switch':
                v = self.operand(t['discr'], env)
                if isinstance(v, int):
                    tgt = t['otherwise']
                    for val, tg in zip(t['values'], t['targets']):
                        if val == v:
                            tgt = tg
                    work.append((tgt, env, depth + 1))
                else:
                    for tg in set(t['targets'] + [t['otherwise']]):
                        work.append((tg, dict(env), depth + 1))
            elif k == 'call':
                args = [self.operand(a, env) for a in t['args']]
                v = None
                if self.call_model:
                    v = self.call_model(t, args, env)
                if v is None:
                    v = self.default_call(t, [env.get(x[1], TOP) if isinstance(x, tuple) and x and x[0] == 'ref' else x for x in args])
                if not t['dest']['p']:
                    env[t['dest']['l']] = v
                if t['target'] is not None:
                    work.append((t['target'], env, depth + 1))
                else:
                    out.setdefault('diverge', []).append(env)
            elif k in ('drop', 'assert'):
                work.append((t['target'], env, depth + 1))
            elif k == 'return':
                out.setdefault('return', []).append(env)
            else:
                out.setdefault(k, []).append(env)
        return out

    def default_call(self, t, args):
        f = t['f']
        if 'path' not in f:
            return TOP
        n = f['name']
        a = [x for x in args]
        ints = all(isinstance(x, int) for x in a)
        # receiver type for width
        width = None
        if f.get('impl_self') and f['impl_self'].get('k') == 'prim':
            width = BITS.get(f['impl_self']['name'])
        if f['path'] in DEREF_CALLS and a:
            return a[0]
        if not ints or not a:
            return TOP
        if width:
            m = (1 << width) - 1
            if n == 'leading_zeros':
                return width - a[0].bit_length()
            if n == 'trailing_zeros':
                return width if a[0] == 0 else (a[0] & -a[0]).bit_length() - 1
            if n == 'count_ones':
                return bin(a[0]).count('1')
            if n == 'count_zeros':
                return width - bin(a[0]).count('1')
            if n == 'wrapping_add':
                return (a[0] + a[1]) & m
            if n == 'wrapping_sub':
                return (a[0] - a[1]) & m
            if n in ('wrapping_shl', 'unbounded_shl'):
                return (a[0] << (a[1] % width)) & m if n == 'wrapping_shl' else ((a[0] << a[1]) & m if a[1] < width else 0)
            if n in ('wrapping_shr', 'unbounded_shr'):
                return a[0] >> (a[1] % width) if n == 'wrapping_shr' else (a[0] >> a[1] if a[1] < width else 0)
            if n == 'checked_shl':
                return ('enum', 1, ((a[0] << a[1]) & m,), 'core::option::Option', 'Some') if a[1] < width else ('enum', 0, (), 'core::option::Option', 'None')
            if n == 'checked_shr':
                return ('enum', 1, (a[0] >> a[1],), 'core::option::Option', 'Some') if a[1] < width else ('enum', 0, (), 'core::option::Option', 'None')
            if n == 'pow':
                return (a[0] ** a[1]) & m
            if n == 'min':
                return min(a)
            if n == 'max':
                return max(a)
            if n == 'is_power_of_two':
                return int(a[0] != 0 and a[0] & (a[0] - 1) == 0)
        if f.get('trait') in ('core::cmp::PartialEq',) and len(a) == 2:
            return int(a[0] == a[1]) if n == 'eq' else int(a[0] != a[1])
        if f.get('trait') in ('core::cmp::PartialOrd',) and len(a) == 2:
            return int({'lt': a[0] < a[1], 'le': a[0] <= a[1], 'gt': a[0] > a[1], 'ge': a[0] >= a[1]}.get(n, False)) if n in ('lt', 'le', 'gt', 'ge') else TOP
        if f.get('trait') in ('core::ops::BitAnd', 'core::ops::BitOr', 'core::ops::Shl', 'core::ops::Shr', 'core::ops::Rem', 'core::ops::Div', 'core::ops::Sub', 'core::ops::Add', 'core::ops::Not') and a:
            ty = f['args'][0] if f['args'] else None
            tn = peel_refs(ty).get('name') if ty else None
            opn = {'bitand': 'BitAnd', 'bitor': 'BitOr', 'shl': 'Shl', 'shr': 'Shr', 'rem': 'Rem', 'div': 'Div', 'sub': 'Sub', 'add': 'Add'}.get(n)
            if opn and len(a) == 2:
                return self.binop(opn, a[0], a[1], {'k': 'prim', 'name': tn})
            if n == 'not':
                return (~a[0]) & MASK.get(tn, (1 << 64) - 1) if tn != 'bool' else int(not a[0])
        return TOP
