"""T rules: type-level decision tables compared cell by cell with Rust's aliasing/threading rules.
Everything here is read from impl headers, predicates and associated types (resolved by rustc)."""
import json
from .engine import rule, Result
from .mir import *


def view_kind_of(t):
    """Classify a view type: ('ref', mut, component) | ('opt', mut, component) | ('ident',) | ('null',) | None"""
    if t is None:
        return None
    if t.get('k') == 'ref':
        return ('ref', t['mut'], ty_key(strip_regions(t['t'])))
    if is_adt(t, 'core::option::Option') and t['args'] and t['args'][0].get('k') == 'ref':
        r = t['args'][0]
        return ('opt', r['mut'], ty_key(strip_regions(r['t'])))
    if is_adt(t, 'entity::identifier::Identifier'):
        return ('ident',)
    if t.get('k') == 'adt' and t['path'].endswith('::Null'):
        return ('null',)
    return None


def kind_str(k):
    if k is None:
        return '?'
    if k[0] in ('ref', 'opt'):
        s = ('&mut ' if k[1] else '&') + 'C'
        return s if k[0] == 'ref' else 'Option<%s>' % s
    return k[0]


def impl_loc(imp):
    return '%s:%d' % (imp['span']['file'], imp['span']['line'])


def assoc_ty(imp, name):
    for it in imp['items']:
        if it['name'] == name and it['kind'] == 'AssocTy':
            return it['ty']
    return None


def trait_args(imp):
    return [a for a in imp['trait']['args'][1:] if a.get('k') != 'region']


@rule('T1', props=['C08', 'C07', 'C15'], floor=7)
def t1_view_kind_to_claim(prog):
    """claims() of every component/resource view impl: & and Option<&> -> Immutable, &mut and
    Option<&mut> -> Mutable, not-contained -> None; the tail's claims follow."""
    r = Result()
    for imp in prog.facts['impls']:
        if not imp['trait'] or not imp['trait']['path'].endswith('::CanonicalViews'):
            continue
        if imp['self'].get('k') != 'tuple':
            continue
        fns = [f for f in prog.impl_methods(imp) if f.name == 'claims']
        if not fns:
            tr = prog.traits.get(imp['trait']['path'])
            if tr and any(it['name'] == 'claims' for it in tr['items']):
                r.inst('%s::claims[%s] (trait default)' % (imp['trait']['path'], ty_str(imp['self'])))
                r.viol('T1', '%s/%s/relies-on-default-claims' % (imp['trait']['path'], '|'.join(ty_str(a) for a in trait_args(imp))), impl_loc(imp),
                       'this view impl does not define claims() and falls back to a trait default: neither the claim of its own view kind nor the claims of the tail of the list are published (later resources/components are unclaimed)')
            continue
        f = fns[0]
        ta = trait_args(imp)
        views = ta[0] if ta else None
        cont = ta[1] if len(ta) > 1 else None
        kind = None
        if views is not None and views.get('k') == 'tuple' and len(views['e']) == 2:
            kind = view_kind_of(views['e'][0])
        notc = cont is not None and cont.get('k') == 'tuple' and cont['e'] and is_adt(cont['e'][0]) and cont['e'][0]['path'].endswith('NotContained')
        if notc:
            want = 'None'
            kname = 'not-contained'
        elif kind and kind[0] in ('ref', 'opt'):
            want = 'Mutable' if kind[1] else 'Immutable'
            kname = kind_str(kind)
        else:
            r.viol('T1', '%s/unclassified' % f.path, f.loc(), 'cannot classify the view kind of this claims() impl')
            continue
        key = '%s::claims[%s]' % (imp['trait']['path'], kname)
        r.inst('%s -> expects Claim::%s' % (key, want))
        body = f.body
        got = None
        tail_ok = False
        for b, i, s in body.stmts():
            if s['k'] == 'assign' and s['rv']['k'] == 'agg' and s['rv']['agg'] == 'adt' and s['rv']['path'].endswith('::Claim'):
                got = s['rv']['vname']
        for b, t in body.calls(lambda c: c['name'] == 'claims'):
            g = t['f']['args']
            if g and is_param(g[0]) and imp['self']['e'][1].get('k') == 'param' and g[0]['name'] == imp['self']['e'][1]['name']:
                tail_ok = True
        if got != want:
            r.viol('T1', key + '/wrong-claim', f.loc(),
                   'view kind %s publishes run-time claim %s but Rust\'s aliasing rule requires %s: the add-on scheduler would %s' %
                   (kname, got, want, 'start a conflicting task early' if want == 'Mutable' or (want == 'Immutable' and got == 'None') else 'needlessly serialise'))
        if not tail_ok:
            r.viol('T1', key + '/tail-claims-dropped', f.loc(), 'claims() does not append the tail registry\'s claims')
    # cells of this table that are spelled as a per-view claim method/const are decided by T13; they count here
    for i_ in t13_per_view_claim_methods(prog).instances:
        r.inst('per-view cell (T13): ' + i_)
    return r


@rule('T8', props=['C08', 'C07', 'C12'], floor=16, configs=('all',))
def t8_view_merge(prog):
    """view::Merge (views x entry views -> what the stager sees): the merged kind is &mut C iff the
    side that holds the component is a mutable kind, &C otherwise; `Both` cells exist only for
    immutable/immutable pairs (a Both cell with a mutable side would under-claim)."""
    r = Result()
    for imp in prog.facts['impls']:
        if not imp['trait'] or not imp['trait']['path'].endswith('query::view::merge::Merge'):
            continue
        ta = trait_args(imp)
        if len(ta) != 3 or ta[2].get('k') != 'tuple' or len(ta[2]['e']) != 2:
            continue   # Null impl
        side = ta[2]['e'][0]
        side = side['path'].split('::')[-1] if side.get('k') == 'adt' else '?'
        lk = view_kind_of(ta[0]['e'][0]) if ta[0].get('k') == 'tuple' else None
        rk = view_kind_of(ta[1]['e'][0]) if ta[1].get('k') == 'tuple' else None
        merged = assoc_ty(imp, 'Merged')
        mk = view_kind_of(merged['e'][0]) if merged and merged.get('k') == 'tuple' else None
        key = 'Merge[%s; left=%s right=%s]' % (side, kind_str(lk), kind_str(rk))
        r.inst('%s -> %s' % (key, kind_str(mk) if mk else ty_str(merged)))
        if side == 'Neither':
            if merged is None or merged.get('k') != 'alias':
                r.viol('T8', key + '/neither-not-passthrough', impl_loc(imp), 'Neither cell must be the tail\'s merge')
            continue
        srcs = [k for k in ((lk if side in ('Left', 'Both') else None), (rk if side in ('Right', 'Both') else None)) if k]
        if not srcs:
            r.viol('T8', key + '/unclassified', impl_loc(imp), 'cannot classify merge cell')
            continue
        if srcs[0][0] == 'ident':
            if not mk or mk[0] != 'ident':
                r.viol('T8', key + '/identifier', impl_loc(imp), 'identifier view must merge to identifier')
            continue
        if side == 'Both' and any(k[1] for k in srcs if k[0] in ('ref', 'opt')):
            r.viol('T8', key + '/both-with-mutable', impl_loc(imp), 'a Both cell with a mutable side lets a task view and entry-view the same component mutably')
        want_mut = any(k[1] for k in srcs if k[0] in ('ref', 'opt'))
        if not mk or mk[0] != 'ref' or mk[1] != want_mut:
            r.viol('T8', key + '/wrong-merged-kind', impl_loc(imp),
                   'merged kind is %s but must be %s: the stager would see a %s access' % (kind_str(mk), '&mut C' if want_mut else '&C', 'weaker' if want_mut else 'stronger'))
        # component agreement
        comp = srcs[0][2]
        if mk and mk[0] == 'ref' and mk[2] != comp:
            r.viol('T8', key + '/wrong-component', impl_loc(imp), 'merged view names a different component')
        tail = merged['e'][1] if merged and merged.get('k') == 'tuple' else None
        if tail is None or tail.get('k') != 'alias' or tail['name'] != 'Merged':
            r.viol('T8', key + '/tail-dropped', impl_loc(imp), 'merged list does not continue with the tail\'s merge')
    return r


@rule('T9', props=['C08', 'C07', 'C12'], floor=7, configs=('all', 'default'))
def t9_entry_filter(prog):
    """EntryFilter: every component view kind (optional ones too) -> Has<C>; identifier and the empty
    list -> a filter that matches nothing (Not<None>); a list -> Or<tail, head>."""
    r = Result()
    for imp in prog.facts['impls']:
        if not imp['trait']:
            continue
        tp = imp['trait']['path']
        if not (tp.endswith('query::view::sealed::ViewSealed') or tp.endswith('query::view::sealed::ViewsSealed')):
            continue
        ef = assoc_ty(imp, 'EntryFilter')
        if ef is None:
            r.viol('T9', 'missing-entry-filter/%s' % ty_str(imp['self']), impl_loc(imp), 'impl has no EntryFilter')
            continue
        st = imp['self']
        k = view_kind_of(st)
        key = 'EntryFilter[%s]' % (kind_str(k) if k else ty_str(st))
        r.inst('%s = %s' % (key, ty_str(ef)))
        if k and k[0] in ('ref', 'opt'):
            ok = is_adt(ef, 'query::filter::Has') and ty_key(strip_regions(ef['args'][0])) == k[2]
            if not ok:
                r.viol('T9', key + '/not-has', impl_loc(imp), 'entry filter of a component view must be Has<C> (an entry view reaches every archetype that has C); got %s' % ty_str(ef))
        elif k and k[0] in ('ident', 'null'):
            ok = is_adt(ef, 'query::filter::Not') and is_adt(ef['args'][0], 'query::filter::None')
            if not ok:
                r.viol('T9', key + '/not-empty', impl_loc(imp), 'entry filter of %s must match nothing (Not<None>); got %s' % (k[0], ty_str(ef)))
        elif st.get('k') == 'tuple' and len(st['e']) == 2:
            ok = is_adt(ef, 'query::filter::Or') and len(ef['args']) == 2 and all(a.get('k') == 'alias' and a['name'] == 'EntryFilter' for a in ef['args'])
            if ok:
                selfs = {ty_str(a['args'][0]) for a in ef['args']}
                ok = selfs == {ty_str(st['e'][0]), ty_str(st['e'][1])}
            if not ok:
                r.viol('T9', key + '/not-or', impl_loc(imp), 'entry filter of a view list must be Or<tail, head> (any entry view may reach the archetype); got %s' % ty_str(ef))
        else:
            r.viol('T9', key + '/unclassified', impl_loc(imp), 'unclassified EntryFilter impl')
    return r


def get_pred_claim_kind(imp, claims_param='C'):
    """From predicates `C: Get<K, I>` / `R: Get<T, I>` of a Verifier impl → ('claim', kind) | ('absent',) | None"""
    for p in imp['predicates']:
        if p['k'] == 'trait' and p['trait'].endswith('hlist::get::Get') and p['self'].get('k') == 'param':
            who = p['self']['name']
            arg = [a for a in p['args'][1:] if a.get('k') != 'region'][0]
            if who == claims_param:
                return ('claim', view_kind_of(arg))
            return ('absent',)
    return None


@rule('T3', props=['C12', 'C07', 'C08'], floor=8, configs=('all',))
def t3_verifier_table(prog):
    """Stage decision table (Verifier). For the reachable cells (view kinds after Merge are &T / &mut T;
    claims likewise): Cut iff (view mutable and component already claimed) or (view shared and claim
    mutable); otherwise the decision is the tail's decision. Identifier passes through; Null appends."""
    r = Result()
    seen = {}
    for imp in prog.facts['impls']:
        if not imp['trait'] or not imp['trait']['path'].endswith('schedule::claim::verifier::Verifier'):
            continue
        dec = assoc_ty(imp, 'Decision')
        st = imp['self']
        if st.get('k') == 'adt' and st['path'].endswith('::Null'):
            r.inst('Verifier[Null] = %s' % ty_str(dec))
            seen[('null',)] = 1
            if not is_adt(dec, 'decision::Append') and not (dec.get('k') == 'adt' and dec['path'].endswith('::Append')):
                r.viol('T3', 'Verifier[Null]/not-append', impl_loc(imp), 'end of the view list must decide Append')
            continue
        if st.get('k') != 'tuple':
            continue
        vk = view_kind_of(st['e'][0])
        passthrough = dec.get('k') == 'alias' and dec['name'] == 'Decision' and is_param(dec['args'][0]) and dec['args'][0]['name'] == st['e'][1].get('name')
        cut = dec.get('k') == 'adt' and dec['path'].endswith('::Cut')
        if vk and vk[0] == 'ident':
            r.inst('Verifier[identifier] = %s' % ty_str(dec))
            seen[('ident',)] = 1
            if not passthrough:
                r.viol('T3', 'Verifier[identifier]/not-passthrough', impl_loc(imp), 'identifier view conflicts with nothing: decision must be the tail\'s')
            continue
        ck = get_pred_claim_kind(imp)
        if vk is None or ck is None:
            r.viol('T3', 'Verifier/unclassified/%s' % ty_str(st), impl_loc(imp), 'cannot classify Verifier impl')
            continue
        if vk[0] != 'ref':
            continue     # Option view kinds never reach the verifier (Merge strips Option): no verdict
        if ck[0] == 'claim' and (ck[1] is None or ck[1][0] != 'ref'):
            continue     # Option claim kinds never reach the verifier: no verdict
        cell = (vk[1], 'absent' if ck[0] == 'absent' else ck[1][1])
        key = 'Verifier[view=%s; claim=%s]' % (kind_str(vk), 'absent' if ck[0] == 'absent' else kind_str(ck[1]))
        r.inst('%s = %s' % (key, 'Cut' if cut else ('tail' if passthrough else ty_str(dec))))
        seen[cell] = seen.get(cell, 0) + 1
        want_cut = (cell[1] != 'absent') and (vk[1] or cell[1] is True)
        if want_cut and not cut:
            r.viol('T3', key + '/must-cut', impl_loc(imp), 'conflicting access (Rust aliasing rule) but the decision is %s: the two tasks would share a stage' % ty_str(dec))
        if not want_cut and not passthrough:
            if cut:
                r.viol('T3', key + '/needless-cut', impl_loc(imp), 'no conflict for this pair but the decision is Cut: independent tasks are serialised')
            else:
                r.viol('T3', key + '/stops-checking', impl_loc(imp), 'decision must be the tail\'s decision (remaining views still need checking); got %s' % ty_str(dec))
    for cell in [(False, 'absent'), (True, 'absent'), (False, False), (False, True), (True, False), (True, True), ('null',), ('ident',)]:
        if cell not in seen:
            r.viol('T3', 'Verifier/missing-cell/%s' % (cell,), '-', 'decision table has no cell for %s' % (cell,))
    return r


@rule('T5', props=['C14', 'C03', 'C05'], floor=13, configs=('all', 'default'))
def t5_subview_table(prog):
    """SubViewable<sub> for (super, _): a mutable sub-view (&mut / Option<&mut>) exists only for a mutable
    super view; every sub-view names the super view's component."""
    r = Result()
    for imp in prog.facts['impls']:
        if not imp['trait'] or not imp['trait']['path'].endswith('query::view::subset::SubViewable'):
            continue
        ta = trait_args(imp)
        st = imp['self']
        if st.get('k') != 'tuple' or len(ta) < 2:
            continue
        idx = ta[1]
        if idx.get('k') == 'tuple':
            continue   # recursive (Index,) impl: delegates to the tail
        sub = view_kind_of(ta[0])
        sup = view_kind_of(st['e'][0])
        key = 'SubViewable[sub=%s from super=%s]' % (kind_str(sub), kind_str(sup))
        r.inst(key)
        if sub is None or sup is None:
            r.viol('T5', key + '/unclassified', impl_loc(imp), 'cannot classify sub-view cell')
            continue
        if sub[0] == 'ident' or sup[0] == 'ident':
            if sub[0] != sup[0]:
                r.viol('T5', key + '/identifier-mismatch', impl_loc(imp), 'identifier sub-view only from identifier super view')
            continue
        if sub[1] and not sup[1]:
            r.viol('T5', key + '/mutable-from-shared', impl_loc(imp), 'a mutable sub-view is handed out from a shared super view: two tasks holding & and &mut to one component')
        if sub[2] != sup[2]:
            r.viol('T5', key + '/component-mismatch', impl_loc(imp), 'sub-view names a different component than the super view')
    return r


def implies_bound(preds, param, trait_suffix, prog, depth=0):
    """Do the predicates imply `param: Trait` (directly or through supertraits of crate traits)?"""
    for p in preds:
        if p['k'] != 'trait' or p.get('neg'):
            continue
        if p['self'].get('k') == 'param' and p['self']['name'] == param:
            if p['trait'] == trait_suffix or p['trait'].endswith('::' + trait_suffix):
                return True
            tr = prog.traits.get(p['trait'])
            if tr and depth < 4:
                # supertraits: predicates with self = Self
                sup = [dict(q, self={'k': 'param', 'name': param}) for q in tr['supers'] if q['k'] == 'trait' and q['self'].get('name') == 'Self']
                if implies_bound(sup, param, trait_suffix, prog, depth + 1):
                    return True
    return False


SEND = 'core::marker::Send'
SYNC = 'core::marker::Sync'


@rule('T6', props=['C14'], floor=8, configs=('all',))
def t6_auto_trait_audit(prog):
    """Every `unsafe impl Send/Sync` for a type that hands out user data: each payload parameter (a type
    parameter occurring in what the type's API yields) must be bounded by the same auto trait (or a
    crate trait that has it as a supertrait). Crate-private carriers are listed with their reason and
    must not be exported."""
    r = Result()
    # type -> payload params, derived: params occurring in Iterator::Item / ParallelIterator::Item of impls
    # for that type, in return types of its pub methods, or in non-PhantomData fields.
    CARRIERS = {
        'archetype::Archetype': 'crate-private storage; reachable only through World (bounded) and query results (bounded below)',
        'archetype::identifier::IdentifierRef': 'pointer to an immutable bit buffer owned by Archetypes; carries no user data',
        'archetype::identifier::Identifier': 'owned bit buffer; carries no user data',
        'system::schedule::sendable::SendableWorld': 'crate-private; only built inside run_schedule for tasks whose Task impl requires Send views',
        'query::result::par_iter::ResultsConsumer': 'crate-private rayon plumbing behind ParIter (bounded)',
    }
    for imp in prog.facts['impls']:
        if not imp['trait'] or not imp['unsafe'] or imp['trait']['path'] not in (SEND, SYNC):
            continue
        which = imp['trait']['path']
        st = imp['self']
        if st.get('k') != 'adt':
            continue
        path = st['path']
        adt = prog.adts.get(path)
        key = '%s for %s' % (which.split('::')[-1], path)
        params = [a['name'] for a in st['args'] if a.get('k') == 'param']
        r.inst('%s<%s>' % (key, ', '.join(params)))
        if path in CARRIERS:
            if adt and adt['exported'] and adt['vis'] == 'pub':
                # exported carrier must still be bounded when user data flows
                pass
            continue
        # exposures: who hands out values mentioning which parameter, under which bounds
        exps = exposures(prog, st)
        reported = set()
        for ps, preds, recv in exps:
            if which == SYNC and recv != 'ref':
                continue     # only &self methods are reachable through a shared reference
            for p in sorted(ps & set(params)):
                if implies_bound(imp['predicates'] + preds, p, which, prog):
                    continue
                if p in reported:
                    continue
                reported.add(p)
                r.viol('T6', '%s/unbounded/%s' % (key, p), impl_loc(imp),
                       'unsafe impl %s for %s does not require `%s: %s` (nor does the API that exposes it), but values of types mentioning `%s` are handed out: a !%s component can cross threads in safe code'
                       % (which.split('::')[-1], path.split('::')[-1], p, which.split('::')[-1], p, which.split('::')[-1]))
    return r


_ITEM_TRAITS = ('core::iter::Iterator', 'rayon::iter::ParallelIterator', 'core::iter::IntoIterator',
                'rayon::iter::IndexedParallelIterator')


def exposures(prog, st, depth=0, seen=frozenset()):
    """How the safe public API of crate ADT instance `st` hands out values: list of
    (params, predicates, receiver) with params in terms of st's own argument names; receiver is
    'ref' (&self), 'mut' (&mut self) or 'own' (self / iterator item)."""
    path = st['path']
    out = []

    def value_sources(t, preds, recv, own, depth, seen, from_self):
        """-> list of (params, preds, recv) for values obtainable from a value of type t"""
        if t is None:
            return []
        k = t.get('k')
        if k == 'param':
            return [({t['name']}, preds, recv)]
        if k in ('ref', 'ptr', 'slice', 'array'):
            return value_sources(t['t'], preds, recv, own, depth, seen, from_self)
        if k == 'tuple':
            res = []
            for e in t['e']:
                res += value_sources(e, preds, recv, own, depth, seen, from_self)
            return res
        if k == 'alias':
            ps = set()
            for a in t['args']:
                ps |= ty_params(a)
            return [(ps, preds, recv)] if ps else []
        if k == 'adt':
            if t['path'] in prog.adts:
                if depth >= 3 or t['path'] in seen:
                    return []
                res = []
                for (ps, pr, rc) in exposures(prog, t, depth + 1, seen | {t['path']}):
                    res.append((ps, preds + pr, recv))
                return res
            if t['path'] == 'core::marker::PhantomData':
                return []
            res = []
            for a in t['args']:
                res += value_sources(a, preds, recv, own, depth, seen, from_self)
            return res
        return []

    for other in prog.facts['impls']:
        if other['self'].get('k') != 'adt' or other['self']['path'] != path:
            continue
        if other['trait'] and other['trait']['path'] in _ITEM_TRAITS:
            item = assoc_ty(other, 'Item')
            if item is not None:
                for ps, pr, rc in value_sources(item, list(other['predicates']), 'own', None, depth, seen, other['self']):
                    out.append((rename_params(ps, other['self'], st), rename_preds(pr, other['self'], st), rc))
    if depth == 0:
        # safe trait impls with `&self` methods (Clone, PartialEq, Debug, Serialize, ...) read the stored user data
        # through a shared reference: every parameter their bounds mention is exposed to `&T` holders
        for other in prog.facts['impls']:
            if other['self'].get('k') != 'adt' or other['self']['path'] != path or not other['trait'] or other['unsafe']:
                continue
            if other['trait']['path'] in _ITEM_TRAITS or other['trait']['path'].startswith('core::marker::') or other['trait']['path'] in ('core::ops::Drop',):
                continue
            has_ref_method = False
            for f in prog.impl_methods(other):
                ins = f.d.get('inputs') or []
                if ins and ins[0].get('k') == 'ref' and not ins[0]['mut'] and ty_eq(ins[0]['t'], other['self']):
                    has_ref_method = True
            if not has_ref_method:
                continue
            ps = set()
            for q in other['predicates']:
                if q['k'] == 'trait' and q['self'].get('k') == 'param' and not q['trait'].startswith('core::marker::'):
                    ps.add(q['self']['name'])
            if ps:
                out.append((rename_params(ps, other['self'], st), [], 'ref'))
    for f in prog.fns.values():
        if f.kind != 'AssocFn' or f.impl is None:
            continue
        oi = f.impl
        if oi['self'].get('k') != 'adt' or oi['self']['path'] != path or oi['trait']:
            continue
        if f.d.get('vis') != 'pub' or f.d.get('unsafe'):
            continue
        own = {g['name'] for g in oi['generics']}
        ins = f.d.get('inputs') or []
        recv = 'own'
        if ins and ins[0].get('k') == 'ref' and ty_eq(ins[0]['t'], oi['self']):
            recv = 'mut' if ins[0]['mut'] else 'ref'
        preds = list(f.d.get('predicates', []))
        for ps, pr, rc in value_sources(f.d.get('output'), preds, recv, own, depth, seen, oi['self']):
            related = set(p for p in ps if p in own)
            method_level = ps - own
            for q in pr:
                if q['k'] != 'trait':
                    continue
                mentioned = set()
                for a in q['args']:
                    mentioned |= ty_params(a)
                if mentioned & method_level:
                    related |= (mentioned & own)
            if related:
                out.append((rename_params(related, oi['self'], st), rename_preds(pr, oi['self'], st), rc))
    return out


def rename_preds(preds, from_self, to_self):
    m = {}
    for a, b in zip(from_self['args'], to_self['args']):
        if a.get('k') == 'param' and b.get('k') == 'param':
            m[a['name']] = b['name']

    def ren(t):
        if isinstance(t, dict):
            if t.get('k') == 'param' and t['name'] in m:
                return dict(t, name=m[t['name']])
            return {k: ren(v) for k, v in t.items()}
        if isinstance(t, list):
            return [ren(x) for x in t]
        return t
    return [ren(p) for p in preds]


def rename_params(names, from_self, to_self):
    """Map parameter names used in another impl of the same ADT onto this impl's names, positionally."""
    m = {}
    fa = [a for a in from_self['args']]
    ta = [a for a in to_self['args']]
    for a, b in zip(fa, ta):
        if a.get('k') == 'param' and b.get('k') == 'param':
            m[a['name']] = b['name']
    return {m.get(n, n) for n in names if n in m}


@rule('T7', props=['C14', 'C09'], floor=6, configs=('all',))
def t7_parallel_bounds(prog):
    """Parallel views: & / Option<&> require `C: Sync`, &mut / Option<&mut> require `C: Send`; Task impls
    require Send for the system and all of its views (views, entry views, resource views)."""
    r = Result()
    for imp in prog.facts['impls']:
        if not imp['trait']:
            continue
        tp = imp['trait']['path']
        if tp.endswith('query::view::par::seal::ParViewSeal') or tp.endswith('query::view::par::ParView'):
            k = view_kind_of(imp['self'])
            if not k or k[0] not in ('ref', 'opt'):
                continue
            comp = json.loads(k[2])
            if comp.get('k') != 'param':
                continue
            need = SEND if k[1] else SYNC
            key = '%s[%s]' % (tp.split('::')[-1], kind_str(k))
            r.inst(key + ' requires %s: %s' % (comp['name'], need.split('::')[-1]))
            if not implies_bound(imp['predicates'], comp['name'], need, prog):
                r.viol('T7', key + '/missing-bound', impl_loc(imp), 'parallel view %s must require `%s: %s`' % (kind_str(k), comp['name'], need.split('::')[-1]))
        if tp.endswith('schedule::task::sealed::Task'):
            st = imp['self']
            name = st['path'].split('::')[-1] if st.get('k') == 'adt' else ty_str(st)
            if not (st.get('k') == 'adt' and st['args'] and st['args'][0].get('k') == 'param'):
                continue
            sp = st['args'][0]['name']
            key = 'Task[%s<%s>]' % (name, sp)
            # required: S: Send; <S as System>::Views<'a>: Send; ResourceViews: Send; EntryViews: Send
            have = set()
            for p in imp['predicates']:
                if p['k'] == 'trait' and p['trait'] == SEND:
                    s = p['self']
                    if s.get('k') == 'param':
                        have.add('self')
                    elif s.get('k') == 'alias':
                        have.add(s['name'])
            r.inst('%s: Send on %s' % (key, sorted(have)))
            for need in ('self', 'Views', 'ResourceViews', 'EntryViews'):
                if need not in have:
                    r.viol('T7', '%s/missing-send/%s' % (key, need), impl_loc(imp),
                           'Task impl for %s does not require %s: Send — a task runs on another thread, so a !Send %s could cross threads in safe code' % (name, 'the system' if need == 'self' else 'its ' + need, need))
    return r


def _anon_params(o, sysname):
    if isinstance(o, dict):
        if o.get('k') == 'param':
            return {'k': 'param', 'name': 'SYS' if o.get('name') == sysname else o.get('name')}
        return {k: _anon_params(v, sysname) for k, v in o.items() if k != 'idx'}
    if isinstance(o, list):
        return [_anon_params(x, sysname) for x in o]
    return o


def _norm_sys(o, sysname=None):
    """Render a type/predicate tree with ParSystem renamed to System and the system type parameter renamed
    to a canonical name (sibling normalisation)."""
    s = json.dumps(_anon_params(strip_regions(o), sysname), sort_keys=True)
    s = s.replace('ContainsParQuery', 'ContainsQuery').replace('contains::par_query', 'contains::query')
    s = s.replace('system::schedule::task::ParSystem', 'system::schedule::task::System')
    s = s.replace('system::par::ParSystem', 'system::System').replace('system::ParSystem', 'system::System')
    s = s.replace('"ParSystem"', '"System"')
    return s


@rule('T10', props=['C07', 'C08', 'C12', 'C14'], floor=2, configs=('all',))
def t10_system_parsystem_siblings(prog):
    """Every trait implemented both for a `task::System<T>` cell and for a `task::ParSystem<T>` cell (Stager,
    Scheduler, Task, ...) has sibling impls: modulo the System/ParSystem renaming the two impls must carry
    the same predicates and the same associated types (what a task claims, how it is staged and which
    bounds it needs do not depend on whether its iterator is parallel)."""
    r = Result()
    by_trait = {}
    for imp in prog.facts['impls']:
        if not imp['trait']:
            continue
        st = imp['self']
        head = st['e'][0] if st.get('k') == 'tuple' and st['e'] else st
        if head.get('k') == 'ref':
            head = head['t']
        if head.get('k') == 'adt' and head['path'] in ('system::schedule::task::System', 'system::schedule::task::ParSystem'):
            sysname = head['args'][0]['name'] if head['args'] and head['args'][0].get('k') == 'param' else None
            by_trait.setdefault(imp['trait']['path'], {}).setdefault(head['path'].split('::')[-1], []).append((imp, sysname))
    for tp, d in sorted(by_trait.items()):
        if 'System' not in d or 'ParSystem' not in d or len(d['System']) != 1 or len(d['ParSystem']) != 1:
            if ('System' in d) != ('ParSystem' in d):
                r.viol('T10', tp + '/missing-sibling', '-', 'trait %s is implemented for only one of task::System / task::ParSystem' % tp)
            continue
        (a, na), (b, nb) = d['System'][0], d['ParSystem'][0]
        r.inst('%s: System vs ParSystem impl' % tp)
        pa = sorted(_norm_sys(p, na) for p in a['predicates'])
        pb = sorted(_norm_sys(p, nb) for p in b['predicates'])
        # the iterator kind legitimately differs: drop predicates that only mention the Iterator / ParallelIterator traits
        def keep(s):
            return 'ParallelIterator' not in s and 'core::iter' not in s
        pa = [x for x in pa if keep(x)]
        pb = [x for x in pb if keep(x)]
        if pa != pb:
            only_a = [x for x in pa if x not in pb]
            only_b = [x for x in pb if x not in pa]
            r.viol('T10', tp + '/predicates-differ', impl_loc(b),
                   'sibling impls of %s for System and ParSystem carry different bounds (%d only on System, %d only on ParSystem): e.g. %s' % (tp.split('::')[-1], len(only_a), len(only_b), (only_a or only_b)[0][:300]))
        ta = {it['name']: _norm_sys(it.get('ty'), na) for it in a['items'] if it['kind'] == 'AssocTy'}
        tb = {it['name']: _norm_sys(it.get('ty'), nb) for it in b['items'] if it['kind'] == 'AssocTy'}
        for k in sorted(set(ta) | set(tb)):
            if ta.get(k) != tb.get(k):
                r.viol('T10', tp + '/assoc-type-differs/' + k, impl_loc(b), 'associated type %s of %s differs between the System and the ParSystem impl' % (k, tp.split('::')[-1]))
        if _norm_sys(a['trait']['args'][1:], na) != _norm_sys(b['trait']['args'][1:], nb):
            r.viol('T10', tp + '/trait-args-differ', impl_loc(b), 'trait arguments of the sibling impls differ')
    return r


@rule('T11', props=['C03', 'C05', 'C14', 'C07'], floor=5, configs=('all', 'default'))
def t11_view_indices(prog):
    """CanonicalViews::indices (the bit indices that optional sub-views and entry filters consult): in every
    cons impl the head index evaluates to LEN(R_) - LEN(R) - 1 for the *whole* registry R_ and the tail R, and
    the recursion hands the same whole registry R_ (the method's own type parameter) to the tail with the
    tail's views/containments; the NotContained impl only recurses. A tail-relative index would make
    later views test the wrong identifier bit."""
    from . import pathsem
    r = Result()
    by_value_seen = set()
    for imp in prog.facts['impls']:
        if not imp['trait'] or not imp['trait']['path'].endswith('registry::sealed::view::CanonicalViews') or imp['self'].get('k') != 'tuple':
            continue
        fs = [f for f in prog.impl_methods(imp) if f.name == 'indices']
        if not fs:
            continue
        f = fs[0]
        ta = [a for a in imp['trait']['args'] if a.get('k') != 'region']
        contained = not any(ty_mentions(a, lambda n: is_adt(n, 'registry::contains::NotContained')) for a in ta[2:3]) if len(ta) > 2 else True
        key = 'CanonicalViews::indices[%s]' % ty_str(ta[1])[:40] if len(ta) > 1 else f.path
        r.inst(key)
        E = pathsem.analyse(prog, f)
        rets = [p for p in E.paths if p.ended == 'return']
        own = [g for g in f.d['generics'] if g['kind'] == 'type' and g['idx'] >= len(imp['generics'])]
        tail_ty = imp['self']['e'][1]
        # the whole registry is known either as the method's own type parameter (LEN::<R_>) or as a usize parameter
        # carrying its length
        by_value = len(own) == 0 and f.body.argc == 1 and ty_str(f.body.local_ty(1)) == 'usize'
        if len(rets) != 1 or E.truncated or not (len(own) == 1 or by_value):
            r.viol('T11', key + '/shape', f.loc(), 'indices must be a single straight-line computation over the whole registry (its type, or its length)')
            continue
        p = rets[0]
        whole = own[0] if not by_value else {'name': f.body.local_name(1) or 'registry_len', 'idx': None}
        wparam = ('p', 1, f.body.local_name(1) or '') if by_value else None
        rec = p.calls(lambda e: e['name'] == 'indices')
        if len(rec) != 1:
            r.viol('T11', key + '/recursion', f.loc(), 'indices must recurse into the tail exactly once (found %d)' % len(rec))
            continue
        ga = [a for a in rec[0]['f']['args'] if a.get('k') != 'region']
        if not (ga and ty_eq(ga[0], tail_ty)):
            r.viol('T11', key + '/recursion-self', f.loc(rec[0]['ln']), 'the recursion is not on the registry tail')
        if by_value:
            if not (rec[0]['args'] and pathsem.strip_refs(rec[0]['args'][0]) == wparam):
                r.viol('T11', key + '/recursion-registry', f.loc(rec[0]['ln']), 'the recursion does not pass the whole registry\'s length on unchanged: the tail\'s indices become relative to the wrong registry')
            by_value_seen.add(f.d.get('trait_item') or f.name)
        elif not (ga and ga[-1].get('k') == 'param' and ga[-1].get('idx') == whole['idx']):
            r.viol('T11', key + '/recursion-registry', f.loc(rec[0]['ln']),
                   'the recursion passes %s as the whole registry instead of this call\'s own %s: the tail\'s indices become relative to the wrong registry' % (ty_str(ga[-1]) if ga else '?', whole['name']))
        v = p.ret
        if contained:
            if not (isinstance(v, tuple) and v[0] == 'agg' and v[1] == 'tuple' and len(v[4]) == 2 and v[4][1] == rec[0]['ret']):
                r.viol('T11', key + '/shape', f.loc(), 'indices must be (head index, indices of the tail)')
                continue
            for (lw, lt) in ((1, 0), (5, 0), (9, 3), (17, 16), (40, 7)):
                def leaf(t, lw=lw, lt=lt):
                    if by_value and t == wparam:
                        return lw
                    if t[0] == 'k' and isinstance(t[1], str) and '::LEN<' in t[1]:
                        inner = t[1][t[1].index('::LEN<') + 6:-1]
                        if inner == whole['name']:
                            return lw
                        if inner == ty_str(tail_ty):
                            return lt
                    return None
                got = pathsem.evaluate(v[4][0], leaf)
                if got != lw - lt - 1:
                    r.viol('T11', key + '/head-index', f.loc(), 'head index evaluates to %s for LEN(%s)=%d, LEN(%s)=%d; expected LEN(%s) - LEN(%s) - 1' % (got, whole['name'], lw, ty_str(tail_ty), lt, whole['name'], ty_str(tail_ty)))
                    break
        else:
            if v != rec[0]['ret']:
                r.viol('T11', key + '/shape', f.loc(), 'a component that is not viewed contributes no index: indices must be the tail\'s indices')
    if by_value_seen:
        # the length is a run-time argument now: whoever starts the recursion passes LEN of the registry it starts on
        for g in prog.fns.values():
            if g.kind == 'Closure' or (g.impl and g.impl.get('trait') and g.impl['trait']['path'].endswith('registry::sealed::view::CanonicalViews')):
                continue
            if not any(True for _ in g.body.calls(lambda c: c['name'] == 'indices' and c['path'].endswith('registry::sealed::view::CanonicalViews::indices'))):
                continue
            r.inst('%s starts CanonicalViews::indices' % g.path[:70])
            Eg = pathsem.analyse(prog, g)
            for p in Eg.paths:
                for e in p.calls(lambda e: e['name'] == 'indices' and e['path'].endswith('registry::sealed::view::CanonicalViews::indices')):
                    ga = [a for a in e['f']['args'] if a.get('k') != 'region']
                    a0 = pathsem.strip_refs(e['args'][0]) if e['args'] else None
                    ok = isinstance(a0, tuple) and a0[0] == 'k' and isinstance(a0[1], str) and '::LEN<' in a0[1] and ga and a0[1][a0[1].index('::LEN<') + 6:-1] == ty_str(ga[0])
                    if not ok:
                        r.viol('T11', '%s/whole-registry-length' % g.path[:80], g.loc(e['ln']), 'indices is started with %s, not the LEN of the registry it is started on' % pathsem.tstr(a0)[:60])
                        break
    return r


@rule('T12', props=['C15', 'C08', 'C07'], floor=14, configs=('all',))
def t12_claims_lists_recurse(prog):
    """Every `claims()` function of the crate (component and resource view lists, their outer/expanded wrappers)
    builds its result from the `claims()` of what it wraps: a cons-cell impl returns `(head claim, <tail>::claims())`
    or delegates to another `claims()` whole; only the Null cell returns the empty list. Anything else — in
    particular `Default::default()` for the tail (all `Claim::None`) — publishes no claims for the rest of the list,
    and a conflicting task of the next stage is started early."""
    from . import pathsem
    r = Result()
    for f in prog.fns.values():
        if f.name != 'claims' or f.kind != 'AssocFn' or not f.impl or not f.impl['trait']:
            continue
        if (f.d.get('inputs') or []):
            continue
        st = f.impl['self']
        key = '%s::claims for %s [%s]' % (f.impl['trait']['path'].rsplit('::', 2)[-2] + '::' + f.impl['trait']['path'].rsplit('::', 1)[-1], ty_str(st), '|'.join(ty_str(a) for a in trait_args(f.impl))[:80])
        r.inst(key)
        E = pathsem.analyse(prog, f)
        rets = [p for p in E.paths if p.ended == 'return']
        if E.truncated or not rets:
            r.viol('T12', key + '/not-analysable', f.loc(), 'path enumeration cut off')
            continue
        is_null = st.get('k') == 'adt' and st['path'].endswith('::Null')
        for p in rets:
            v = p.ret
            tails = {e['ret']: e for e in p.calls(lambda e: e['name'] == 'claims')}
            if is_null:
                if tails or not (isinstance(v, tuple) and v[0] == 'agg' and v[1].endswith('::Null')):
                    r.viol('T12', key + '/null', f.loc(), 'the empty list must publish the empty claim list')
                break
            if v in tails:
                break           # delegates whole
            ok = isinstance(v, tuple) and v[0] == 'agg' and v[1] == 'tuple' and len(v[4]) == 2 and v[4][1] in tails
            if ok:
                h = v[4][0]
                is_lit = isinstance(h, tuple) and h[0] == 'agg' and str(h[1]).endswith('::Claim')
                per_view = isinstance(h, tuple) and h[0] == 'call' and any((e['ret'] == h and (e['path'].rsplit('::', 1)[0], e['name']) in _claim_fns(prog)) for e in p.calls(lambda e: True))
                if not per_view and isinstance(h, tuple) and h[0] == 'k' and isinstance(h[1], str):
                    per_view = any(h[1].split('<')[0] == tp_ + '::' + nm_ for tp_, nm_ in _claim_consts(prog))
                if not is_lit and not per_view:
                    r.viol('T12', key + '/head-claim-opaque', f.loc(), 'the head claim %s is neither a Claim literal nor a per-view claim method (T13): what this list publishes for its first element cannot be decided' % pathsem.tstr(h)[:60])
                    break
            if ok and st.get('k') == 'tuple' and len(st['e']) == 2:
                g = [json.loads(x) for x in tails[v[4][1]]['gargs']]
                ok = bool(g) and ty_eq(g[0], strip_regions(st['e'][1]))
                if not ok:
                    r.viol('T12', key + '/tail-of-other-list', f.loc(), 'the tail claims are taken from %s instead of the tail of this list' % (ty_str(g[0]) if g else '?'))
                    break
            if not ok:
                r.viol('T12', key + '/tail-claims-dropped', f.loc(), 'claims() does not append the claims() of the tail of its list (got %s): the rest of the list is published as unclaimed' % pathsem.tstr(v)[:100])
            break
    for i_ in t13_per_view_claim_methods(prog).instances:
        r.inst('per-view head claim (T13): ' + i_)
    return r


def _claim_fns(prog):
    """Trait methods without inputs that return a `Claim`: (trait path, method name)."""
    out = set()
    for f in prog.fns.values():
        if f.kind != 'AssocFn' or (f.d.get('inputs') or []):
            continue
        o = f.d.get('output') or {}
        if o.get('k') == 'adt' and o['path'].endswith('query::view::claim::Claim'):
            tp = f.impl['trait']['path'] if (f.impl and f.impl.get('trait')) else (f.path.rsplit('::', 1)[0] if not f.impl else None)
            if tp and tp in prog.traits:        # a trait of this crate (not Default::default for Claim)
                out.add((tp, f.name))
    return out


def _claim_consts(prog):
    """Associated consts of type `Claim` declared by a trait of this crate: (trait path, const name)."""
    out = set()
    for c in prog.facts.get('consts', []):
        ty = ((c.get('mir') or {}).get('locals') or [{}])[0].get('ty') or {}
        if ty.get('k') == 'adt' and ty['path'].endswith('query::view::claim::Claim'):
            tp = c['path'].rsplit('::', 1)[0]
            if tp in prog.traits:
                out.add((tp, c['name']))
    return out


def _const_claim_value(c):
    """What a `Claim` const evaluates to, read off its (straight-line) body: ('lit', variant) | ('fwd', const path,
    generic args) | None"""
    m = c.get('mir') or {}
    if len(m.get('blocks', [])) != 1 or m['blocks'][0]['term']['k'] != 'return':
        return None
    val = None
    for s_ in m['blocks'][0]['stmts']:
        if s_['k'] == 'assign' and s_['place']['l'] == 0 and not s_['place']['p']:
            rv = s_['rv']
            if rv['k'] == 'agg' and rv.get('agg') == 'adt' and rv['path'].endswith('::Claim'):
                val = ('lit', rv['vname'])
            elif rv['k'] == 'use' and 'const' in rv['op'] and 'uneval' in rv['op']['const'] and 'promoted' not in rv['op']['const']:
                k = rv['op']['const']
                val = ('fwd', k['uneval'], [a for a in k.get('uneval_args', []) if a.get('k') != 'region'])
            else:
                val = None
    return val


@rule('T13', props=['C15', 'C08', 'C07'], floor=0, configs=('all',))
def t13_per_view_claim_methods(prog):
    """Should the crate compute a claim per view through a trait method (`fn claim() -> Claim`), that method is a table
    like T1: for every impl of the trait — using the trait's provided body where the impl does not override it — an impl
    whose (head) view is `&T`/`Option<&T>` answers `Immutable`, `&mut T`/`Option<&mut T>` answers `Mutable`, and an impl
    whose head is not a view (the recursive "look further down" impl) forwards to the same method of its tail. A default
    of `Immutable` silently inherited by a mutable or a recursive impl under-claims. (No such method exists on the
    reference tree; the rule arms itself when one appears, and T12 refuses any other opaque head claim.)"""
    from . import pathsem
    r = Result()
    for tp, name in sorted(_claim_fns(prog)):
        for imp in prog.facts['impls']:
            if not imp['trait'] or imp['trait']['path'] != tp:
                continue
            f = prog.impl_method_or_default(imp, name)
            if f is None:
                continue
            st = imp['self']
            head = st['e'][0] if st.get('k') == 'tuple' and len(st['e']) == 2 else st
            tail = st['e'][1] if st.get('k') == 'tuple' and len(st['e']) == 2 else None
            kind = view_kind_of(head)
            key = '%s::%s for %s [%s]' % (tp.rsplit('::', 1)[-1], name, ty_str(st), '|'.join(ty_str(a) for a in trait_args(imp))[:60])
            r.inst(key)
            E = pathsem.analyse(prog, f)
            rets = [p for p in E.paths if p.ended == 'return']
            if E.truncated or len(rets) != 1:
                r.viol('T13', key + '/not-analysable', f.loc(), 'cannot read the claim this impl publishes')
                continue
            v = rets[0].ret
            lit = v[2] if isinstance(v, tuple) and v[0] == 'agg' and str(v[1]).endswith('::Claim') else None
            fwd = [e for e in rets[0].calls(lambda e: e['name'] == name) if e['ret'] == v]
            if kind and kind[0] in ('ref', 'opt'):
                want = 'Mutable' if kind[1] else 'Immutable'
                if lit != want:
                    r.viol('T13', key + '/wrong-claim', f.loc(), 'view kind %s publishes claim %s (%s) but must publish %s' % (kind_str(kind), lit or pathsem.tstr(v)[:40], 'inherited default' if not f.impl else 'own body', want))
            elif tail is None:
                continue        # neither a view of a component/resource nor a list cell: nothing to claim
            else:
                g = [json.loads(x) for x in fwd[0]['gargs']] if fwd else []
                if not (fwd and tail is not None and g and ty_eq(g[0], strip_regions(tail))):
                    r.viol('T13', key + '/not-forwarding', f.loc(), 'an impl that skips its head must answer with the claim of its tail (got %s%s)' % (lit or pathsem.tstr(v)[:40], ', the trait default' if not f.impl else ''))
    # the same table spelled as an associated const (`const CLAIM: Claim`)
    for tp, name in sorted(_claim_consts(prog)):
        tdp = prog.traits[tp].get('dp')
        default = [c for c in prog.facts['consts'] if c['name'] == name and c['path'] == tp + '::' + name]
        for imp in prog.facts['impls']:
            if not imp['trait'] or imp['trait']['path'] != tp:
                continue
            own = [c for c in prog.facts['consts'] if c['name'] == name and c.get('parent') == imp['dp']]
            c = (own or default or [None])[0]
            st = imp['self']
            head = st['e'][0] if st.get('k') == 'tuple' and len(st['e']) == 2 else st
            tail = st['e'][1] if st.get('k') == 'tuple' and len(st['e']) == 2 else None
            kind = view_kind_of(head)
            key = '%s::%s for %s [%s]' % (tp.rsplit('::', 1)[-1], name, ty_str(st), '|'.join(ty_str(a) for a in trait_args(imp))[:60])
            r.inst(key)
            where = '%s:%s' % (c['span']['file'], c['span']['line']) if c else impl_loc(imp)
            v = _const_claim_value(c) if c else None
            if v is None:
                r.viol('T13', key + '/not-analysable', where, 'cannot read the claim this impl publishes')
                continue
            if kind and kind[0] in ('ref', 'opt'):
                want = 'Mutable' if kind[1] else 'Immutable'
                if v != ('lit', want):
                    r.viol('T13', key + '/wrong-claim', where, 'view kind %s publishes claim %s (%s) but must publish %s' % (kind_str(kind), v[1], 'inherited default' if not own else 'own const', want))
            elif tail is None:
                continue
            else:
                if not (v[0] == 'fwd' and v[1] == tp + '::' + name and v[2] and ty_eq(strip_regions(v[2][0]), strip_regions(tail))):
                    r.viol('T13', key + '/not-forwarding', where, 'an impl that skips its head must answer with the claim of its tail (got %s%s)' % (v[1], ', the trait default' if not own else ''))
    return r
