"""I1 (next/fold sibling agreement), R9 (RepeatNone producer), T2 (claim merge table), G6 (sub-view
extraction), L1 (reborrow lifetime of query-time entries)."""
import json
from .engine import rule, Result
from .mir import *
from . import pathsem
from .sym import SymEval, Lin
from . import cprop
from .rules_tables import view_kind_of, kind_str, trait_args, impl_loc
from .rules_guard import is_negated


def garg_strs(t):
    return tuple(ty_str(a) for a in t['f']['args'] if a.get('k') != 'region')


@rule('I1', props=['C03', 'C09', 'C01', 'C08'], floor=2, configs=('all', 'default'))
def i1_next_fold_agree(prog):
    """result::Iter: `next` and the specialised `fold` are siblings — fold first drains the partially
    consumed per-archetype iterator (`current_results_iter`), then visits archetypes selected by the
    same filter instance and views them with the same view instance as next does."""
    r = Result()
    def impl_fn(name):
        c = [f for f in prog.fns.values() if f.name == name and f.impl and f.impl['trait'] and f.impl['trait']['path'] == 'core::iter::Iterator'
             and is_adt(f.impl['self'], 'query::result::iter::Iter')]
        return c[0] if len(c) == 1 else None
    nx, fd = impl_fn('next'), impl_fn('fold')
    if nx is None or fd is None:
        r.viol('I1', 'missing', '-', 'Iter::next / Iter::fold not found')
        return r
    def helpers_of(f):
        # the method, its closures, and the methods of the same impl it calls or hands on as function items
        # (a shared per-archetype step extracted from next and fold), transitively
        seen, todo = {}, [f]
        while todo:
            g = todo.pop()
            if g.dp in seen:
                continue
            seen[g.dp] = g
            todo += g.closures()
            refs = set()

            def walk(x):
                if isinstance(x, dict):
                    if 'fn' in x and isinstance(x['fn'], dict) and x['fn'].get('dp'):
                        refs.add((x['fn'].get('res') or x['fn']).get('dp') or x['fn']['dp'])
                    if x.get('k') in ('call', 'tailcall') and isinstance(x.get('f'), dict) and x['f'].get('dp'):
                        refs.add((x['f'].get('res') or x['f']).get('dp'))
                    if x.get('agg') == 'closure' and x.get('dp') in prog.fns:
                        todo.append(prog.fns[x['dp']])      # closures of a helper spliced into this body keep the helper's path
                    for v in x.values():
                        walk(v)
                elif isinstance(x, list):
                    for v in x:
                        walk(v)
            walk(g.d['mir'])
            for dp in refs:
                h = prog.fns.get(dp)
                if h is not None and h.impl is not None and f.impl is not None and is_adt(h.impl['self'], 'query::result::iter::Iter') and h.name not in ('next', 'fold'):
                    todo.append(h)
        return list(seen.values())

    def sig(f):
        filt, views = set(), set()
        for g in helpers_of(f):
            for b, t in g.body.calls(lambda c: c['name'] == 'filter' and 'contains::filter' in c['path']):
                filt.add(garg_strs(t))
            for b, t in g.body.calls(lambda c: c['name'] == 'view' and c['path'].startswith('archetype::Archetype')):
                views.add(garg_strs(t))
        return filt, views
    fn_, vn = sig(nx)
    ff, vf = sig(fd)
    r.inst('Iter::next filter=%d view=%d' % (len(fn_), len(vn)))
    r.inst('Iter::fold filter=%d view=%d' % (len(ff), len(vf)))
    if not fn_ or not vn:
        r.viol('I1', 'next/shape', nx.loc(), 'Iter::next no longer filters archetypes and views them (rule cannot anchor)')
    if fn_ != ff:
        r.viol('I1', 'fold/filter-differs', fd.loc(), 'Iter::fold selects archetypes with a different filter instance than Iter::next (%s vs %s)' % (sorted(ff), sorted(fn_)))
    if vn != vf:
        r.viol('I1', 'fold/view-differs', fd.loc(), 'Iter::fold views archetypes with a different view instance than Iter::next')
    # fold drains current_results_iter, then every remaining archetype — decided on the paths of fold
    adt = prog.adts.get('query::result::iter::Iter')
    names = [x['name'] for x in adt['variants'][0]['fields']]
    ci = names.index('current_results_iter')
    ai = names.index('archetypes_iter')
    from . import pathsem
    S = pathsem.strip_refs
    E = pathsem.analyse(prog, fd, max_paths=20000)
    me = ('p', 1, fd.body.local_name(1) or 'self')
    FOLDS = ('fold', 'for_each', 'try_fold', 'try_for_each')

    def of_field(t, k):
        t = S(t)
        return pathsem.is_field_of(t, 'query::result::iter::Iter', k) and S(t[1]) in (me, ('d', me))
    cur_payload = lambda t: isinstance(S(t), tuple) and S(t)[0] == 'f' and isinstance(S(t)[1], tuple) and S(t)[1][0] == 'down' and S(t)[1][2] == 'Some' and of_field(S(t)[1][1], ci)
    dropped = unfolded = early = None
    if E.truncated or not [p for p in E.paths if p.ended == 'return']:
        dropped = 'Iter::fold not analysable'
    for p in E.paths:
        if p.ended not in ('return', 'cutoff'):
            continue
        folds = p.calls(lambda e: e['name'] in FOLDS and (e['f'].get('trait') or '').endswith('Iterator') or e['name'] in FOLDS and e['path'].startswith('core::iter'))
        views = p.calls(lambda e: e['name'] == 'view' and e['path'].startswith('archetype::Archetype'))
        cur_some = any(isinstance(a_, tuple) and a_[0] == 'discr' and of_field(a_[1], ci) and v == 1 for a_, v in p.conds)
        cur_seen = any(isinstance(a_, tuple) and a_[0] == 'discr' and of_field(a_[1], ci) for a_, v in p.conds)
        if not cur_seen and p.ended == 'return':
            dropped = dropped or 'Iter::fold never looks at the partially consumed per-archetype iterator it was handed (current_results_iter): entities of the archetype that next() was in the middle of are skipped'
        if cur_some:
            dr = [e for e in folds if cur_payload(e['vals'][0])]
            first_other = min([e['i'] for e in views] + [e['i'] for e in p.calls(lambda e: e['name'] in ('find', 'next', 'find_map') and e['vals'] and of_field(e['vals'][0], ai))] or [1 << 30])
            if not dr and (p.ended == 'return' or views):
                dropped = dropped or 'Iter::fold does not fold the partially consumed per-archetype iterator (current_results_iter): entities of the archetype that next() was in the middle of are skipped'
            elif dr and dr[0]['i'] > first_other:
                dropped = dropped or 'Iter::fold moves on to the next archetype before it has folded the partially consumed per-archetype iterator (current_results_iter): the rest of that archetype is skipped'
        for v_ in views:
            later = [e for e in p.events if e['i'] > v_['i']]
            if not any(pathsem.mentions(e['vals'][0], lambda t: t == v_['ret']) for e in folds if e['i'] > v_['i']):
                # the path may have been cut off right after the view
                if p.ended == 'return' or any(w['i'] > v_['i'] for w in views):
                    unfolded = unfolded or 'Iter::fold views an archetype without folding its rows'
        if p.ended == 'return':
            # a fold of the archetype iterator as a whole (through adaptors that drop nothing but what their closure rejects)
            whole = any(of_field(e['vals'][0], ai) or (of_field(pathsem.iter_chain(S(e['vals'][0]))[0], ai) and
                                                     set(pathsem.iter_chain(S(e['vals'][0]))[1]) <= {'filter', 'map', 'filter_map', 'inspect', 'by_ref', 'into_iter', 'iter', 'iter_mut', 'fuse', 'flat_map'}) for e in folds)
            done_ = [v for a_, v in p.conds if isinstance(a_, tuple) and a_[0] in ('nonempty', 'exhausted', 'next') and of_field(pathsem.iter_chain(a_[1])[0], ai)]
            ended = whole or any((a_[0] == 'exhausted' and v is True) or (a_[0] == 'next' and v == 0) for a_, v in p.conds if isinstance(a_, tuple) and a_[0] in ('exhausted', 'next') and of_field(pathsem.iter_chain(a_[1])[0], ai)) or \
                (done_ and done_[-1] is False)
            if not ended:
                early = early or 'Iter::fold does not fold over the remaining archetypes'
    if dropped:
        r.viol('I1', 'fold/current-results-dropped', fd.loc(), dropped)
    if unfolded:
        r.viol('I1', 'fold/archetype-rows-not-folded', fd.loc(), unfolded)
    if early:
        r.viol('I1', 'fold/archetypes-not-folded', fd.loc(), early)
    return r


@rule('R9', props=['C09', 'C03'], floor=5, configs=('all',))
def r9_repeat_none(prog):
    """RepeatNone (absent Option<&mut C> column in parallel queries) conserves the count: split_at(index)
    yields (index, count - index) in that order; into_iter / len / opt_len / with_producer carry the
    count unchanged; the sequential iterator yields Some(None) exactly `count` times (decrement by one
    under count > 0)."""
    r = Result()
    MOD = 'query::view::par::seal::repeat::'

    def role(trait_suffix):
        """(adt path, {method name: Fn}) of the impl of that trait for a type of the repeat module"""
        out = []
        for imp in prog.facts['impls']:
            if imp['trait'] and imp['trait']['path'].endswith(trait_suffix) and imp['self'].get('k') == 'adt' and imp['self']['path'].startswith(MOD):
                m = {f.name: f for f in prog.impl_methods(imp)}
                m['__assoc__'] = {it['name']: it.get('ty') for it in imp['items'] if it.get('kind') == 'AssocTy'}
                out.append((imp['self']['path'], m))
        return out

    def count_field(owner):
        flds = prog.adts[owner]['variants'][0]['fields']
        nm = [x['name'] for x in flds]
        if 'count' in nm:
            return nm.index('count')
        us = [i for i, x in enumerate(flds) if ty_str(x['ty']) == 'usize']
        return us[0] if len(us) == 1 else None

    def self_count(f, owner):
        me = ('p', 1, f.body.local_name(1) or 'self')
        ci = count_field(owner)
        return lambda t: pathsem.is_field_of(t, owner.rsplit('::', 1)[-1], ci) and pathsem.mentions(t, lambda u: u == me)
    prods = role('plumbing::Producer')
    ipis = role('iter::IndexedParallelIterator')
    iters = role('core::iter::Iterator') or role('iter::traits::iterator::Iterator')
    if len(prods) != 1 or len(ipis) != 1 or not iters:
        r.viol('R9', 'split_at/missing', '-', 'the Producer / IndexedParallelIterator / Iterator impls of the absent-column placeholder were not found')
        return r
    P, pm = prods[0]
    Q, qm = ipis[0]
    pname = P.rsplit('::', 1)[-1]
    f = pm.get('split_at')
    if f is None or count_field(P) is None:
        r.viol('R9', 'split_at/missing', '-', '%s::split_at not found' % pname)
    else:
        E = pathsem.analyse(prog, f)
        rets = [p for p in E.paths if p.ended == 'return']
        ci = count_field(P)
        is_cnt = self_count(f, P)
        idx = ('p', 2, f.body.local_name(2) or '')
        r.inst('%s::split_at: %d path(s)' % (pname, len(rets)))
        if not rets or E.truncated:
            r.viol('R9', 'split_at/shape', f.loc(), 'split_at not analysable')
        for p in rets[:1] if len(rets) == 1 else rets:
            v = p.ret
            halves = v[4] if isinstance(v, tuple) and v[0] == 'agg' and v[1] == 'tuple' and len(v[4]) == 2 else None
            me_ = ('p', 1, f.body.local_name(1) or 'self')

            def count_of(h):
                """the count a returned half carries: a fresh producer, or `self` handed on with its count rewritten"""
                if isinstance(h, tuple) and h[0] == 'agg' and h[1] == P:
                    return h[4][ci]
                if isinstance(h, tuple) and h[0] == 'upd' and h[1] == me_:
                    for k_, v_ in h[2]:
                        if k_ == ci:
                            return v_
                    return ('f', me_, ci, P)
                if h == me_:
                    return ('f', me_, ci, P)
                return None
            if not halves or any(count_of(h) is None for h in halves):
                r.viol('R9', 'split_at/shape', f.loc(), 'split_at does not return a pair of producers')
                break
            left, right = pathsem.lin(count_of(halves[0])), pathsem.lin(count_of(halves[1]))
            if not (left.const == 0 and list(left.terms.items()) == [(idx, 1)]):
                r.viol('R9', 'split_at/left-count', f.loc(), 'left half must yield exactly `index` items (got %s): rayon zips producers by position, so a wrong split drops or duplicates entities' % left)
            rt = dict(right.terms)
            cnts = [t for t in rt if is_cnt(t)]
            if not (right.const == 0 and len(rt) == 2 and len(cnts) == 1 and rt[cnts[0]] == 1 and rt.get(idx) == -1):
                r.viol('R9', 'split_at/right-count', f.loc(), 'right half must yield `count - index` items (got %s)' % right)
            break
    # the iterator type is what Producer::into_iter returns
    fi = pm.get('into_iter')
    I = None
    if fi is not None:
        out = fi.d.get('output') or {}
        if out.get('k') == 'alias':
            out = pm['__assoc__'].get(out.get('name')) or {}
        if out.get('k') == 'adt' and out['path'] in [x[0] for x in iters]:
            I = out['path']
    for owner, f, name, field in ((P, fi, 'into_iter', I), (Q, qm.get('with_producer'), 'with_producer', P)):
        oname = owner.rsplit('::', 1)[-1]
        if f is None or field is None or count_field(field) is None or count_field(owner) is None:
            r.viol('R9', '%s/missing' % name, '-', '%s::%s not found' % (oname, name))
            continue
        E = pathsem.analyse(prog, f)
        is_cnt = self_count(f, owner)
        ci = count_field(field)
        me = ('p', 1, f.body.local_name(1) or 'self')
        ok = bool(E.paths) and not E.truncated
        n = 0
        for p in E.paths:
            if p.ended != 'return':
                continue
            if field == owner and p.ret == me:
                n += 1            # the value itself is handed on
                continue
            built = [t for t in pathsem.subterms(p.ret) if t[0] == 'agg' and t[1] == field]
            for e in p.calls():
                for a_ in e['vals']:
                    built += [t for t in pathsem.subterms(a_) if t[0] == 'agg' and t[1] == field]
                    if field == owner and a_ == me:
                        n += 1
            n += len(built)
            if not all(is_cnt(b_[4][ci]) for b_ in built):
                ok = False
        r.inst('%s::%s carries count' % (oname, name))
        if not ok or not n:
            r.viol('R9', '%s/count-changed' % name, f.loc(), '%s::%s must hand on the count unchanged' % (oname, name))
    f = qm.get('len')
    if f is not None:
        r.inst('%s::len' % Q.rsplit('::', 1)[-1])
        E = pathsem.analyse(prog, f)
        is_cnt = self_count(f, Q)
        if not E.paths or not all(p.ended == 'return' and is_cnt(p.ret) for p in E.paths):
            r.viol('R9', 'len/not-count', f.loc(), 'RepeatNone::len must be the count')
    else:
        r.viol('R9', 'len/missing', '-', 'RepeatNone::len not found')
    # the sequential iterator yields Some(None) exactly `count` times
    f = dict(iters).get(I, {}).get('next') if I else None
    if f is None or count_field(I) is None:
        r.viol('R9', 'next/missing', '-', 'RepeatNoneIter::next not found')
    else:
        E = pathsem.analyse(prog, f)
        rets = [p for p in E.paths if p.ended == 'return']
        is_cnt = self_count(f, I)
        r.inst('RepeatNoneIter::next: %d paths' % len(rets))
        bad = None
        if E.truncated or not rets:
            bad = 'not analysable'
        for c in (0, 1, 2, 9):
            def leaf(t, c=c):
                return c if is_cnt(t) else None
            feas = []
            for p in rets:
                okp = True
                for a_, tv in p.conds:
                    if isinstance(tv, tuple) or not pathsem.mentions(a_, is_cnt):
                        continue
                    val = pathsem.evaluate(a_, leaf)
                    if val is None:
                        bad = bad or 'cannot evaluate the condition %s' % pathsem.tstr(a_)
                    elif bool(val) != bool(tv):
                        okp = False
                if okp:
                    feas.append(p)
            for p in feas:
                stores = [e for e in p.events if e['k'] == 'store' and is_cnt(e['loc'])]
                if c == 0:
                    if p.ret != pathsem.NONE or stores:
                        bad = bad or 'with count == 0 the iterator must end (and leave the count alone)'
                else:
                    newc = pathsem.evaluate(stores[-1]['value'], leaf) if stores else None
                    if p.ret != pathsem.SOME(pathsem.NONE) or newc != c - 1:
                        bad = bad or 'with count == %d the iterator must yield Some(None) and leave count == %d (got %s, count %s)' % (c, c - 1, pathsem.tstr(p.ret), newc)
            if not feas:
                bad = bad or 'no feasible path for count == %d' % c
        if bad:
            r.viol('R9', 'next/count', f.loc(), 'RepeatNoneIter::next must yield Some(None) exactly `count` times: %s' % bad)
    return r


@rule('T2', props=['C08', 'C07', 'C15'], floor=2, configs=('all',))
def t2_claim_merge(prog):
    """Claim::try_merge as a 3x3 table (constant propagation over the two discriminants): the merge is
    refused exactly when one side is Mutable and the other is not None; otherwise the stronger claim
    results. Claims::try_merge for a list consults both head and tail with `?`."""
    r = Result()
    f = None
    for g in prog.fns.values():
        if g.path == 'query::view::claim::Claim::try_merge':
            f = g
    if f is None:
        r.viol('T2', 'missing', '-', 'Claim::try_merge not found')
        return r
    adt = prog.adts['query::view::claim::Claim']
    vn = [v['name'] for v in adt['variants']]
    body = f.body
    r.inst('Claim::try_merge over %s' % vn)
    rank = {'None': 0, 'Immutable': 1, 'Mutable': 2}
    for a in range(len(vn)):
        for b in range(len(vn)):
            params = {1: ('agg', adt['path'], vn[a], a, ()), 2: ('agg', adt['path'], vn[b], b, ())}
            E = pathsem.analyse(prog, f, params=params, inline_eq=True)
            outs = set()
            for p in E.paths:
                if p.ended != 'return':
                    outs.add('?' + p.ended)
                    continue
                v = p.ret
                if v == pathsem.NONE:
                    outs.add(None)
                elif isinstance(v, tuple) and v[0] == 'agg' and v[1] == 'core::option::Option' and v[2] == 'Some' and isinstance(v[4][0], tuple) and v[4][0][0] == 'agg' and v[4][0][1] == adt['path']:
                    outs.add(v[4][0][2])
                else:
                    outs.add('?' + pathsem.tstr(v))
            if E.truncated or not E.paths:
                outs.add('?truncated')
            A, B = vn[a], vn[b]
            conflict = (A == 'Mutable' and B != 'None') or (B == 'Mutable' and A != 'None')
            want = None if conflict else (A if rank[A] >= rank[B] else B)
            if outs != {want}:
                r.viol('T2', 'cell/%s-%s' % (A, B), f.loc(),
                       'Claim::try_merge(%s, %s) yields %s but Rust\'s aliasing rule requires %s' % (A, B, sorted(map(str, outs)), want if want else 'refusal (None)'))
    # list merge
    for imp in prog.facts['impls']:
        if imp['trait'] and imp['trait']['path'] == 'query::view::claim::Claims' and imp['self'].get('k') == 'tuple':
            fs = [g for g in prog.impl_methods(imp) if g.name == 'try_merge']
            if not fs:
                continue
            g = fs[0]
            E = pathsem.analyse(prog, g)
            rets = [p for p in E.paths if p.ended == 'return']
            r.inst('Claims::try_merge for (Claim, C): %d returning paths' % len(rets))
            done = set()

            def once(k, ln, msg):
                if k not in done:
                    done.add(k)
                    r.viol('T2', 'list/' + k, g.loc(ln), msg)
            if E.truncated or not rets:
                once('operands', None, 'list merge not analysable')
            S = pathsem.strip_refs

            def side(t):
                """(param index, tuple field) of an operand like self.0 / *other.1"""
                t = S(t)
                if isinstance(t, tuple) and t[0] == 'f' and t[3] == 'tuple' and isinstance(S(t[1]), tuple) and S(t[1])[0] == 'p':
                    return (S(t[1])[1], t[2])
                return None
            n_some = 0
            for p in rets:
                tms = p.calls(lambda e: e['name'] == 'try_merge')
                slots = {}
                for e in tms:
                    sd = sorted(filter(None, (side(x) for x in e['vals'])))
                    if len(sd) == 2 and sd[0][1] == sd[1][1] and sd[0][0] != sd[1][0]:
                        slots[sd[0][1]] = e
                failed = [e for e in tms if p.lookup(('discr', e['ret'])) == 0]
                if p.ret == pathsem.NONE:
                    if not failed:
                        once('refusal-without-conflict', None, 'list merge refuses although no element merge was refused on the path')
                    continue
                if not (isinstance(p.ret, tuple) and p.ret[0] == 'agg' and p.ret[2] == 'Some'):
                    once('operands', None, 'cannot see the value returned by the list merge (%s)' % pathsem.tstr(p.ret))
                    continue
                n_some += 1
                if failed:
                    once('refusal-dropped', failed[0]['ln'], 'a refused merge (None) of one element is not propagated: conflicting claims would be accepted')
                if set(slots) != {0, 1}:
                    once('some-without-merge', None, 'a path returns Some (compatible) without merging every element of the two claim lists (e.g. an equality fast path: identical lists containing a Mutable claim are exactly the conflicting case)')
                    continue
                unk = [e for e in slots.values() if p.lookup(('discr', e['ret'])) != 1]
                if unk:
                    once('refusal-dropped', unk[0]['ln'], 'the result of an element merge is not checked before the merged list is returned')
                want = ('agg', 'tuple', None, 0, tuple(('f', ('down', slots[i]['ret'], 'Some', 1), 0, 'core::option::Option') for i in (0, 1)))
                if p.ret[4][0] != want:
                    once('operands', None, 'the merged list is not (merged head, merged tail): %s' % pathsem.tstr(p.ret))
            if not n_some:
                once('operands', None, 'list merge never returns a merged list')
    return r


@rule('G6', props=['C03', 'C05', 'C14'], floor=12, configs=('all', 'default'))
def g6_subview_extraction(prog):
    """SubViewable::view: a super view stored as MaybeUninit (non-optional super kind) may only be
    assume_init-ed under the true edge of the identifier bit test at this view's own index when the
    sub-view is optional (the entity may lack the component), unconditionally when the sub-view is
    non-optional (the filter guarantees presence); an optional super view is unwrapped
    (unwrap_unchecked) only for a non-optional sub-view; the remainder is (views.1, indices.1)."""
    r = Result()
    for imp in prog.facts['impls']:
        if not imp['trait'] or not imp['trait']['path'].endswith('query::view::subset::SubViewable'):
            continue
        ta = trait_args(imp)
        st = imp['self']
        if st.get('k') != 'tuple' or len(ta) < 2 or ta[1].get('k') == 'tuple':
            continue
        sub = view_kind_of(ta[0])
        sup = view_kind_of(st['e'][0])
        fs = [f for f in prog.impl_methods(imp) if f.name == 'view']
        if not fs or sub is None or sup is None or sub[0] == 'ident':
            continue
        f = fs[0]
        body = f.body
        key = 'SubViewable::view[sub=%s from super=%s]' % (kind_str(sub), kind_str(sup))
        r.inst(key)
        E = pathsem.analyse(prog, f)
        rets = [p for p in E.paths if p.ended == 'return']
        rep = set()

        def once(k, ln, msg, key=key, f=f, rep=rep):
            if k not in rep:
                rep.add(k)
                r.viol('G6', key + '/' + k, f.loc(ln), msg)
        if E.truncated or not rets:
            once('not-analysable', None, 'path enumeration cut off')
            continue
        S = pathsem.strip_refs
        # the trait fixes the parameter positions (views, indices, identifier); names are the impl's own
        pv = ('p', 1, body.local_name(1) or '')
        pi = ('p', 2, body.local_name(2) or '')
        pid = 3
        v0 = ('f', pv, 0, 'tuple')
        rem = ('agg', 'tuple', None, 0, (('f', pv, 1, 'tuple'), ('f', pi, 1, 'tuple')))

        def is_bit(a_):
            return isinstance(a_, tuple) and a_[0] == 'call' and a_[1].endswith('::get_unchecked') and 'IdentifierRef' in a_[1] and len(a_[2]) == 2 \
                and S(a_[2][0]) == ('p', pid, body.local_name(pid) or '') and S(a_[2][1]) == ('f', pi, 0, 'tuple')
        for p in rets:
            inits = p.calls(lambda e: e['name'] == 'assume_init')
            unwraps = [e for e in p.calls(lambda e: e['name'] in ('unwrap_unchecked', 'unwrap', 'expect')) if S(e['args'][0]) == v0]
            if not (isinstance(p.ret, tuple) and p.ret[0] == 'agg' and p.ret[1] == 'tuple' and len(p.ret[4]) == 2):
                once('remainder', None, 'cannot see the (view, remainder) pair returned')
                continue
            V, R_ = p.ret[4]
            if R_ != rem:
                once('remainder', None, 'remainder handed to the next sub-view must be (views.1, indices.1)')
            good_init = [e for e in inits if S(e['args'][0]) == v0]
            if sup[0] == 'ref':
                bits = [(a_, v) for a_, v in p.conds if is_bit(a_)]
                if sub[0] == 'opt':
                    bit_true = any(v is True for a_, v in bits)
                    if inits and not bit_true:
                        once('unguarded-assume-init', inits[0]['ln'], 'optional sub-view reads a possibly uninitialised super view: assume_init must be guarded by the identifier bit at this view\'s own index (indices.0)')
                    if bit_true:
                        if len(good_init) != 1 or V != pathsem.SOME(good_init[0]['ret']):
                            once('assume-init-count', None, 'with the identifier bit set the sub-view must be Some(the super view, assume_init-ed exactly once)')
                    elif V != pathsem.NONE:
                        once('unguarded-assume-init', None, 'without the identifier bit set the optional sub-view must be None')
                else:
                    if len(good_init) != 1 or len(inits) != 1 or V != good_init[0]['ret']:
                        once('assume-init-count', None, 'a MaybeUninit super view must be assume_init-ed exactly once (found %d)' % len(inits))
            else:
                if inits:
                    once('assume-init-on-option', inits[0]['ln'], 'an optional super view is not MaybeUninit')
                payload = ('f', ('down', v0, 'Some', 1), 0, 'core::option::Option')
                if sub[0] == 'ref':
                    if len(unwraps) != 1 or S(V) != payload:
                        once('unwrap', None, 'non-optional sub-view of an optional super view must unwrap it exactly once')
                else:
                    if unwraps:
                        once('unwrap-on-optional', unwraps[0]['ln'], 'optional sub-view of an optional super view must pass the Option through (the component may be absent)')
                    core = V
                    while isinstance(core, tuple) and core[0] == 'cast':
                        core = core[2]
                    d = p.lookup(('discr', v0))
                    ok = core == v0 or (d == 0 and core == pathsem.NONE) or \
                        (d == 1 and isinstance(core, tuple) and core[0] == 'agg' and core[2] == 'Some' and S(core[4][0]) in (payload, ('d', payload)))
                    if not ok:
                        once('pass-through', None, 'optional sub-view of an optional super view must be that Option itself')
    return r


@rule('L1', props=['C14'], floor=2, configs=('all', 'default'))
def l1_reborrow_lifetime(prog):
    """A safe method of a handle that stores a raw pointer to the World and returns reference-carrying
    views must bound those views by the borrow of its receiver (a method-level lifetime), not by the
    handle's own lifetime: otherwise two calls yield two live views of one component."""
    r = Result()
    for name, path in (('world::entry::Entry', 'world::entry::Entry'), ('query::entries::Entry', 'query::entries::Entry')):
        fs = [f for f in prog.fns.values() if f.name == 'query' and f.impl and is_adt(f.impl['self'], path) and f.d.get('vis') == 'pub']
        if len(fs) != 1:
            r.viol('L1', name + '/missing', '-', '%s::query not found' % name)
            continue
        f = fs[0]
        r.inst('%s::query' % name)
        own_lts = {g['name'] for g in f.impl['generics'] if g['kind'] == 'lifetime'}
        meth_lts = {g['name'] for g in f.d['generics'] if g['kind'] == 'lifetime'} - own_lts
        out_params = ty_params(f.d.get('output'))
        bad = []
        for p in f.d.get('predicates', []):
            if p['k'] == 'trait' and p['self'].get('k') == 'param' and p['self']['name'] in out_params and p['trait'].endswith('query::view::Views'):
                lts = [a['s'] for a in p['args'] if a.get('k') == 'region']
                if any(l in own_lts for l in lts) and not any(l in meth_lts for l in lts):
                    bad.append((p['self']['name'], lts))
        # receiver region
        ins = f.d.get('inputs') or []
        if bad:
            r.viol('L1', '%s::query/views-outlive-receiver-borrow' % name, f.loc(),
                   'returned views %s carry the handle\'s lifetime %s instead of the `&mut self` borrow: the method can be called again while an earlier result is alive (two live &mut to one component)' % (bad[0][0], bad[0][1]))
    return r


@rule('I2', props=['C03'], floor=1, configs=('all', 'default'))
def i2_size_hint_upper(prog):
    """result::Iter::size_hint may report a finite upper bound only when no further archetype can contribute:
    the decision to return `Some(upper)` must depend on the *upper* bound of the archetype iterator's own
    size_hint (its lower bound may legitimately be 0 at any time, so a decision taken from the lower bound
    alone under-reports the remaining count)."""
    r = Result()
    fs = [f for f in prog.fns.values() if f.name == 'size_hint' and f.impl and f.impl['trait'] and f.impl['trait']['path'] == 'core::iter::Iterator' and is_adt(f.impl['self'], 'query::result::iter::Iter')]
    if len(fs) != 1:
        r.viol('I2', 'missing', '-', 'Iter::size_hint not found')
        return r
    f = fs[0]
    E = pathsem.analyse(prog, f)
    rets = [p for p in E.paths if p.ended == 'return']
    S = pathsem.strip_refs
    if E.truncated or not rets:
        r.viol('I2', 'not-analysable', f.loc(), 'path enumeration cut off')
        return r
    n_inner = 0
    bad = None
    for p in rets:
        inner = [e for e in p.calls(lambda e: e['name'] == 'size_hint' and e['f'].get('trait') == 'core::iter::Iterator')
                 if any(ty_mentions(a_, lambda n: n.get('k') == 'adt' and n['path'].startswith('archetypes::')) for a_ in e['f'].get('args', []))]
        n_inner = max(n_inner, len(inner))
        v = p.ret
        upper = v[4][1] if isinstance(v, tuple) and v[0] == 'agg' and v[1] == 'tuple' and len(v[4]) == 2 else None
        if upper == pathsem.NONE:
            continue
        if not inner:
            r.viol('I2', 'no-inner-size-hint', f.loc(), 'size_hint does not consult the archetype iterator: it cannot bound the entities of archetypes not yet visited')
            return r
        sh = inner[0]['ret']

        def reads_upper(a_):
            for t in pathsem.subterms(a_):
                if t[0] == 'f' and t[2] == 1 and t[3] == 'tuple' and S(t[1]) == sh:
                    return True
                if t[0] == 'call' and any(S(x) == sh for x in t[2]) and t != sh:
                    return True      # whole-tuple comparison
                if t[0] == 'bin' and (S(t[2]) == sh or S(t[3]) == sh):
                    return True
            return False
        if not any(reads_upper(a_) for a_, _ in p.conds):
            bad = bad or p
    r.inst('Iter::size_hint: %d returning paths, %d inner size_hint call(s) on the archetype iterator' % (len(rets), n_inner))
    if bad is not None:
        r.viol('I2', 'finite-upper-without-inner-upper', f.loc(),
               'a finite upper bound is returned without the decision depending on the archetype iterator\'s upper bound: while archetypes remain, the reported upper bound can be below the number of results still to come')
    return r


@rule('C9f', props=['C09'], floor=2, configs=('all',))
def c9f_results_folder(prog):
    """Parallel query folder: for an archetype that passes the `And<Views, Filter>` filter the partial
    result of driving its parallel views is combined with (not substituted for) the results gathered so
    far — `previous` of the returned folder depends on both the old `previous` and the new result, through
    the base consumer's reducer when both exist; an archetype that does not pass is skipped leaving the
    folder unchanged; `complete` hands out the accumulated result."""
    r = Result()
    fs = [f for f in prog.fns.values() if f.name == 'consume' and f.impl and is_adt(f.impl['self'], 'query::result::par_iter::ResultsFolder')]
    if len(fs) != 1:
        r.viol('C9f', 'consume/missing', '-', 'ResultsFolder::consume not found')
        return r
    f = fs[0]
    r.inst('ResultsFolder::consume')
    adt = prog.adts.get('query::result::par_iter::ResultsFolder')
    names = [x['name'] for x in adt['variants'][0]['fields']]
    pi = names.index('previous')
    E = pathsem.analyse(prog, f)
    rets = [p for p in E.paths if p.ended == 'return']
    rep = set()

    def once(k, ln, msg, fn=f):
        if k not in rep:
            rep.add(k)
            r.viol('C9f', k, fn.loc(ln), msg)
    if E.truncated or not rets:
        once('consume/shape', None, 'consume not analysable')
    S = pathsem.strip_refs
    me = ('p', 1, f.body.local_name(1) or 'self')
    arch = ('p', 2, f.body.local_name(2) or 'archetype')
    prev = ('f', me, pi, 'query::result::par_iter::ResultsFolder')
    prev_payload = ('f', ('down', prev, 'Some', 1), 0, 'core::option::Option')
    n_match = 0
    for p in rets:
        filt = p.calls(lambda e: e['name'] == 'filter' and 'contains::filter' in e['path'])
        drive = p.calls(lambda e: e['name'] in ('drive_unindexed', 'drive'))
        pv = p.calls(lambda e: e['name'] == 'par_view' and e['path'].startswith('archetype::Archetype'))
        if len(filt) != 1:
            once('consume/shape', None, 'consume must filter the archetype exactly once per path (found %d)' % len(filt))
            continue
        g = [a_ for a_ in filt[0]['f']['args'] if a_.get('k') != 'region']
        if not any(is_adt(a_, 'query::filter::And') for a_ in g):
            once('consume/filter-not-and', filt[0]['ln'], 'archetypes must be selected with And<Views, Filter>')
        if not pathsem.mentions(filt[0]['args'][0], lambda t: t == arch):
            once('consume/filter-other-archetype', filt[0]['ln'], 'the filter is not applied to the archetype being consumed')
        tv = p.lookup(filt[0]['ret'])
        if tv is None:
            once('consume/filter-branch', filt[0]['ln'], 'filter result does not control a two-way branch')
            continue
        if tv is False:
            if drive or pv:
                once('consume/folder-on-skip-path', (drive or pv)[0]['ln'], 'the archetype is viewed on the path where it does not match the filter')
            if S(p.ret) != me:
                once('consume/folder-on-skip-path', None, 'a new folder is built on the path where the archetype does not match')
            continue
        n_match += 1
        emp = [e for e in p.calls(lambda e: e['name'] == 'is_empty' and e['path'].startswith('archetype::Archetype'))
               if S(e['args'][0]) == arch and p.lookup(e['ret']) is True]
        if emp and not drive and not pv:
            # a matching archetype found empty has no entity to visit: it may be skipped, but only with the
            # accumulated result left exactly as it was
            v = p.ret
            kept = S(v) == me or (isinstance(v, tuple) and v[0] == 'agg' and v[1] == 'query::result::par_iter::ResultsFolder' and S(v[4][pi]) == prev)
            if not kept:
                once('consume/result-dropped', emp[0]['ln'], 'on the path where the matching archetype is empty the accumulated result is not kept as it was: results of the archetypes visited before are lost')
            continue
        if len(drive) != 1 or len(pv) != 1 or not pathsem.mentions(drive[0]['args'][0], lambda t: t == pv[0]['ret']) or S(pv[0]['vals'][0]) != arch:
            once('consume/shape', None, 'consume must view the matching archetype in parallel and drive those views exactly once (par_view=%d drive=%d)' % (len(pv), len(drive)))
            continue
        res = drive[0]['ret']
        v = p.ret
        if not (isinstance(v, tuple) and v[0] == 'agg' and v[1] == 'query::result::par_iter::ResultsFolder'):
            once('consume/no-new-folder', None, 'no folder is built from the new partial result')
            continue
        np_ = v[4][pi]
        d = p.lookup(('discr', prev))
        if not (isinstance(np_, tuple) and np_[0] == 'agg' and np_[2] == 'Some'):
            once('consume/result-dropped', None, 'the partial result of this archetype does not reach the folder\'s accumulated result: its entities are silently lost')
            continue
        x = np_[4][0]
        if d == 0:
            if x != res:
                once('consume/result-dropped', None, 'the partial result of this archetype does not reach the folder\'s accumulated result: its entities are silently lost')
        elif d == 1:
            red = p.calls(lambda e: e['name'] == 'reduce')
            if len(red) != 1 or x != red[0]['ret']:
                once('consume/no-reduce', None, 'results of two archetypes are not combined with the consumer\'s reducer')
            else:
                ops_ = [S(a_) for a_ in red[0]['args'][1:]]
                if ops_ != [prev_payload, res]:
                    once('consume/reduce-operands', red[0]['ln'], 'the reducer must combine the previously accumulated result with this archetype\'s result, in that order (previous: %s, new result: %s)' % (prev_payload in ops_, res in ops_))
        else:
            once('consume/result-dropped', None, 'the accumulated result is replaced without looking at the previous one')
    if not n_match:
        once('consume/shape', None, 'no path consumes a matching archetype')
    # complete
    cs = [g_ for g_ in prog.fns.values() if g_.name == 'complete' and g_.impl and is_adt(g_.impl['self'], 'query::result::par_iter::ResultsFolder')]
    if len(cs) != 1:
        r.viol('C9f', 'complete/missing', '-', 'ResultsFolder::complete not found')
    else:
        c = cs[0]
        r.inst('ResultsFolder::complete')
        E = pathsem.analyse(prog, c)
        me = ('p', 1, c.body.local_name(1) or 'self')
        prev = ('f', me, pi, 'query::result::par_iter::ResultsFolder')
        prev_payload = ('f', ('down', prev, 'Some', 1), 0, 'core::option::Option')
        seen = False
        for p in E.paths:
            if p.ended != 'return':
                continue
            d = p.lookup(('discr', prev))
            if d == 1:
                seen = True
                if S(p.ret) != prev_payload:
                    once('complete/previous-dropped', None, 'complete does not return the accumulated result', fn=c)
        if not seen or E.truncated:
            once('complete/previous-dropped', None, 'complete does not return the accumulated result', fn=c)
    return r


@rule('I3', props=['C03', 'C09', 'C05', 'C08'], floor={'all': 2, 'default': 1}, configs=('all', 'default'))
def i3_result_selection(prog):
    """Which archetypes a query result draws from is decided by `And<Views, Filter>` and nothing weaker: inside
    every method (and closure) of the query result iterators — sequential Iter, parallel ParIter and its
    consumer/folder — each evaluation of the registry filter on an archetype identifier has a filter type
    that mentions both the iterator's Views and its Filter parameter. A shortcut that consults Filter alone
    (e.g. a `count()` override summing archetype lengths) counts or yields entities that lack a viewed
    component."""
    r = Result()
    OWNERS = ('query::result::iter::Iter', 'query::result::par_iter::ParIter', 'query::result::par_iter::ResultsFolder', 'query::result::par_iter::ResultsConsumer')
    def users_of(dp):
        # functions whose body builds the closure `dp` (a closure of a helper spliced into its callers has lost its parent)
        out = []
        for g in prog.fns.values():
            if any(s_['k'] == 'assign' and s_['rv'].get('agg') == 'closure' and s_['rv'].get('dp') == dp for _, _, s_ in g.body.stmts()):
                out.append(g)
        return out

    def tops_of(f, depth=0):
        top = f
        while top.kind == 'Closure' and top.parent in prog.fns:
            top = prog.fns[top.parent]
        if top.kind == 'Closure' and depth < 3:
            return [t_ for u in users_of(top.dp) for t_ in tops_of(u, depth + 1)]
        return [top]
    for f, top in [(f, top) for f in prog.fns.values() for top in tops_of(f)]:
        imp = top.impl
        if imp is None or not any(is_adt(imp['self'], o) for o in OWNERS):
            continue
        gnames = {g['name'] for g in imp['generics'] if g['kind'] == 'type'}
        if not {'Views', 'Filter'} <= gnames:
            continue
        for b, t in f.body.calls(lambda c: c['name'] == 'filter' and 'registry::contains::filter' in c['path']):
            g = [a for a in t['f']['args'] if a.get('k') != 'region']
            ft = g[1] if len(g) > 1 else None
            key = '%s::%s' % (ty_str(imp['self']).split('<')[0], top.name)
            r.inst('%s filters with %s' % (key, ty_str(ft)))
            names = ty_params(ft) if ft is not None else set()
            if not ({'Views', 'Filter'} <= set(names)):
                r.viol('I3', key + '/filter-without-views', f.loc(t['ln']),
                       'archetypes are selected with %s, which does not include the iterator\'s Views: archetypes lacking a viewed component are counted or visited' % ty_str(ft))
    return r


@rule('Z1', props=['C06', 'C11', 'C01', 'C05'], floor={'all': 10, 'default': 8}, configs=('all', 'default'))
def z1_division_by_type_size(prog):
    """Components may be zero-sized (marker types): no division or remainder anywhere in the crate has a divisor
    that is `size_of::<T>()` of a type mentioning a generic parameter, unless the path to it has compared that
    size with zero. (rustc keeps the divide-by-zero assertion even with overflow checks off, so such a division
    panics for a zero-sized component — e.g. a capacity heuristic in a deserialiser makes valid data unreadable.)
    Instances: every Div/Rem in the crate, with the provenance of its divisor."""
    r = Result()
    for f in prog.fns.values():
        body = f.body
        for b, i, s in body.stmts():
            if s['k'] != 'assign' or s['rv']['k'] != 'binop' or not s['rv']['op'].startswith(('Div', 'Rem')):
                continue
            dv = s['rv']['b']
            l = op_local(dv)
            src = 'const' if 'const' in dv else 'local'
            culprit = None
            hops = 0
            while l is not None and hops < 10:
                hops += 1
                d = resolve_def(body, l)
                if d is None:
                    break
                if d[0] == 'call':
                    fn = d[2]['f']
                    if fn.get('path', '').startswith('core::mem::size_of') and any(ty_params(a) for a in fn.get('args', []) if a.get('k') != 'region'):
                        culprit = (d[1], d[2])
                    break
                rv = d[3]['rv']
                if rv['k'] == 'use' and op_local(rv['op']) is not None:
                    l = op_local(rv['op'])
                    continue
                if rv['k'] == 'use' and 'const' in rv['op']:
                    c = rv['op']['const']
                    if 'uneval' in c and 'SIZE' in c.get('uneval_name', '').upper():
                        src = 'assoc-const'
                    break
                break
            r.inst('%s: %s by %s' % (f.path[:80], s['rv']['op'], 'size_of::<T>()' if culprit else src))
            if culprit is None:
                continue
            # guarded by a comparison of that size with zero?
            cl = culprit[1]['dest']['l']
            der = derived(body, {cl})
            guarded = False
            for sb in range(body.n):
                st = body.term(sb)
                if st['k'] != 'switch':
                    continue
                dl = op_local(st['discr'])
                dd = single_def(body, dl) if dl is not None else None
                if dd and dd[0] == 'assign' and dd[3]['rv']['k'] == 'binop' and dd[3]['rv']['op'] in ('Eq', 'Ne', 'Gt', 'Lt', 'Ge', 'Le'):
                    ops_ = [dd[3]['rv']['a'], dd[3]['rv']['b']]
                    if any(op_local(o) in der for o in ops_ if op_local(o) is not None) and any(op_const(o) is not None and op_const(o).get('val') in (0, 1) for o in ops_):
                        if any(body.edge_dominates((sb, tg), b) for tg in set(st['targets'] + [st['otherwise']])):
                            guarded = True
            if not guarded:
                r.viol('Z1', '%s/division-by-size-of' % f.path, f.loc(s['ln']),
                       'division by size_of::<T>() of a generic type without a zero-size check: panics (attempt to divide by zero) for zero-sized components')
    return r


@rule('T2b', props=['C07', 'C08'], floor=1, configs=('all',))
def t2b_claims_recursion_complete(prog):
    """Claim lists are cons cells `(Claim, C)`: every method of the `Claims` impl for a cons cell that combines
    two lists and cannot fail (its result is not an Option) recurses into the tails `self.1`/`other.1` on every
    returning path — a per-column shortcut (e.g. "nothing to merge for this column, return") must not end the
    walk, or the claims of all later columns are silently dropped. (`try_merge`, which may refuse, is covered
    by T2.)"""
    r = Result()
    for imp in prog.facts['impls']:
        if not (imp['trait'] and imp['trait']['path'] == 'query::view::claim::Claims' and imp['self'].get('k') == 'tuple'):
            continue
        for f in prog.impl_methods(imp):
            out = f.d.get('output') or {}
            ins = f.d.get('inputs') or []
            if is_adt(out, 'core::option::Option') or len(ins) < 2:
                continue
            r.inst('Claims::%s for (Claim, C)' % f.name)
            E = pathsem.analyse(prog, f)
            S = pathsem.strip_refs
            bad = E.truncated or not E.paths
            for p in E.paths:
                if p.ended != 'return':
                    continue
                rec = [e for e in p.calls(lambda e: e['f'].get('trait') == 'query::view::claim::Claims' and e['name'] == f.name)
                       if any(pathsem.is_field_of(S(v), 'tuple', 1) for v in list(e['vals']) + list(e['args']))]
                if not rec:
                    bad = True
            if bad:
                r.viol('T2b', 'Claims::%s/tail-not-visited' % f.name, f.loc(), 'a path through Claims::%s for (Claim, C) returns without processing the tail of the two lists: the claims of every later column are dropped' % f.name)
    return r


@rule('L2', props=['C14'], floor={'all': 3, 'default': 2}, configs=('all', 'default'))
def l2_world_results_borrow_world(prog):
    """Every public method of World that takes `&self`/`&mut self` and whose signature declares lifetime
    parameters of its own (query, par_query, view_resources, ...) ties them to the receiver: the receiver is
    `&'a (mut) self` for one of those lifetimes. A named lifetime that only occurs in the result and its bounds
    is chosen freely by the caller, so the result would not keep the world borrowed and two conflicting
    results (or a result and a structural mutation) could be alive together in safe code."""
    r = Result()
    for f in prog.fns.values():
        if not (f.path.startswith('world::World::<Registry, Resources>::') and f.kind == 'AssocFn' and f.d.get('vis') == 'pub'):
            continue
        ins = f.d.get('inputs') or []
        if not ins or ins[0].get('k') != 'ref':
            continue
        imp = f.impl
        own = {g['name'] for g in (imp['generics'] if imp else []) if g['kind'] == 'lifetime'}
        meth = [g['name'] for g in f.d['generics'] if g['kind'] == 'lifetime' and g['name'] not in own]
        out = f.d.get('output') or {}
        if not meth or (out.get('k') == 'tuple' and not out.get('e')):
            continue      # nothing is returned that could outlive the borrow
        r.inst('World::%s<%s>(&%s self)' % (f.name, ', '.join(meth), ins[0].get('r')))
        if ins[0].get('r') not in meth:
            r.viol('L2', 'World::%s/result-not-tied-to-receiver' % f.name, f.loc(),
                   'World::%s declares the lifetime(s) %s for its result but takes `&%s self`: the result does not keep the world borrowed' % (f.name, ', '.join(meth), ins[0].get('r')))
    return r


@rule('W9', props=['C05', 'C04', 'C01', 'C17'], floor=1, configs=('all', 'default'))
def w9_replace_drops_old(prog):
    """`set_component` of the cell that holds the component (index marker `Contained`) replaces element `index` of
    column 0 in place: on every returning path the `component` parameter is stored exactly once, into an element of
    the slice/Vec rebuilt from slot 0 with the step's `length`, at `index`; and the store is a drop-and-assign (the
    old value is dropped at that very place first, or handed out by `mem::replace`/`swap`), never a raw
    `ptr::write`/`copy` over a live value (which leaks the old component, C04/C05)."""
    r = Result()
    S = pathsem.strip_refs
    n = 0
    for imp in prog.facts['impls']:
        if not imp['trait'] or not imp['trait']['path'].endswith('registry::contains::component::sealed::Sealed') or imp['self'].get('k') != 'tuple':
            continue
        ta = [a for a in imp['trait']['args'][1:] if a.get('k') != 'region']
        if not any(is_adt(a, 'registry::contains::Contained') for a in ta):
            continue
        fs = [f for f in prog.impl_methods(imp) if f.name == 'set_component']
        if not fs:
            # the walk may only *locate* the slot (return a pointer/reference to element `index` of column 0) and leave
            # the replacement to its caller
            for loc_f in prog.impl_methods(imp):
                out = loc_f.d.get('output') or {}
                if out.get('k') not in ('ptr', 'ref') or loc_f.body.argc < 3:
                    continue
                El = pathsem.analyse(prog, loc_f)
                lrets = [p for p in El.paths if p.ended == 'return']
                cands = {i: ('p', i, loc_f.body.local_name(i) or '') for i in range(1, loc_f.body.argc + 1)}
                colp = [t for i, t in cands.items() if ty_str(loc_f.body.local_ty(i)).lstrip('&').replace('mut ', '').startswith('[')]
                ok_loc = bool(lrets) and not El.truncated and len(colp) == 1
                for p in lrets if ok_loc else []:
                    v = p.ret
                    el = [t for t in pathsem.subterms(v) if isinstance(t, tuple) and t[0] == 'call' and t[1].rsplit('::', 1)[-1] in ('get_unchecked_mut', 'get_unchecked', 'index_mut', 'add', 'offset') and len(t[2]) == 2
                          and pathsem.mentions(t[2][0], lambda u: u == colp[0])]
                    frp = [t for t in pathsem.subterms(v) if isinstance(t, tuple) and t[0] == 'call' and t[1].rsplit('::', 1)[-1] in ('from_raw_parts_mut', 'from_raw_parts')]
                    usz = [t for i, t in cands.items() if ty_str(loc_f.body.local_ty(i)) == 'usize']
                    col0 = pathsem.mentions(v, lambda u: isinstance(u, tuple) and u[0] == 'call' and u[1].rsplit('::', 1)[-1] in ('get_unchecked', 'get_unchecked_mut', 'index', 'first') and S(u[2][0]) == colp[0] and (len(u[2]) == 1 or S(u[2][1]) == ('c', 0)))
                    # element index and slice length are two different usize parameters of the step
                    ixs = {S(t[2][1]) for t in el} & set(usz)
                    lns = {S(t[2][1]) for t in frp if len(t[2]) > 1} & set(usz)
                    if not (col0 and len(ixs) == 1 and (not frp or (len(lns) == 1 and lns != ixs))):
                        ok_loc = False
                if not ok_loc:
                    continue
                n += 1
                r.inst('%s for (C, R) [Contained] locates the slot' % loc_f.name)
                tpath = imp['trait']['path'] + '::' + loc_f.name
                callers = [g for g in prog.fns.values() if g.kind != 'Closure' and not (g.impl and g.impl.get('trait') and g.impl['trait']['path'] == imp['trait']['path'])
                           and any(True for _ in g.body.calls(lambda c: c['path'] == tpath))]
                if not callers:
                    r.viol('W9', 'set_component/missing', '-', 'the slot located by %s is never written' % loc_f.name)
                for g in callers:
                    Eg = pathsem.analyse(prog, g)
                    gp = {('p', i, g.body.local_name(i) or '') for i in range(1, g.body.argc + 1)}
                    bad = None
                    for p in Eg.paths:
                        if p.ended != 'return':
                            continue
                        for e in p.calls(lambda e: e['path'] == tpath):
                            slot = e['ret']
                            raw = p.calls(lambda q: q['name'] in ('write', 'write_unaligned', 'write_volatile', 'copy_nonoverlapping', 'copy') and q['path'].startswith('core::') and any(S(a_) == slot for a_ in q['args']))
                            if raw:
                                bad = bad or 'the located slot is overwritten with a raw %s: the replaced value is never dropped' % raw[0]['name']
                                continue
                            sts = [q for q in p.events if q['k'] == 'store' and S(q['loc']) in (('d', slot), slot) and S(q['value']) in gp]
                            if len(sts) != 1:
                                bad = bad or 'the component must be stored into the located slot exactly once (found %d stores)' % len(sts)
                                continue
                            if not [q for q in p.events if q['k'] == 'drop' and q['i'] < sts[0]['i'] and q.get('loc') is not None and S(q['loc']) == S(sts[0]['loc'])]:
                                bad = bad or 'the stored component is overwritten without being dropped first'
                    if bad or Eg.truncated:
                        r.viol('W9', 'set_component/overwrite-without-drop' if bad and 'drop' in bad else 'set_component/store-count', g.loc(), bad or 'not analysable')
            if not n:
                r.viol('W9', 'set_component/missing', '-', 'set_component of the containing cell not found')
            continue
        f = fs[0]
        n += 1
        r.inst('set_component for (C, R) [Contained]')
        E = pathsem.analyse(prog, f)
        rets = [p for p in E.paths if p.ended == 'return']
        rep = set()

        def once(k, ln, msg, f=f, rep=rep):
            if k not in rep:
                rep.add(k)
                r.viol('W9', 'set_component/' + k, f.loc(ln), msg)
        if E.truncated or not rets:
            once('not-analysable', None, 'path enumeration cut off')
            continue
        comp = ('p', 2, f.body.local_name(2) or '')
        idx = ('p', 1, f.body.local_name(1) or '')
        cols = ('p', 3, f.body.local_name(3) or '')
        for p in rets:
            stores = [e for e in p.events if e['k'] == 'store' and S(e['value']) == comp and pathsem.mentions(e['loc'], lambda t: t == cols)]
            raw = p.calls(lambda e: e['name'] in ('write', 'write_unaligned', 'write_volatile', 'copy_nonoverlapping', 'copy', 'write_bytes', 'swap_nonoverlapping')
                          and e['path'].startswith('core::') and any(pathsem.mentions(a_, lambda t: t == cols) for a_ in e['args']))
            if raw:
                once('overwrite-without-drop', raw[0]['ln'], 'the component is written over the stored one with a raw %s: the replaced value is never dropped (leak), although Entry::add on a present component replaces it' % raw[0]['name'])
                continue
            swaps = p.calls(lambda e: e['name'] in ('replace', 'swap') and e['path'].startswith('core::mem::') and any(pathsem.mentions(a_, lambda t: t == cols) for a_ in e['args']))
            if swaps:
                continue
            if len(stores) != 1:
                once('store-count', None, 'the component must be stored into its column exactly once (found %d stores)' % len(stores))
                continue
            st_ = stores[0]
            if not pathsem.mentions(st_['loc'], lambda t: t == idx):
                once('wrong-row', st_['ln'], 'the component is not stored at row `index`')
            drops = [e for e in p.events if e['k'] == 'drop' and e['i'] < st_['i'] and e.get('loc') is not None and S(e['loc']) == S(st_['loc'])]
            if not drops:
                once('overwrite-without-drop', st_['ln'], 'the stored component is overwritten without being dropped first')
    if not n:
        r.viol('W9', 'set_component/missing', '-', 'no `Contained` cell implements set_component')
    return r


@rule('W10', props=['C03', 'C01'], floor=2, configs=('all', 'default'))
def w10_identifier_cell_reads_its_row(prog):
    """Single-row views of the identifier column (`view_one` / `view_one_maybe_uninit` of the outer cell that holds
    `entity::Identifier`): the identifier handed out is the element at `index` of the column rebuilt from
    `entity_identifiers.0` with the archetype's `length` (or `entity_identifiers.0.add(index)` read directly) — the
    same row the component views of the tail are taken from (`index`, `length` forwarded unchanged)."""
    r = Result()
    S = pathsem.strip_refs
    for imp in prog.facts['impls']:
        if not imp['trait'] or not imp['trait']['path'].endswith('contains::views::sealed::ContainsViewsOuter') or imp['self'].get('k') != 'tuple':
            continue
        ta = [a for a in imp['trait']['args'][1:] if a.get('k') != 'region']
        if not (len(ta) > 1 and ta[1].get('k') == 'tuple' and ta[1]['e'] and is_adt(ta[1]['e'][0], 'registry::contains::Contained')):
            continue
        for f in prog.impl_methods(imp):
            if f.name not in ('view_one', 'view_one_maybe_uninit'):
                continue
            key = 'ContainsViewsOuter::%s [identifier cell]' % f.name
            r.inst(key)
            E = pathsem.analyse(prog, f)
            rets = [p for p in E.paths if p.ended == 'return']
            if E.truncated or not rets:
                r.viol('W10', key + '/not-analysable', f.loc(), 'path enumeration cut off')
                continue
            idx = ('p', 1, f.body.local_name(1) or '')
            ids = ('p', 3, f.body.local_name(3) or '')
            ln = ('p', 4, f.body.local_name(4) or '')

            def of_ids(t):
                return pathsem.mentions(t, lambda u: isinstance(u, tuple) and u[0] == 'f' and u[2] == 0 and S(u[1]) == ids)
            for p in rets:
                reads = []
                bad = None
                roots = [p.ret] + [a_ for e in p.calls(lambda e: True) for a_ in e['args']]
                for root in roots:
                    for t in pathsem.subterms(root):
                        if not (isinstance(t, tuple) and t[0] == 'call' and len(t) > 2 and t[2] and of_ids(t)):
                            continue
                        nm = t[1].rsplit('::', 1)[-1]
                        if nm in ('get_unchecked', 'get_unchecked_mut', 'index', 'index_mut', 'get', 'get_mut', 'add', 'offset', 'wrapping_add') and len(t[2]) == 2 and of_ids(t[2][0]):
                            reads.append(t)
                            if S(t[2][1]) != idx:
                                bad = bad or 'the identifier is read at row %s instead of `index`' % pathsem.tstr(t[2][1])[:60]
                        if nm in ('from_raw_parts', 'from_raw_parts_mut') and len(t[2]) >= 2 and S(t[2][1]) != ln:
                            bad = bad or 'the identifier column is rebuilt with length %s instead of the archetype\'s `length`' % pathsem.tstr(t[2][1])[:60]
                if not reads:
                    bad = bad or 'no read of the identifier column at `index` found (the first row, or another row, is handed out for every entity)'
                tails = p.calls(lambda e: e['name'] == f.name and e['path'].endswith('CanonicalViews::' + f.name))
                for e in tails:
                    a_ = [S(x) for x in e['args']]
                    if idx not in a_ or ln not in a_:
                        bad = bad or 'the component views of the tail are not taken at the same `index` / `length`'
                if bad:
                    r.viol('W10', key + '/identifier-row', f.loc(), bad)
                    break
    return r


@rule('E3', props=['C16', 'C10'], floor=1, configs=('all', 'default'))
def e3_column_equality_walk(prog):
    """`registry::eq::Sealed::component_eq` of a cons cell answers `true` only through the tail: every path that
    returns true has found the tail's `component_eq` true and — when the identifier bit of this cell is set — has
    compared this cell's two columns (both rebuilt from slot 0 of the two column lists) element-wise and found them
    equal. A shortcut that answers true from anything else (pointer identity, lengths, capacities) skips the rest of
    the registry: zero-sized components share one dangling pointer."""
    r = Result()
    S = pathsem.strip_refs
    n = 0
    for imp in prog.facts['impls']:
        if not imp['trait'] or not imp['trait']['path'].endswith('registry::eq::sealed::Sealed') or imp['self'].get('k') != 'tuple':
            continue
        fs = [f for f in prog.impl_methods(imp) if f.name == 'component_eq']
        if not fs:
            continue
        f = fs[0]
        n += 1
        r.inst('registry::eq::Sealed::component_eq for (C, R)')
        E = pathsem.analyse(prog, f)
        rets = [p for p in E.paths if p.ended == 'return']
        if E.truncated or not rets:
            r.viol('E3', 'component_eq/not-analysable', f.loc(), 'path enumeration cut off')
            continue
        ca = ('p', 1, f.body.local_name(1) or '')
        cb = ('p', 2, f.body.local_name(2) or '')

        def col0(t, who):
            return pathsem.mentions(t, lambda u: isinstance(u, tuple) and u[0] == 'call' and u[1].rsplit('::', 1)[-1] in ('get_unchecked', 'get_unchecked_mut', 'index', 'first', 'split_first', 'split_first_unchecked', 'get')
                                    and S(u[2][0]) == who and (len(u[2]) == 1 or S(u[2][1]) == ('c', 0)))
        rep = set()
        n_true = 0
        for p in rets:
            conds = list(p.conds)
            verdict = p.ret
            tails = p.calls(lambda e: e['name'] == 'component_eq')
            if verdict not in (pathsem.TRUE, pathsem.FALSE):
                if tails and verdict == tails[-1]['ret']:
                    conds.append((verdict, True))
                    verdict = pathsem.TRUE
                else:
                    if 'shape' not in rep:
                        rep.add('shape')
                        r.viol('E3', 'component_eq/not-analysable', f.loc(), 'cannot read the verdict %s' % pathsem.tstr(verdict)[:60])
                    continue
            if verdict != pathsem.TRUE:
                continue
            n_true += 1
            tail_true = [e for e in tails if any(a_ == e['ret'] and v is True for a_, v in conds)]
            if not tail_true and 'tail' not in rep:
                rep.add('tail')
                r.viol('E3', 'component_eq/true-without-tail', f.loc(), 'a path answers true without the rest of the registry having been compared (tail component_eq found true): later components are never compared')
            bit = [v for a_, v in conds if isinstance(a_, tuple) and isinstance(v, bool) and pathsem.mentions(a_, lambda u: isinstance(u, tuple) and u[0] == 'call' and u[1].endswith('::next'))
                   and not (a_[0] == 'discr')]
            if any(v is True for v in bit):
                def cmp_ok(a_, v):
                    if not (isinstance(a_, tuple) and a_[0] == 'call' and len(a_[2]) == 2):
                        return False
                    nm = a_[1].rsplit('::', 1)[-1]
                    if not ((nm == 'eq' and v is True) or (nm == 'ne' and v is False)):
                        return False
                    x, y = a_[2]
                    return (col0(x, ca) and col0(y, cb)) or (col0(x, cb) and col0(y, ca))
                if not any(cmp_ok(a_, v) for a_, v in conds) and 'col' not in rep:
                    rep.add('col')
                    r.viol('E3', 'component_eq/column-not-compared', f.loc(), 'with this cell\'s identifier bit set a path answers true without having compared the two columns of this component element-wise')
        if not n_true:
            r.viol('E3', 'component_eq/never-true', f.loc(), 'component_eq never answers true')
    if not n:
        r.viol('E3', 'component_eq/missing', '-', 'registry::eq::Sealed::component_eq for (C, R) not found')
    return r
