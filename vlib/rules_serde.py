"""X (writer/reader wire-shape agreement) and G5 (deserialisation validators) rules."""
import json
from .engine import rule, Result
from .mir import *
from . import pathsem
from .sym import SymEval, Lin
from . import cprop
from .rules_guard import owner_fn

SER_CONT = ('serialize_tuple', 'serialize_struct', 'serialize_seq', 'serialize_newtype_struct', 'collect_seq', 'serialize_tuple_struct', 'serialize_map')
SER_ELEM = ('serialize_element', 'serialize_field')
DE_CONT = ('deserialize_tuple', 'deserialize_struct', 'deserialize_seq', 'deserialize_newtype_struct', 'deserialize_tuple_struct', 'deserialize_map')
DE_ELEM = ('next_element', 'next_element_seed')

# frozen wrapper pairing (each confirmed by reading): writer-side type <-> reader-side type
WRAP = {
    'SerializeColumn': 'DeserializeColumn', 'SerializeColumns': 'DeserializeColumns', 'SerializeRows': 'DeserializeRows',
    'SerializeRow': 'DeserializeRow', 'SerializeArchetypeByRow': 'VisitArchetypeByRow', 'SerializeArchetypeByColumn': 'VisitArchetypeByColumn',
    'Serializer': 'Deserializer', 'Archetypes': 'DeserializeArchetypes', 'Allocator': 'DeserializeAllocator', 'SerializeFree': 'Vec',
}


def norm_ty(t, side):
    """Comparable rendering of an element type: wrapper names mapped to the writer-side name."""
    s = ty_str(t)
    inv = {v: k for k, v in WRAP.items()}
    head = s.split('<')[0]
    rest = s[len(head):]
    if side == 'de' and head in inv:
        head = inv[head]
    if head == 'SerializeFree':
        rest = ''     # SerializeFree<R> <-> Vec<Identifier>
    if rest.endswith(', Global>'):
        rest = rest[:-len(', Global>')] + '>'
    return head + rest


class LenEval(SymEval):
    def default_atomizer(self, kind, payload, pos):
        if kind == 'place':
            nm = access_field_names(self.prog, self.body, normalize_access(access_of_place(self.body, payload)))
            last = nm.split('.')[-1]
            if last == 'length':
                return 'length'
            return last
        if kind == 'const':
            args = [ty_str(a) for a in payload.get('uneval_args', []) if a.get('k') != 'region']
            return payload['uneval_name'] + '<' + ','.join(args) + '>'
        if kind == 'call':
            f = payload['f']
            n = f.get('name')
            if n == 'count':
                return 'count(identifier)'
            if n == 'len' and payload['args']:
                at = peel_refs(self.body.place_ty(op_place(payload['args'][0])))
                if at is not None and ty_mentions(at, lambda x: x.get('k') == 'adt' and x['path'].endswith('VecDeque')):
                    return 'len(free)'
                return 'length'      # a column / row list holds `length` values (W5)
        return None

    def rvalue(self, rv, pos, depth=0):
        if rv['k'] == 'binop' and rv['op'].startswith('Div'):
            a = self.operand(rv['a'], pos, depth)
            c = self.operand(rv['b'], pos, depth)
            if a is not None and c is not None:
                return Lin.atom('div(%s,%s)' % (a, c))
        return SymEval.rvalue(self, rv, pos, depth)


def dom_order(body, blocks):
    return sorted(blocks, key=lambda b: (len(body.dominators().get(b, ())), b))


_SHAPE_CACHE = {}


def shape_of(prog, f, side):
    """Ordered shape events of a serializer / visitor body: the serde calls met, in order, on the longest
    non-failing path through the function (closures handed to iterator adaptors included)."""
    ck = (id(prog), f.dp, side)
    if ck in _SHAPE_CACHE:
        return _SHAPE_CACHE[ck]
    cont = SER_CONT if side == 'ser' else DE_CONT
    elem = SER_ELEM if side == 'ser' else DE_ELEM
    WALKS = ('serialize_components_by_row', 'serialize_components_by_column', 'deserialize_components_by_row', 'deserialize_components_by_column')

    def relevant(e):
        return e['k'] == 'call' and e.get('fn') is not None and ('serde' in e['path'] or e['name'] in WALKS or (e['name'] in ('serialize', 'deserialize') and (e['f'].get('trait') or '').startswith('resource::')))
    # resolved calls to sibling methods of the same impl are followed (a thin `by_row`/`by_column` wrapper over one
    # shared walk writes what that walk writes for the argument it passes)
    E = pathsem.analyse(prog, f, max_paths=20000, inline=lambda c, f=f: f.impl is not None and c.impl is f.impl and c.dp != f.dp)
    cands = [p for p in E.paths if p.ended == 'return' and not (isinstance(p.ret, tuple) and p.ret[0] == 'agg' and p.ret[2] == 'Err')]
    if not cands:
        cands = [p for p in E.paths if p.ended in ('return', 'cutoff')]
    best = max(cands, key=lambda p: (len({(e['fn'].dp, e['block']) for e in p.events if relevant(e)}), -len(p.events))) if cands else None
    ev = []
    seen = set()
    for e in (best.events if best else []):
        if not relevant(e):
            continue
        fn = e['fn']
        b = e['block']
        if (fn.dp, b) in seen:
            continue
        seen.add((fn.dp, b))
        body = fn.body
        t = body.term(b)
        if t.get('k') not in ('call', 'tailcall') or 'path' not in t.get('f', {}):
            continue
        n = t['f']['name']
        g = [a for a in t['f']['args'] if a.get('k') != 'region']
        loop = (b in body.reachable_after(b)) or fn.kind == 'Closure'
        key = b if fn is f else (fn.dp, b)
        if n == 'is_human_readable':
            ev.append(('hr', key))
        elif n in cont:
            se = LenEval(prog, body)
            consts = [op_const(a) for a in t['args']]
            name = next((c['s'] for c in consts if c and isinstance(c.get('s'), str) and c['s'].startswith('"')), None)
            ln = None
            for a in t['args'][1:]:
                c = op_const(a)
                if c is not None and 'val' in c:
                    ln = Lin.k(c['val'])
                elif c is not None and 'uneval' in c and 'FIELDS' not in c['uneval']:
                    ln = se.operand(a, (b, None))
                elif op_place(a) is not None and peel_refs(body.place_ty(op_place(a))) and peel_refs(body.place_ty(op_place(a))).get('name') == 'usize':
                    ln = se.operand(a, (b, None))
                elif op_place(a) is not None and is_adt(body.place_ty(op_place(a)), 'core::option::Option'):
                    l = op_local(a)
                    d = single_def(body, l) if l is not None else None
                    if d and d[0] == 'assign' and d[3]['rv']['k'] == 'agg' and d[3]['rv']['ops']:
                        ln = se.operand(d[3]['rv']['ops'][0], (b, None))
            visitor = ty_str(g[-1]).split('<')[0] if side == 'de' and g else None
            inner = norm_ty(g[1], side) if n == 'serialize_newtype_struct' and len(g) > 1 else None
            ev.append(('cont', n.replace('deserialize_', '').replace('serialize_', ''), name, str(ln) if ln is not None else None, visitor, inner, b if fn is f else None,
                       (g[-1] if side == 'de' and g else (g[1] if n == 'serialize_newtype_struct' and len(g) > 1 else None))))
        elif n in elem:
            T = g[1] if len(g) > 1 else None
            fld = next((op_const(a)['s'] for a in t['args'] if op_const(a) and isinstance(op_const(a).get('s'), str) and op_const(a)['s'].startswith('"')), None)
            ev.append(('elem', norm_ty(T, side) if T is not None else None, fld, loop, key, T))
        elif n in WALKS:
            ev.append(('walk', n.replace('deserialize_', '').replace('serialize_', ''), key))
        elif n in ('serialize', 'deserialize') and (t['f'].get('trait') or '').startswith('resource::'):
            ev.append(('walk', 'resources', key))
    _SHAPE_CACHE[ck] = ev
    return ev


def subst_ty(t, mapping):
    """Replace type parameters by name."""
    if isinstance(t, dict):
        if t.get('k') == 'param' and t.get('name') in mapping:
            return mapping[t['name']]
        return {k: subst_ty(v, mapping) for k, v in t.items()}
    if isinstance(t, list):
        return [subst_ty(x, mapping) for x in t]
    return t


def adt_impl_fn(prog, ty, traits, fname):
    """(fn, {impl type parameter: instantiation}) of `impl <trait> for <the ADT of ty>`"""
    if not isinstance(ty, dict) or ty.get('k') != 'adt':
        return None, {}
    c = [f for f in prog.fns.values() if f.name == fname and f.impl and f.impl['trait'] and f.impl['trait']['path'] in traits
         and f.impl['self'].get('k') == 'adt' and f.impl['self']['path'] == ty['path']]
    if len(c) != 1:
        return None, {}
    f = c[0]
    mp = {}
    ia = [a for a in f.impl['self'].get('args', []) if a.get('k') != 'region']
    ta = [a for a in ty.get('args', []) if a.get('k') != 'region']
    for a, b in zip(ia, ta):
        if a.get('k') == 'param':
            mp[a['name']] = b
    return f, mp


def type_shape(prog, ty, side, depth=0):
    """What a value of this type writes (side 'ser': its Serialize impl) or reads (side 'de': its Visitor::visit_seq, or
    the visitor its DeserializeSeed/Deserialize impl hands to the container call): (fn, declared length, elements
    [(normalised type, in a loop, type with the instantiation substituted)], walks)."""
    if depth > 3:
        return None
    if side == 'ser':
        f, mp = adt_impl_fn(prog, ty, ('serde::Serialize',), 'serialize')
        if f is None:
            return None
        sh = shape_of(prog, f, 'ser')
    else:
        f, mp = adt_impl_fn(prog, ty, ('serde::de::Visitor',), 'visit_seq')
        if f is None:
            d, mp = adt_impl_fn(prog, ty, ('serde::de::DeserializeSeed', 'serde::Deserialize'), 'deserialize')
            if d is None:
                return None
            conts = [e for e in shape_of(prog, d, 'de') if e[0] == 'cont' and e[7] is not None]
            if len(conts) != 1:
                return None
            return type_shape(prog, subst_ty(conts[0][7], mp), 'de', depth + 1)
        sh = shape_of(prog, f, 'de')
    elems = []
    for e in sh:
        if e[0] == 'elem':
            T = subst_ty(e[5], mp) if e[5] is not None else None
            elems.append((norm_ty(T, side) if T is not None else None, e[3], T))
    lens = [e[3] for e in sh if e[0] == 'cont']
    return (f, lens, elems, [e[1] for e in sh if e[0] == 'walk'])


def reach_walks(prog, ty, side, depth=0):
    """Registry walks reached from a type through the element types it writes / reads."""
    sh = type_shape(prog, ty, side)
    if sh is None or depth > 5:
        return set()
    out = set(sh[3])
    for n, loop, T in sh[2]:
        if isinstance(T, dict) and T.get('k') == 'adt':
            out |= reach_walks(prog, T, side, depth + 1)
    return out


def hr_branches(prog, f, side):
    """{True/False: type written (writer) / visitor type (reader)} per outcome of is_human_readable in f, or None."""
    E = pathsem.analyse(prog, f, max_paths=5000)
    out = {}
    names = SER_CONT if side == 'ser' else DE_CONT
    for p in E.paths:
        if p.ended != 'return':
            continue
        hr = p.calls(lambda e: e['name'] == 'is_human_readable')
        if len(hr) != 1:
            return None
        v = p.lookup(hr[0]['ret'])
        conts = p.calls(lambda e: e['name'] in names and 'serde' in e['path'])
        if not isinstance(v, bool) or len(conts) != 1:
            return None
        g = [a for a in conts[0]['f']['args'] if a.get('k') != 'region']
        T = (g[1] if len(g) > 1 else None) if side == 'ser' else (g[-1] if g else None)
        if T is None:
            return None
        out.setdefault(v, []).append(strip_regions(T))
    return out


def find_fn(prog, pred):
    c = [f for f in prog.fns.values() if pred(f)]
    return c[0] if len(c) == 1 else None


def ser_impl(prog, self_suffix):
    return find_fn(prog, lambda f: f.name == 'serialize' and f.impl and f.impl['trait'] and f.impl['trait']['path'] == 'serde::Serialize' and ty_str(f.impl['self']).split('<')[0] == self_suffix)


def visitor_fn(prog, visitor_name, method='visit_seq'):
    return find_fn(prog, lambda f: f.name == method and f.impl and f.impl['trait'] and f.impl['trait']['path'] == 'serde::de::Visitor' and ty_str(f.impl['self']).split('<')[0] == visitor_name)


def visitor_in(prog, entry, method):
    """The Visitor method defined inside the body of the reader entry function (nested item)."""
    c = [f for f in prog.fns.values() if f.name == method and f.dp.startswith(entry.dp + '::') and f.impl and f.impl['trait'] and f.impl['trait']['path'] == 'serde::de::Visitor']
    return c[0] if len(c) == 1 else None


def de_entry(prog, self_name):
    """deserialize fn of `impl Deserialize/DeserializeSeed for <self_name>`"""
    return find_fn(prog, lambda f: f.name == 'deserialize' and f.impl and f.impl['trait'] and f.impl['trait']['path'] in ('serde::Deserialize', 'serde::de::DeserializeSeed') and ty_str(f.impl['self']).split('<')[0] == self_name)


PAIRS = [
    # (label, writer self type, reader entry self type)
    ('World', 'World', 'World'),
    ('archetype::Identifier', 'Identifier<R>', 'Identifier<R>'),
    ('Column', 'SerializeColumn', 'DeserializeColumn'),
    ('Columns', 'SerializeColumns', 'DeserializeColumns'),
    ('Row', 'SerializeRow', 'DeserializeRow'),
    ('Rows', 'SerializeRows', 'DeserializeRows'),
    ('Allocator', 'Allocator', 'DeserializeAllocator'),
    ('entity::Identifier', 'Identifier', 'Identifier'),
    ('Resources', 'Serializer', 'Deserializer'),
]


def sel(prog, name, trait_paths, fname):
    """Pick fn by impl self rendering. 'Identifier<R>' selects the archetype identifier, 'Identifier' the entity one."""
    out = []
    for f in prog.fns.values():
        if f.name != fname or not f.impl or not f.impl['trait'] or f.impl['trait']['path'] not in trait_paths:
            continue
        s = ty_str(f.impl['self'])
        if name == 'Identifier<R>':
            ok = s.startswith('Identifier<')
        elif name == 'Identifier':
            ok = s == 'Identifier'
        else:
            ok = s.split('<')[0] == name
        if ok:
            out.append(f)
    return out[0] if len(out) == 1 else None


@rule('X1', props=['C06', 'C11', 'C15'], floor=9, configs=('all',))
def x1_wire_shape(prog):
    """For every writer/reader pair: same container kind, same name, same declared length expression
    (constants equal; computed lengths equal as symbolic expressions over {length, count(identifier),
    LEN}); the element sequences agree position by position (types equal modulo the frozen
    writer/reader wrapper pairing; loops match loops; registry walks match registry walks)."""
    r = Result()
    for label, wname, rname in PAIRS:
        w = sel(prog, wname, ('serde::Serialize',), 'serialize')
        d = sel(prog, rname, ('serde::Deserialize', 'serde::de::DeserializeSeed'), 'deserialize')
        if w is None or d is None:
            r.viol('X1', label + '/missing', '-', 'writer or reader for %s not found' % label)
            continue
        ws = shape_of(prog, w, 'ser')
        ds = shape_of(prog, d, 'de')
        wc = [e for e in ws if e[0] == 'cont']
        dc = [e for e in ds if e[0] == 'cont']
        if len(wc) != 1 or len(dc) != 1:
            r.viol('X1', label + '/container-count', w.loc(), 'expected one container on each side (writer %d, reader %d)' % (len(wc), len(dc)))
            continue
        wc, dc = wc[0], dc[0]
        for side, fn_, c in (('writer', w, wc), ('reader', d, dc)):
            if c[6] is not None and not fn_.body.must_pass(0, [c[6]], fn_.body.return_blocks()):
                r.viol('X1', label + '/container-skippable/' + side, fn_.loc(), 'a path through the %s returns without opening its container: the two sides disagree on the wire shape for some values (e.g. a fast path for empty data)' % side)
        r.inst('%s: writer %s(%s,%s) reader %s(%s,%s) visitor=%s' % (label, wc[1], wc[2], wc[3], dc[1], dc[2], dc[3], dc[4]))
        if wc[1] != dc[1] and not (wc[1] == 'seq' and dc[1] == 'seq'):
            r.viol('X1', label + '/container-kind', d.loc(), 'writer emits a %s but the reader expects a %s' % (wc[1], dc[1]))
        if wc[2] != dc[2]:
            r.viol('X1', label + '/container-name', d.loc(), 'container name differs: writer %s, reader %s' % (wc[2], dc[2]))
        if wc[1] in ('tuple', 'struct') and wc[3] != dc[3] and not (wc[1] == 'struct'):
            r.viol('X1', label + '/container-length', d.loc(), 'declared length differs: writer %s, reader %s' % (wc[3], dc[3]))
        # elements: writer's element events vs the visitor's visit_seq events
        vis = visitor_in(prog, d, 'visit_seq')
        if vis is None and dc[4]:
            # the visitor type handed to the container call, wherever it is defined (nested item or module level)
            cands = [f for f in prog.fns.values() if f.name == 'visit_seq' and f.impl and f.impl['trait'] and f.impl['trait']['path'] == 'serde::de::Visitor' and ty_str(f.impl['self']).split('<')[0] == dc[4]]
            vis = cands[0] if len(cands) == 1 else None
        if vis is None:
            r.viol('X1', label + '/visitor-missing', d.loc(), 'visitor %s::visit_seq not found' % dc[4])
            continue
        we = [e for e in ws if e[0] in ('elem', 'walk')]
        de = [e for e in shape_of(prog, vis, 'de') if e[0] in ('elem', 'walk')]
        wr = [(e[0], e[1], e[3] if e[0] == 'elem' else None) for e in we]
        dr = [(e[0], e[1], e[3] if e[0] == 'elem' else None) for e in de]
        if wr != dr:
            r.viol('X1', label + '/element-sequence', vis.loc(), 'element sequence differs: writer %s, reader %s' % (wr, dr))
        if wc[1] == 'struct':
            wf = [e[2] for e in we if e[0] == 'elem']
            # reader FIELDS const + visit_map keys
            vm = visitor_in(prog, d, 'visit_map')
            if vm is None:
                r.viol('X1', label + '/visit_map-missing', d.loc(), 'struct reader has no visit_map')
            if wc[3] is not None and wc[3] != str(Lin.k(len(wf))):
                r.viol('X1', label + '/struct-field-count', w.loc(), 'declared field count %s differs from the %d fields written' % (wc[3], len(wf)))
    # Archetypes: collect_seq over the archetypes <-> seq of Archetype<R>
    w = sel(prog, 'Archetypes', ('serde::Serialize',), 'serialize')
    d = sel(prog, 'DeserializeArchetypes', ('serde::de::DeserializeSeed',), 'deserialize')
    vis = visitor_fn(prog, 'ArchetypesVisitor')
    if w is None or d is None or vis is None:
        r.viol('X1', 'Archetypes/missing', '-', 'Archetypes writer/reader not found')
    else:
        r.inst('Archetypes: seq')
        ws, ds, vs = shape_of(prog, w, 'ser'), shape_of(prog, d, 'de'), shape_of(prog, vis, 'de')
        if not any(e[0] == 'cont' and e[1] in ('collect_seq', 'seq') for e in ws) or not any(e[0] == 'cont' and e[1] == 'seq' for e in ds):
            r.viol('X1', 'Archetypes/container-kind', d.loc(), 'archetypes must be written and read as a sequence')
        if [(e[1], e[3]) for e in vs if e[0] == 'elem'] != [('Archetype<R>', True)]:
            r.viol('X1', 'Archetypes/element', vis.loc(), 'archetypes reader must loop over Archetype<R> elements')
    # Archetype: newtype struct wrapping the by-row / by-column tuple, chosen by is_human_readable
    w = sel(prog, 'Archetype', ('serde::Serialize',), 'serialize')
    d = sel(prog, 'Archetype', ('serde::Deserialize',), 'deserialize')
    vn = visitor_fn(prog, 'ArchetypeVisitor', 'visit_newtype_struct')
    if w is None or d is None or vn is None:
        r.viol('X1', 'Archetype/missing', '-', 'Archetype writer/reader not found')
    else:
        wb, rb = hr_branches(prog, w, 'ser'), hr_branches(prog, vn, 'de')
        for enc, hrv in (('row', True), ('column', False)):
            wt = wb.get(hrv) if wb else None
            rt = rb.get(hrv) if rb else None
            ws_ = type_shape(prog, wt[0], 'ser') if wt and all(ty_eq(x, wt[0]) for x in wt) else None
            rs_ = type_shape(prog, rt[0], 'de') if rt and all(ty_eq(x, rt[0]) for x in rt) else None
            if ws_ is None or rs_ is None:
                r.viol('X1', 'Archetype/%s/missing' % enc, '-', '%s encoding writer/visitor not found' % enc)
                continue
            ww, wl, we_, _ = ws_
            vv, _, re_, _ = rs_
            a = [(n, l) for n, l, T in we_]
            b = [(n, l) for n, l, T in re_]
            r.inst('Archetype %s encoding: %s' % (enc, a))
            if a != b:
                r.viol('X1', 'Archetype/%s/element-sequence' % enc, vv.loc(), '%s encoding: writer elements %s, reader elements %s' % (enc, a, b))
            if wl != [str(Lin.k(len(a)))]:
                r.viol('X1', 'Archetype/%s/length' % enc, ww.loc(), '%s encoding declares length %s but writes %d elements' % (enc, wl, len(a)))
    # registry walks: element type per step
    for wn, dn in (('serialize_components_by_row', 'deserialize_components_by_row'), ('serialize_components_by_column', 'deserialize_components_by_column')):
        ws = [f for f in prog.fns.values() if f.name == wn and f.impl and f.impl['self'].get('k') == 'tuple']
        ds = [f for f in prog.fns.values() if f.name == dn and f.impl and f.impl['self'].get('k') == 'tuple']
        if len(ws) != 1 or len(ds) != 1:
            r.viol('X1', 'walk/%s/missing' % wn, '-', 'registry walk pair not found')
            continue
        a = [(e[1]) for e in shape_of(prog, ws[0], 'ser') if e[0] == 'elem']
        b = [(e[1]) for e in shape_of(prog, ds[0], 'de') if e[0] == 'elem']
        r.inst('walk %s: %s / %s' % (wn, a, b))
        if a != b or len(a) != 1:
            r.viol('X1', 'walk/%s/element' % wn, ds[0].loc(), 'registry walk writes %s per component but reads %s' % (a, b))
    return r


@rule('X3', props=['C06', 'C11'], floor=2, configs=('all',))
def x3_human_readable(prog):
    """Both sides branch on is_human_readable and the true arm is the row-wise encoding on both."""
    r = Result()
    w = sel(prog, 'Archetype', ('serde::Serialize',), 'serialize')
    vn = visitor_fn(prog, 'ArchetypeVisitor', 'visit_newtype_struct')
    for side, f in (('writer', w), ('reader', vn)):
        if f is None:
            r.viol('X3', side + '/missing', '-', 'Archetype %s not found' % side)
            continue
        br = hr_branches(prog, f, 'ser' if side == 'writer' else 'de')
        r.inst('Archetype %s: is_human_readable decides %s' % (side, sorted(br) if br else None))
        if not br or set(br) != {True, False}:
            r.viol('X3', side + '/no-branch', f.loc(), '%s does not choose the encoding by is_human_readable (one container per outcome expected)' % side)
            continue
        sd = 'ser' if side == 'writer' else 'de'
        enc = {}
        for v, tys in br.items():
            ws_ = set()
            for T in tys:
                ws_ |= reach_walks(prog, T, sd)
            enc[v] = sorted(x.replace('components_by_', '') for x in ws_)
        if enc[True] != ['row'] or enc[False] != ['column']:
            r.viol('X3', side + '/encodings-swapped', f.loc(), '%s uses %s for human-readable and %s for compact formats; expected row / column' % (side, enc[True], enc[False]))
    return r


# -------------------------------------------------------------------------------------------------
def loop_exit_edge(body, next_pred=None):
    """(switch block, exit target) of the `for` loop driven by a Range iterator's next()."""
    out = []
    for b, t in body.calls(lambda c: c['path'] == 'core::iter::Iterator::next'):
        if next_pred and not next_pred(t):
            continue
        d = t['dest']['l']
        for sb in range(body.n):
            st = body.term(sb)
            if st['k'] == 'switch':
                dl = op_local(st['discr'])
                dd = single_def(body, dl) if dl is not None else None
                if dd and dd[0] == 'assign' and dd[3]['rv']['k'] == 'discr' and dd[3]['rv']['place']['l'] == d and 0 in st['values']:
                    out.append((b, sb, st['targets'][st['values'].index(0)], st['targets'][st['values'].index(1)] if 1 in st['values'] else st['otherwise']))
    return out


def result_blocks(body, vname):
    return [b for b, i, s in body.stmts() if s['k'] == 'assign' and s['place']['l'] == 0 and s['rv']['k'] == 'agg' and s['rv'].get('path') == 'core::result::Result' and s['rv']['vname'] == vname]


def is_byte_any(t):
    return pathsem.mentions(t, lambda u: isinstance(u, tuple) and u[0] == 'call' and u[1].rsplit('::', 1)[-1] in ('get_unchecked', 'get_unchecked_mut', 'index', 'last', 'get', 'first') and ('core::slice' in u[1] or u[1].startswith('alloc::vec')))


@rule('G5i', props=['C11', 'C06', 'C01', 'C16', 'C13'], floor=2, configs=('all',))
def g5i_identifier_padding(prog):
    """archetype::Identifier deserialisation: after reading (LEN+7)/8 bytes, the visitor returns Err exactly
    when a padding bit of the last byte is set, i.e. LEN % 8 != 0 and (last_byte >> (LEN % 8)) != 0,
    and Ok otherwise. Decided by conditional constant propagation of the validator's CFG for every
    LEN in 1..=24 and every last-byte value (finite, exhaustive; not execution of brood code)."""
    r = Result()
    f = find_fn(prog, lambda f: f.name == 'visit_seq' and 'archetype::identifier::impl_serde' in f.path and f.kind == 'AssocFn')
    if f is None:
        r.viol('G5i', 'missing', '-', 'archetype identifier visitor not found')
        return r
    bad = []
    idx_bad = []
    total = 0
    npaths = 0
    fill_bad = None
    for n in range(1, 25):
        nbytes = (n + 7) // 8
        E = pathsem.analyse(prog, f, consts={'LEN': n})
        rets = [p for p in E.paths if p.ended == 'return']
        if E.truncated or not rets:
            r.viol('G5i', 'not-analysable', f.loc(), 'path enumeration cut off for LEN=%d' % n)
            return r
        # verdict paths: the byte-reading loop ran to its end (its last `next` yielded None)
        post = []
        for p in rets:
            nx = [(a_, v) for a_, v in p.conds if isinstance(a_, tuple) and a_[0] == 'next']
            if nx and nx[-1][1] == 0:
                post.append(p)
                rng = [t for t in pathsem.subterms(nx[-1][0]) if t[0] == 'agg' and t[1].startswith('core::ops::Range')]
                if not rng or rng[0][4] != (('c', 0), ('c', nbytes)):
                    fill_bad = fill_bad or 'the byte loop does not run over 0..(LEN+7)/8 (LEN=%d)' % n
            # one push per completed iteration
            its = len([1 for a_, v in nx if v == 1])
            pushes = len(p.calls(lambda e: e['name'] == 'push' and e['path'].startswith('alloc::vec')))
            if nx and nx[-1][1] == 0 and pushes != its:
                fill_bad = fill_bad or 'each loop iteration must push exactly one byte (LEN=%d: %d iterations, %d pushes)' % (n, its, pushes)
        npaths += len(post)
        if not post:
            r.viol('G5i', 'no-ok', f.loc(), 'no path leaves the byte loop normally (LEN=%d)' % n)
            return r

        def is_byte(t):
            return isinstance(t, tuple) and t[0] == 'call' and t[1].rsplit('::', 1)[-1] in ('get_unchecked', 'get_unchecked_mut', 'index', 'last', 'get', 'first', 'last_mut', 'pop') and 'core::slice' in t[1] or \
                (isinstance(t, tuple) and t[0] == 'call' and t[1].startswith('alloc::vec') and t[1].rsplit('::', 1)[-1] in ('pop', 'last'))
        # which byte is inspected
        for p in post:
            for a_, v in p.conds:
                for t in pathsem.subterms(a_):
                    if is_byte(t) and t[1].rsplit('::', 1)[-1] in ('get_unchecked', 'get_unchecked_mut', 'index', 'get') and len(t[2]) > 1:
                        ix = t[2][1]
                        if ix != ('c', nbytes - 1) and not idx_bad:
                            idx_bad.append((n, pathsem.tstr(ix)))
        for v in range(256):
            total += 1

            def leaf(t, v=v):
                if is_byte(t):
                    return v
                if isinstance(t, tuple) and t[0] in ('f', 'down') and pathsem.mentions(t, is_byte):
                    return v        # payload of get()/last()
                return None
            verdicts = set()
            for p in post:
                feasible = True
                for a_, tv in p.conds:
                    if not pathsem.mentions(a_, is_byte) or isinstance(tv, tuple):
                        continue
                    if a_[0] == 'discr':
                        # Some/None of get()/last()/pop(): the buffer holds nbytes >= 1 elements (fill-loop clause)
                        some = True
                        if is_byte(a_[1]) and a_[1][1].rsplit('::', 1)[-1] == 'get' and len(a_[1][2]) > 1:
                            ixv = pathsem.evaluate(a_[1][2][1], lambda t: None)
                            some = ixv is None or ixv < nbytes
                        if is_byte(a_[1]) and (tv == 1) != some:
                            feasible = False
                            break
                        continue
                    val = pathsem.evaluate(a_, leaf)
                    if val is None:
                        verdicts.add('?')
                        continue
                    if bool(val) != bool(tv):
                        feasible = False
                        break
                if feasible:
                    verdicts.add('Err' if isinstance(p.ret, tuple) and p.ret[0] == 'agg' and p.ret[2] == 'Err' else ('Ok' if isinstance(p.ret, tuple) and p.ret[0] == 'agg' and p.ret[2] == 'Ok' else '?'))
            want_err = (n % 8 != 0) and ((v >> (n % 8)) != 0)
            if verdicts != {'Err' if want_err else 'Ok'}:
                bad.append((n, v, 'Err' in verdicts, 'Ok' in verdicts))
    # the empty registry: no byte exists, so none may be read without a bounds check, and the verdict is Ok
    E0 = pathsem.analyse(prog, f, consts={'LEN': 0})
    if E0.truncated:
        r.viol('G5i', 'not-analysable', f.loc(), 'path enumeration cut off for LEN=0')
        return r
    for p in E0.paths:
        if p.ended not in ('return', 'panic', 'diverge', 'cutoff'):
            continue
        nx = [(a_, v) for a_, v in p.conds if isinstance(a_, tuple) and a_[0] == 'next']
        if any(v == 1 for a_, v in nx):
            continue          # 0..0 yields nothing
        if any(isinstance(a_, tuple) and a_[0] == 'discr' and is_byte(a_[1]) and v == 1 for a_, v in p.conds):
            continue          # nothing was pushed: a checked look at the last byte finds none
        raw = p.calls(lambda e: e['name'] in ('get_unchecked', 'get_unchecked_mut', 'index', 'index_mut', 'unwrap', 'expect', 'unwrap_unchecked') and
                      any(pathsem.mentions(a_, lambda t: isinstance(t, tuple) and t[0] == 'call' and t[1].endswith(('with_capacity', 'Vec::<T>::new'))) or is_byte_any(a_) for a_ in list(e['args']) + list(e['vals'])))
        if raw:
            r.viol('G5i', 'reads-byte-of-empty', f.loc(raw[0]['ln']), 'for the empty registry (LEN=0) the validator still reads the "last" byte of an empty buffer (index (0+7)/8-1 underflows): out-of-bounds read or panic on valid input')
            break
        if p.ended == 'return' and isinstance(p.ret, tuple) and p.ret[0] == 'agg' and p.ret[2] == 'Err':
            r.viol('G5i', 'wrong-verdict', f.loc(), 'for the empty registry (LEN=0) the empty byte list is rejected')
            break
    r.inst('%s: %d verdict paths over LEN=1..24' % (f.path[:60], npaths))
    r.inst('path conditions evaluated for %d (LEN, last byte) pairs' % total)
    if idx_bad:
        r.viol('G5i', 'wrong-byte', f.loc(), 'the validator inspects byte %s instead of the last byte for LEN=%d' % (idx_bad[0][1], idx_bad[0][0]))
    if bad:
        n, v, he, ho = bad[0]
        r.viol('G5i', 'wrong-verdict', f.loc(),
               'padding validation is wrong for %d of %d (LEN, last byte) pairs, e.g. LEN=%d last byte=0b%s: Err reachable=%s Ok reachable=%s, but the byte %s padding bits set' % (len(bad), total, n, bin(v)[2:].zfill(8), he, ho, 'has' if (n % 8 and v >> (n % 8)) else 'has no'))
    if fill_bad:
        r.viol('G5i', 'fill-loop-push', f.loc(), fill_bad)
    return r


@rule('G5ii', props=['C11', 'C13', 'C06'], floor=2, configs=('all',))
def g5ii_duplicate_archetype(prog):
    """ArchetypesVisitor::visit_seq: the result of Archetypes::insert is inspected and the Err (duplicate
    identifier) arm makes deserialisation fail."""
    r = Result()
    f = visitor_fn(prog, 'ArchetypesVisitor')
    if f is None:
        r.viol('G5ii', 'missing', '-', 'ArchetypesVisitor::visit_seq not found')
        return r
    E = pathsem.analyse(prog, f, max_paths=20000)
    rets = [p for p in E.paths if p.ended == 'return']
    rep = set()

    def once(k, ln, msg):
        if k not in rep:
            rep.add(k)
            r.viol('G5ii', k, f.loc(ln), msg)
    if E.truncated or not rets:
        once('insert-count', None, 'ArchetypesVisitor::visit_seq not analysable')
        return r
    S = pathsem.strip_refs
    n_ins = n_add = 0
    saw_dup_rejected = False
    for p in E.paths:
        if p.ended not in ('return', 'cutoff'):
            continue
        reads = p.calls(lambda e: e['name'] in ('next_element', 'next_element_seed'))
        got = []           # archetypes actually read on this path (Ok(Some(x)))
        for e in reads:
            if p.lookup(('discr', e['ret'])) == 0:
                pl = ('f', ('down', e['ret'], 'Ok', 0), 0, 'core::result::Result')
                if p.lookup(('discr', pl)) == 1:
                    got.append(('f', ('down', pl, 'Some', 1), 0, 'core::option::Option'))
        ins = p.calls(lambda e: e['name'] == 'insert' and e['path'].startswith('archetypes::Archetypes'))
        n_ins += len(ins)
        is_err = isinstance(p.ret, tuple) and p.ret[0] == 'agg' and p.ret[2] == 'Err'
        is_ok = isinstance(p.ret, tuple) and p.ret[0] == 'agg' and p.ret[2] == 'Ok'
        for e in ins:
            if p.lookup(('discr', e['ret'])) == 1:      # Err(archetype): duplicate identifier
                if p.ended == 'return':
                    if is_err:
                        saw_dup_rejected = True
                    else:
                        once('duplicate-accepted', e['ln'], 'a duplicate archetype identifier in the input (Archetypes::insert returned Err) does not fail deserialisation: two tables for one component set')
            elif p.lookup(('discr', e['ret'])) is None and is_ok:
                once('duplicate-accepted', e['ln'], 'the result of Archetypes::insert is not inspected on a path that succeeds')
        if p.ended != 'return':
            continue
        # every archetype read is inserted (in order) ...
        inserted = [S(e['vals'][1]) for e in ins]
        want = got if not is_err else got[:len(inserted)]
        if is_ok and inserted != got:
            once('insert-count', None, 'expected exactly one insertion per deserialised archetype (read %d, inserted %d)' % (len(got), len(inserted)))
        # ... and the entity count grows by the length of each archetype read, once
        lens = [e for e in p.events if e['k'] == 'store' and not pathsem.is_field_of(e['loc'], 'archetypes::Archetypes', 0) and pathsem.mentions(e['value'], lambda t: t[0] == 'call' and t[1].endswith('::len'))]
        if is_ok and got:
            if not lens:
                once('len-accumulation', None, 'the deserialised world\'s entity count is not accumulated from the archetypes read')
            else:
                n_add += 1
                st = lens[-1]
                d = pathsem.lin(st['value']) - pathsem.lin(lens[0]['loc'])
                terms = dict(d.terms)
                okl = d.const == 0 and len(terms) == len(got) and all(c == 1 for c in terms.values()) and \
                    all(isinstance(t, tuple) and t[0] == 'call' and t[1].endswith('::len') and 'Archetype' in t[1] and S(t[2][0]) in got for t in terms)
                if not okl:
                    once('len-addend', st['ln'], 'the amount added to the world\'s entity count is not the length of each archetype read, once (got %s for %d archetypes)' % (d, len(got)))
    r.inst('ArchetypesVisitor::visit_seq: insert x%d over %d paths' % (n_ins, len(E.paths)))
    r.inst('ArchetypesVisitor::visit_seq: %d len accumulation path(s)' % n_add)
    if not n_ins:
        once('insert-count', None, 'deserialised archetypes are never inserted')
    elif not saw_dup_rejected:
        once('duplicate-accepted', None, 'a duplicate archetype identifier in the input (Archetypes::insert returned Err) does not fail deserialisation: two tables for one component set')
    return r


@rule('G5iii', props=['C11', 'C06', 'C13', 'C02'], floor=3, configs=('all',))
def g5iii_allocator_validation(prog):
    """Allocator::from_serialized_parts: every slot write is on the `None` arm of a test of that slot
    (duplicates rejected), out-of-range indices are `?`-propagated, the final Ok is reached only after
    the loop that rejects unfilled slots, and locations come from the archetype actually holding the row
    (identifier of the iterated archetype, enumerate index)."""
    r = Result()
    f = find_fn(prog, lambda f: f.name == 'from_serialized_parts' and 'allocator' in f.path)
    if f is None:
        r.viol('G5iii', 'missing', '-', 'from_serialized_parts not found')
        return r
    E = pathsem.analyse(prog, f, max_paths=40000)
    if E.truncated or not E.paths:
        r.viol('G5iii', 'not-analysable', f.loc(), 'path enumeration cut off')
        return r
    S = pathsem.strip_refs
    SLOT = 'entity::allocator::slot::Slot'
    g_i, l_i = adt_field_index(prog, SLOT, 'generation'), adt_field_index(prog, SLOT, 'location')
    ID = 'entity::identifier::Identifier'
    ii_i, ig_i = adt_field_index(prog, ID, 'index'), adt_field_index(prog, ID, 'generation')
    LOC = 'entity::allocator::location::Location'
    li_i, lx_i = adt_field_index(prog, LOC, 'identifier'), adt_field_index(prog, LOC, 'index')
    body = f.body
    p_free = ('p', body.arg_local('free'), 'free')
    p_arch = ('p', body.arg_local('archetypes'), 'archetypes')
    done = set()

    def once(k, ln, msg):
        if k not in done:
            done.add(k)
            r.viol('G5iii', k, f.loc(ln), msg)

    def slot_lookup(loc):
        """loc of a slot write -> (lookup call term, checked?) or None"""
        t = loc
        while isinstance(t, tuple) and t and t[0] in ('d', 'r'):
            t = t[1]
        checked = False
        if isinstance(t, tuple) and t[0] == 'f' and isinstance(t[1], tuple) and t[1][0] == 'down' and t[1][2] == 'Some':
            t = t[1][1]
            checked = True
        if isinstance(t, tuple) and t[0] == 'call' and t[1].startswith('core::slice') and t[1].rsplit('::', 1)[-1] in ('get_mut', 'get_unchecked_mut', 'index_mut'):
            return t, checked and t[1].endswith('::get_mut')
        if isinstance(t, tuple) and t[0] == 'call' and t[1] == 'core::ops::IndexMut::index_mut':
            return t, False
        return None

    def elem_of(t, field, adt=ID):
        """t == <element>.<field> (through derefs) -> element term"""
        t = S(t)
        if isinstance(t, tuple) and len(t) == 4 and t[0] == 'f' and t[2] == field and isinstance(t[3], str) and t[3].endswith(adt):
            return S(t[1])
        return None
    n_store = n_lookup = n_scan = 0
    fill_kinds = set()
    saw_missing_rejected = False
    slots_root = None
    for p in E.paths:
        for e in p.calls(lambda e: e['path'].startswith('core::slice') and e['name'] in ('get_mut', 'get_unchecked_mut', 'index_mut') and any(is_adt(x, 'core::option::Option') for x in e['f'].get('args', []))):
            slots_root = slots_root or pathsem.iter_chain(e['args'][0])[0]
    # scans of the slot table whose `None` outcome is *rejected* (an Err return), as opposed to assumed away
    rejecting = set()
    for p in E.paths:
        if p.ended != 'return' or not (isinstance(p.ret, tuple) and p.ret[0] == 'agg' and p.ret[2] == 'Err') or slots_root is None:
            continue
        for a_, v in p.conds:
            if isinstance(a_, tuple) and a_[0] in ('next', 'nonempty', 'consumed') and v in (1, True) and pathsem.iter_chain(a_[1])[0] == slots_root:
                el = ('elem', a_[1]) + tuple(a_[2:3] if a_[0] == 'next' else ())
                for c_, cv in p.conds:
                    if isinstance(c_, tuple) and c_[0] == 'discr' and cv == 0:
                        inner = S(c_[1])
                        while isinstance(inner, tuple) and inner[0] == 'f' and inner[3] == 'tuple':
                            inner = S(inner[1])
                        if isinstance(inner, tuple) and inner[0] == 'elem' and pathsem.iter_chain(inner[1])[0] == slots_root and inner[2:] == el[2:]:
                            rejecting.add(a_[1])
    for p in E.paths:
        if p.ended not in ('return', 'cutoff'):
            continue
        is_err = isinstance(p.ret, tuple) and p.ret[0] == 'agg' and p.ret[2] == 'Err'
        is_ok = isinstance(p.ret, tuple) and p.ret[0] == 'agg' and p.ret[2] == 'Ok'
        stores = [e for e in p.events if e['k'] == 'store' and isinstance(e['value'], tuple) and e['value'][0] == 'agg' and e['value'][1] == 'core::option::Option'
                  and e['value'][2] == 'Some' and isinstance(e['value'][4][0], tuple) and e['value'][4][0][0] == 'agg' and e['value'][4][0][1] == SLOT]
        for st in stores:
            n_store += 1
            lk = slot_lookup(st['loc'])
            if lk is None:
                once('slot-write-shape', st['ln'], 'cannot see which slot is written')
                continue
            g, checked = lk
            slots_root = pathsem.iter_chain(g[2][0])[0]
            if not checked:
                once('unchecked-index', st['ln'], 'slot lookups must be bounds-checked get_mut (an out-of-range entity index in the input must become an error)')
            if p.lookup(('discr', st['loc'])) != 0:
                once('slot-overwrite', st['ln'], 'a slot is filled without first checking that it is still empty: duplicate entity indices in the input would be accepted')
            slot = st['value'][4][0][4]
            el = elem_of(g[2][1], ii_i)
            if el is None or elem_of(slot[g_i], ig_i) != el:
                once('slot-identity', st['ln'], 'the slot written is not the one at the entity identifier\'s index, or does not take that identifier\'s generation')
                continue
            src_root, kinds = pathsem.iter_chain(el[1]) if el[0] == 'elem' else (None, [])
            locv = slot[l_i]
            if locv == pathsem.NONE:
                fill_kinds.add('free')
                if S(src_root) not in (p_free, ('L', 0, p_free[1])):
                    once('free-slot-source', st['ln'], 'a location-less (free) slot is created for an identifier that does not come from the serialised free list')
            elif isinstance(locv, tuple) and locv[0] == 'agg' and locv[2] == 'Some' and isinstance(locv[4][0], tuple) and locv[4][0][0] == 'agg' and locv[4][0][1] == LOC:
                fill_kinds.add('located')
                lf = locv[4][0][4]
                ident, index = lf[li_i], lf[lx_i]
                # element comes from <archetype>.entity_identifiers() of an archetype of `archetypes`
                arch = None
                if isinstance(src_root, tuple) and src_root[0] == 'call' and src_root[1].endswith('::entity_identifiers'):
                    arch = S(src_root[2][0])
                ok_id = isinstance(ident, tuple) and ident[0] == 'call' and ident[1].endswith('::identifier') and arch is not None and S(ident[2][0]) == arch \
                    and S(pathsem.iter_chain(arch[1])[0] if arch[0] == 'elem' else None) == p_arch
                if not ok_id:
                    once('location-identifier', st['ln'], 'deserialised location does not use the identifier of the archetype that holds the row')
                ok_ix = isinstance(index, tuple) and index[0] == 'pos' and len(index) == len(el) and index[-1] == el[-1] and pathsem.iter_chain(index[1])[0] == src_root
                if not ok_ix:
                    once('location-index', st['ln'], 'deserialised location index is not the row position (enumerate index)')
            else:
                once('location-shape', st['ln'], 'cannot see the location stored in a slot')
        # a slot found already filled is a duplicate entity index: the path must fail
        if p.ended == 'return' and not is_err:
            for e in p.calls(lambda e: e['path'].startswith('core::slice') and e['name'] == 'get_mut' and any(is_adt(x, 'core::option::Option') for x in e['f'].get('args', []))):
                sl = ('d', ('f', ('down', e['ret'], 'Some', 1), 0, 'core::option::Option'))
                if p.lookup(('discr', sl)) == 1 and not any(st_['loc'] == sl and st_['i'] < p.conds.at[[a_ for a_, v in p.conds].index(('discr', sl))] for st_ in stores):
                    once('slot-overwrite', e['ln'], 'a slot that is already filled (duplicate entity index in the input) does not make deserialisation fail')
        # failed lookups must fail deserialisation
        for e in p.calls(lambda e: e['path'].startswith('core::slice') and e['name'] == 'get_mut' and any(is_adt(x, 'core::option::Option') for x in e['f'].get('args', []))):
            n_lookup += 1
            if p.lookup(('discr', e['ret'])) == 0 and p.ended == 'return' and not is_err:
                once('index-error-dropped', e['ln'], 'an out-of-range entity index is not turned into a deserialisation error')
        if p.ended != 'return' or slots_root is None:
            continue
        # completeness scan over the slots
        last_store = max([e['i'] for e in stores] or [-1])
        scans = []
        for (a_, v), at in zip(p.conds, p.conds.at):
            if isinstance(a_, tuple) and a_[0] in ('next', 'nonempty', 'consumed') and pathsem.iter_chain(a_[1])[0] == slots_root:
                scans.append((a_, v, at))
        els = [('elem', a_[1], a_[2]) for a_, v, at in scans if a_[0] == 'next' and v == 1] + [('elem', a_[1]) for a_, v, at in scans if a_[0] in ('nonempty', 'consumed') and v is True]

        def slot_state(e, p=p):
            """discriminant known for a scanned element (possibly behind enumerate's tuple / a reference)"""
            root, kinds = pathsem.iter_chain(e[1])
            for a_, v in p.conds:
                if isinstance(a_, tuple) and a_[0] == 'discr' and not isinstance(v, tuple):
                    inner = S(a_[1])
                    while isinstance(inner, tuple) and inner[0] == 'f' and inner[3] == 'tuple':
                        inner = S(inner[1])
                    if isinstance(inner, tuple) and inner[0] == 'elem' and pathsem.iter_chain(inner[1])[0] == root and inner[2:] == e[2:]:
                        return v
            return None
        states = [slot_state(e) for e in els]
        if is_ok:
            ended = [1 for a_, v, at in scans if at > last_store and ((a_[0] == 'next' and v == 0) or a_[0] in ('nonempty', 'consumed')) and a_[1] in rejecting]
            if not ended:
                once('no-missing-slot-check', None, 'no check that every slot was filled (missing entity indices would reach unwrap_unchecked)')
            elif any(s_ != 1 for s_ in states):
                once('missing-slot-not-rejected', None, 'an unfilled slot does not produce an error')
            else:
                n_scan += 1
            post = [e for e in stores if any(at < e['i'] for a_, v, at in scans)]
            if post:
                once('allocator-built-before-check', post[0]['ln'], 'slots are still written after the completeness check')
        elif is_err and any(s_ == 0 for s_ in states):
            saw_missing_rejected = True
    r.inst('from_serialized_parts: %d slot writes on %d paths' % (n_store, len(E.paths)))
    r.inst('from_serialized_parts: %d bounds-checked slot lookups' % n_lookup)
    r.inst('from_serialized_parts: completeness check on %d Ok paths' % n_scan)
    if n_store < 2 or n_lookup < 2 or not fill_kinds >= {'free', 'located'}:
        once('slot-write-count', None, 'expected slot-filling sites for the free list and for the archetype rows (found: %s)' % sorted(fill_kinds))
    if n_scan and not saw_missing_rejected:
        once('missing-slot-not-rejected', None, 'an unfilled slot does not produce an error')
    if not n_scan:
        once('no-missing-slot-check', None, 'no check that every slot was filled (missing entity indices would reach unwrap_unchecked)')
    return r


@rule('G5iv', props=['C11', 'C04', 'C05'], floor=2, configs=('all',))
def g5iv_column_reader(prog):
    """DeserializeColumn visitor: one push per iteration of 0..length, a missing element is an error, the
    Vec is handed out as raw parts only after the loop, and on every error exit the partially filled
    Vec is still an ordinary Vec (dropped on the way out; wrapping it in ManuallyDrop before the loop
    would leak the elements read so far)."""
    r = Result()
    f = visitor_fn(prog, 'DeserializeColumnVisitor')
    if f is None:
        r.viol('G5iv', 'missing', '-', 'DeserializeColumnVisitor::visit_seq not found')
        return r
    E = pathsem.analyse(prog, f, max_visits=3)
    rets = [p for p in E.paths if p.ended == 'return']
    r.inst('DeserializeColumnVisitor::visit_seq: %d returning paths' % len(rets))
    rep = set()

    def once(k, ln, msg):
        if k not in rep:
            rep.add(k)
            r.viol('G5iv', k, f.loc(ln), msg)
    if E.truncated or not rets:
        once('loop', None, 'column reader not analysable')
        return r
    S = pathsem.strip_refs
    n_err = n_ok = 0
    for p in E.paths:
        if p.ended not in ('return', 'cutoff'):
            continue
        its = [(a_, v, at) for (a_, v), at in zip(p.conds, p.conds.at) if isinstance(a_, tuple) and a_[0] == 'next']
        rngs = [a_ for a_, v, at in its if pathsem.mentions(a_[1], lambda t: t[0] == 'agg' and t[1].startswith('core::ops::Range'))]
        pushes = p.calls(lambda e: e['name'] == 'push' and e['path'].startswith('alloc::vec'))
        reads = p.calls(lambda e: e['name'] in ('next_element', 'next_element_seed'))
        mds = p.calls(lambda e: e['path'] == 'core::mem::ManuallyDrop::<T>::new' or e['name'] == 'forget')
        is_err = isinstance(p.ret, tuple) and p.ret[0] == 'agg' and p.ret[2] == 'Err'
        is_ok = isinstance(p.ret, tuple) and p.ret[0] == 'agg' and p.ret[2] == 'Ok'
        done_iters = len([1 for a_, v, at in its if v == 1]) - (1 if (is_err and reads) else 0)
        if p.ended == 'return' and len(pushes) != max(done_iters, 0) and not p.ended == 'cutoff':
            once('push-per-iteration', pushes[0]['ln'] if pushes else None, 'each iteration must push exactly one element (%d completed iterations, %d pushes)' % (done_iters, len(pushes)))
        for m in mds:
            later = [e for e in reads if e['i'] > m['i']]
            if later:
                once('manually-drop-before-fill', m['ln'], 'the column Vec is wrapped in ManuallyDrop before it is completely filled: elements read before a failing `?` are leaked')
        if p.ended != 'return':
            continue
        if is_err:
            n_err += 1
            vecs = [e['ret'] for e in p.calls(lambda e: e['name'] in ('with_capacity', 'new') and e['path'].startswith('alloc::vec'))]
            if vecs:
                if mds:
                    once('manually-drop-before-fill', mds[0]['ln'], 'the column Vec is wrapped in ManuallyDrop before it is completely filled: elements read before a failing `?` are leaked')
                elif not any(d['k'] == 'drop' and S(d['value']) in vecs for d in p.events):
                    once('partial-column-leaked', None, 'an error exit inside the fill loop does not drop the partially filled column')
        elif is_ok:
            n_ok += 1
            ended = [1 for a_, v, at in its if v == 0]
            if not ended or not rngs:
                once('loop', None, 'the column is handed out without the loop over 0..length having run to its end')
            for a_ in rngs[:1]:
                rng = [t for t in pathsem.subterms(a_[1]) if t[0] == 'agg' and t[1].startswith('core::ops::Range')][0]
                if rng[4][0] != ('c', 0) or not pathsem.is_field_of(rng[4][1], 'DeserializeColumn', adt_field_index(prog, 'archetype::impl_serde::DeserializeColumn', 'length')):
                    once('loop-bound', None, 'the fill loop does not run over 0..length (the declared column length)')
            if not mds:
                once('not-handed-out', None, 'the filled column is dropped instead of being handed out as raw parts')
    r.inst('DeserializeColumnVisitor::visit_seq: %d error exits' % n_err)
    if not n_err or not n_ok:
        once('loop', None, 'expected both error exits and a successful exit (found %d / %d)' % (n_err, n_ok))
    return r


@rule('G5v', props=['C11', 'C04', 'C05', 'C17'], floor=2, configs=('all',))
def g5v_cleanup_agreement(prog):
    """Row reader clean-up: the number of initialised rows used by DeserializeRow::new, by both
    Vec::from_raw_parts clean-ups and by both free_components calls is one and the same counter, which
    starts at 0 and is incremented by exactly 1 only after a row was read completely. Column reader
    clean-up frees completed columns with the declared length through try_free_components."""
    r = Result()
    f = visitor_fn(prog, 'DeserializeRowsVisitor')
    if f is None:
        r.viol('G5v', 'rows/missing', '-', 'DeserializeRowsVisitor::visit_seq not found')
    else:
        E = pathsem.analyse(prog, f, max_visits=3)
        rets = [p for p in E.paths if p.ended == 'return']
        r.inst('DeserializeRowsVisitor::visit_seq: %d paths (%d returning)' % (len(E.paths), len(rets)))
        done = set()

        def once(k, ln, msg):
            if k not in done:
                done.add(k)
                r.viol('G5v', 'rows/' + k, f.loc(ln), msg)
        if E.truncated or not rets:
            once('not-analysable', None, 'path enumeration cut off')

        def row_status(p, res):
            d = p.lookup(('discr', res))
            if d == 1:
                return 'err'
            if d == 0:
                pl = ('f', ('down', res, 'Ok', 0), 0, 'core::result::Result')
                d2 = p.lookup(('discr', pl))
                return {1: 'row', 0: 'end'}.get(d2, 'unknown')
            return 'unknown'
        n_err = n_seed = 0
        for p in E.paths:
            if p.ended not in ('return', 'cutoff'):
                continue
            good = 0
            seeds = p.calls(lambda e: e['name'] == 'new' and 'DeserializeRow' in e['path'] and len(e['args']) > 3)
            reads = p.calls(lambda e: e['name'] == 'next_element_seed')
            status = {}
            for e in reads:
                status[e['i']] = row_status(p, e['ret'])
            for sd in seeds:
                n_seed += 1
                before = len([1 for e in reads if e['i'] < sd['i'] and status[e['i']] == 'row'])
                if sd['args'][3] != ('c', before):
                    once('seed-count', sd['ln'], 'row %d is deserialised into the columns with an initialised-row count of %s (rows completely read so far: %d): rows are written at the wrong offset or over live ones'
                         % (before, pathsem.tstr(sd['args'][3]), before))
            if p.ended != 'return':
                continue
            good = len([1 for e in reads if status[e['i']] == 'row'])
            built = p.calls(lambda e: e['name'] == 'new_components_with_capacity')
            is_err = isinstance(p.ret, tuple) and p.ret[0] == 'agg' and p.ret[2] == 'Err'
            frees = p.calls(lambda e: e['name'] in ('free_components', 'try_free_components'))
            vecs = p.calls(lambda e: e['name'] == 'from_raw_parts' and e['path'].startswith('alloc::vec'))
            if not is_err:
                if frees:
                    once('freed-on-success', frees[0]['ln'], 'columns are freed on a path that returns them')
                continue
            if not built:
                continue
            n_err += 1
            if len(frees) != 1:
                once('error-exit-frees', None, 'an error exit of the row reader frees the component columns %d times (must be exactly once)' % len(frees))
            for e in frees:
                # (the checked walk `try_free_components` frees the same columns when the list is complete, as it is here)
                if e['args'][1] != ('c', good):
                    once('different-counters', e['ln'], 'component columns are freed with row count %s after %d completely read rows (double drop or leak)' % (pathsem.tstr(e['args'][1]), good))
            idv = [e for e in vecs if len(e['args']) == 3]
            # ... or the reader owns the identifier Vec (kept in ManuallyDrop while rows are read) and releases that
            owned = p.calls(lambda e: e['name'] == 'into_inner' and 'ManuallyDrop' in e['path'] and any(is_adt(a_, 'alloc::vec::Vec') and ty_mentions(a_, lambda n: is_adt(n, 'entity::identifier::Identifier')) for a_ in e['f'].get('args', [])))
            owned += p.calls(lambda e: e['name'] == 'drop' and 'ManuallyDrop' in e['path'] and any(ty_mentions(a_, lambda n: is_adt(n, 'entity::identifier::Identifier')) for a_ in e['f'].get('args', [])))
            if not idv and len(owned) == 1:
                continue
            if len(idv) != 1 or owned:
                once('error-exit-identifiers', None, 'an error exit of the row reader rebuilds the identifier column %d times for dropping (must be exactly once)' % len(idv))
            for e in idv:
                if e['args'][1] != ('c', good):
                    once('counter-update', e['ln'], 'identifier column is dropped with length %s after %d completely read rows' % (pathsem.tstr(e['args'][1]), good))
                if p.calls(lambda m: m['name'] == 'new' and 'ManuallyDrop' in m['path'] and m['args'] and m['args'][0] == e['ret']) or p.calls(lambda m: m['name'] == 'forget' and m['args'] and m['args'][0] == e['ret']):
                    once('identifiers-leaked', e['ln'], 'the identifier column rebuilt on an error exit is never dropped')
        if n_err < 3 or n_seed < 3:
            once('users', None, 'expected error exits after 0 and 1 complete rows and the row seeds to be visible (found %d error exits, %d seeds)' % (n_err, n_seed))
    f = visitor_fn(prog, 'DeserializeColumnsVisitor')
    if f is None:
        r.viol('G5v', 'columns/missing', '-', 'DeserializeColumnsVisitor::visit_seq not found')
    else:
        body = f.body
        fr = [(b, t) for b, t in body.calls(lambda c: c['name'] in ('free_components', 'try_free_components'))]
        r.inst('DeserializeColumnsVisitor: clean-up calls %s' % [t['f']['name'] for b, t in fr])
        for b, t in fr:
            if t['f']['name'] != 'try_free_components':
                r.viol('G5v', 'columns/free-assumes-complete', f.loc(t['ln']), 'column clean-up must tolerate a partial column list (try_free_components)')
            nm = receiver_name(prog, body, t['args'][1])
            if not (nm and nm.endswith('.length')):
                r.viol('G5v', 'columns/free-length', f.loc(t['ln']), 'completed columns must be freed with the declared length')
        if not fr:
            r.viol('G5v', 'columns/no-cleanup', f.loc(), 'columns read before an error are never freed')
    return r


SELECTING = ('filter', 'filter_map', 'take', 'skip', 'take_while', 'skip_while', 'step_by', 'rev', 'flat_map', 'flatten', 'chain', 'zip', 'peekable', 'scan', 'map_while')
REORDERING = ('sort', 'sort_by', 'sort_by_key', 'sort_unstable', 'sort_unstable_by', 'sort_unstable_by_key', 'sort_by_cached_key', 'reverse', 'rev', 'swap', 'rotate_left', 'rotate_right', 'dedup', 'retain', 'select_nth_unstable')


@rule('X4', props=['C06', 'C16', 'C11'], floor=3, configs=('all',))
def x4_written_sequences_are_whole_and_in_row_order(prog):
    """What the writers enumerate is everything, in storage order — in both encodings, because row position *is* the
    location index the allocator is rebuilt from: (a) `Serialize for Archetypes` hands `collect_seq` an iterator over
    all tables of `self` (no selecting adaptor, the same on both outcomes of is_human_readable); (b) `SerializeRows`
    emits rows 0, 1, .. of `0..length` in that order (the j-th element written is row j); (c)
    `Archetype::entity_identifiers`, which the allocator writer/reader enumerate to recover row numbers, yields the
    identifier column rebuilt with `self.length` in column order (no sort/reverse, no collected copy)."""
    r = Result()
    S = pathsem.strip_refs
    # (a)
    w = sel(prog, 'Archetypes', ('serde::Serialize',), 'serialize')
    if w is None:
        r.viol('X4', 'archetypes/missing', '-', 'Serialize for Archetypes not found')
    else:
        r.inst('Archetypes::serialize')
        E = pathsem.analyse(prog, w, max_paths=5000)
        me = ('p', 1, w.body.local_name(1) or '')
        bad = None
        n = 0
        for p in E.paths:
            if p.ended != 'return':
                continue
            seqs = p.calls(lambda e: e['name'] in ('collect_seq', 'serialize_seq', 'collect_map') and 'serde' in e['path'])
            if len(seqs) != 1:
                bad = bad or 'expected one sequence container per path (found %d)' % len(seqs)
                continue
            n += 1
            src = seqs[0]['vals'][1] if len(seqs[0]['vals']) > 1 else None
            root, kinds = pathsem.iter_chain(src) if src is not None else (None, ())
            if src is None or not pathsem.mentions(root if root is not None else src, lambda t: t == me):
                bad = bad or 'the sequence written is not an iteration over self'
            elif any(k in SELECTING for k in kinds) or p.calls(lambda e: e['name'] in REORDERING):
                bad = bad or 'the tables are filtered, truncated or reordered before being written (%s): a table left out (an empty one, say) makes the round trip unequal to the original' % [k for k in kinds if k in SELECTING]
        if bad or E.truncated or not n:
            r.viol('X4', 'archetypes/not-all-tables', w.loc(), bad or 'not analysable')
    # (b)
    w = sel(prog, 'SerializeRows', ('serde::Serialize',), 'serialize')
    if w is None:
        r.viol('X4', 'rows/missing', '-', 'SerializeRows writer not found')
    else:
        r.inst('SerializeRows::serialize')
        E = pathsem.analyse(prog, w, max_paths=5000)
        bad = None
        n = 0
        li = None
        adt = prog.adts.get('archetype::Archetype')
        if adt:
            li = [x['name'] for x in adt['variants'][0]['fields']].index('length')
        for p in E.paths:
            if p.ended not in ('return', 'cutoff'):
                continue
            elems = p.calls(lambda e: e['name'] == 'serialize_element')
            if p.calls(lambda e: e['name'] in REORDERING):
                bad = bad or 'rows are reordered before being written'
            rngs = set()
            for a_, v in p.conds:
                if isinstance(a_, tuple) and a_[0] in ('next', 'nonempty', 'consumed', 'exhausted'):
                    root, kinds = pathsem.iter_chain(a_[1])
                    if isinstance(root, tuple) and root[0] == 'agg' and str(root[1]).startswith('core::ops::Range'):
                        rngs.add(root)
                        if any(k in SELECTING for k in kinds):
                            bad = bad or 'the row range is filtered or reordered'
                    elif elems:
                        bad = bad or 'rows are enumerated from something other than the range 0..length (a collected or sorted list of rows): the j-th row written must be row j'
            for rg in rngs:
                lo, hi = rg[4]
                if lo != ('c', 0) or not (li is not None and pathsem.is_field_of(S(hi), 'archetype::Archetype', li)):
                    bad = bad or 'the row loop does not run over 0..length'
            for j, e in enumerate(elems):
                n += 1
                val = e['vals'][1] if len(e['vals']) > 1 else None
                row = None
                if isinstance(val, tuple) and val[0] == 'agg' and 'SerializeRow' in str(val[1]):
                    ra = prog.adts.get(val[1])
                    names = [x['name'] for x in ra['variants'][0]['fields']] if ra else []
                    if 'index' in names:
                        row = val[4][names.index('index')]
                if row is None:
                    bad = bad or 'cannot see which row is written'
                    continue
                L = pathsem.lin(row)
                is_elem = isinstance(S(row), tuple) and S(row)[0] == 'elem'
                if not is_elem and not (L.is_const() and L.const == j):
                    bad = bad or 'the %d-th element written is row %s, not row %d' % (j, pathsem.tstr(row)[:50], j)
        if bad or E.truncated or not n:
            r.viol('X4', 'rows/not-in-row-order', w.loc(), bad or 'not analysable')
    # (c)
    fs = [f for f in prog.fns.values() if f.path == 'archetype::Archetype::<R>::entity_identifiers']
    if len(fs) != 1:
        r.viol('X4', 'entity_identifiers/missing', '-', 'Archetype::entity_identifiers not found')
    else:
        f = fs[0]
        r.inst('Archetype::entity_identifiers')
        E = pathsem.analyse(prog, f)
        me = ('p', 1, f.body.local_name(1) or '')
        bad = None
        rets = [p for p in E.paths if p.ended == 'return']
        for p in rets:
            root, kinds = pathsem.iter_chain(p.ret)
            if p.calls(lambda e: e['name'] in REORDERING) or any(k in SELECTING for k in kinds):
                bad = bad or 'identifiers are reordered or filtered: consumers enumerate them to number the rows'
            elif p.calls(lambda e: e.get('consumer') or e['name'] in ('collect', 'to_vec', 'to_owned')):
                bad = bad or 'identifiers are copied into another collection before being yielded'
            elif not (isinstance(root, tuple) and pathsem.mentions(root, lambda t: t == me) and pathsem.mentions(root, lambda t: isinstance(t, tuple) and t[0] == 'call' and t[1].rsplit('::', 1)[-1] in ('from_raw_parts', 'from_raw_parts_mut'))):
                bad = bad or 'the iterator is not over the identifier column rebuilt from self'
        if bad or E.truncated or not rets:
            r.viol('X4', 'entity_identifiers/not-in-row-order', f.loc(), bad or 'not analysable')
    return r
