"""Witness families (E2). Oracles are independent of brood: Rust's aliasing rule, Send/Sync rules for
&T / &mut T, a reference greedy stager, privacy of unchecked constructors."""
import itertools, random
from .witness import W, family

PRELUDE = '''use brood::{entity, entities, Registry, Resources, World, Query, query::{Views, result, filter}};
use brood::entity as ent;
pub struct A(pub u32);
pub struct B(pub u32);
pub struct C(pub u32);
pub struct RA(pub u32);
pub struct RB(pub u32);
type R = Registry!(A, B);
type Res = Resources!(RA, RB);
fn use2<X, Y>(_x: X, _y: Y) {}
fn assert_send<T: Send>(_t: &T) {}
fn assert_sync<T: Sync>(_t: &T) {}
'''

KINDS = [('ref', False), ('ref', True), ('opt', False), ('opt', True)]


def kname(k):
    return {('ref', False): 'ref', ('ref', True): 'mut', ('opt', False): 'optref', ('opt', True): 'optmut'}[k]


def ktxt(k, comp, lt=''):
    l = ("'%s " % lt) if lt else ''
    inner = '&%s%s%s' % (l, 'mut ' if k[1] else '', comp)
    return inner if k[0] == 'ref' else 'Option<%s>' % inner


def conflict(k1, k2):
    return k1[1] or k2[1]


# -------------------------------------------------------------------------------------------------
@family('V-C14', props=['C14'], floor={'quick': 80, 'thorough': 120},
        doc='programs requesting conflicting or thread-unsafe access must be rejected; their conflict-free twins must compile')
def v_c14(tier, seed):
    ws = []
    # (a) views / views in one query
    for k1, k2 in itertools.product(KINDS, KINDS):
        body = lambda c2: PRELUDE + 'pub fn w(world: &mut World<R, Res>) { let _ = world.query(Query::<Views!(%s, %s)>::new()); }\n' % (ktxt(k1, 'A'), ktxt(k2, c2))
        if conflict(k1, k2):
            ws.append(W('a.%s.%s' % (kname(k1), kname(k2)), body('A'), 'fail', 'trait', 'two views of one component in one query, at least one mutable'))
        ws.append(W('a.%s.%s.twin' % (kname(k1), kname(k2)), body('B'), 'compile', None, 'views of two different components'))
    # (b) iterator views vs entry views
    for k1, k2 in itertools.product(KINDS, KINDS):
        body = lambda c2: PRELUDE + 'pub fn w(world: &mut World<R, Res>) { let _ = world.query(Query::<Views!(%s), filter::None, Views!(), Views!(%s)>::new()); }\n' % (ktxt(k1, 'A'), ktxt(k2, c2))
        if conflict(k1, k2):
            ws.append(W('b.%s.%s' % (kname(k1), kname(k2)), body('A'), 'fail', 'trait', 'iterator view and entry view of one component, at least one mutable'))
        else:
            ws.append(W('b.%s.%s.shared' % (kname(k1), kname(k2)), body('A'), 'compile', None, 'iterator view and entry view of one component, both shared'))
        ws.append(W('b.%s.%s.twin' % (kname(k1), kname(k2)), body('B'), 'compile', None, 'iterator view and entry view of different components'))
    # (c) entry / entry
    for k1, k2 in itertools.product(KINDS, KINDS):
        body = lambda c2: PRELUDE + 'pub fn w(world: &mut World<R, Res>) { let _ = world.query(Query::<Views!(), filter::None, Views!(), Views!(%s, %s)>::new()); }\n' % (ktxt(k1, 'A'), ktxt(k2, c2))
        if conflict(k1, k2):
            ws.append(W('c.%s.%s' % (kname(k1), kname(k2)), body('A'), 'fail', 'trait', 'two entry views of one component, at least one mutable'))
        ws.append(W('c.%s.%s.twin' % (kname(k1), kname(k2)), body('B'), 'compile', None, 'entry views of two components'))
    # (d) repeated entry queries (query-time Entries): overlapping results
    sub = {('ref', False): '&A', ('ref', True): '&mut A', ('opt', False): 'Option<&A>', ('opt', True): 'Option<&mut A>'}
    for k1, k2 in itertools.product(KINDS, KINDS):
        head = PRELUDE + 'pub fn w(world: &mut World<R, Res>, id: ent::Identifier) {\n    let mut qr = world.query(Query::<Views!(), filter::None, Views!(), Views!(&mut A)>::new());\n'
        same_overlap = head + '    let mut entry = qr.entries.entry(id).unwrap();\n    let result!(a1) = entry.query(Query::<Views!(%s)>::new()).unwrap();\n    let result!(a2) = entry.query(Query::<Views!(%s)>::new()).unwrap();\n    use2(a1, a2);\n}\n' % (sub[k1], sub[k2])
        same_seq = head + '    let mut entry = qr.entries.entry(id).unwrap();\n    { let result!(a1) = entry.query(Query::<Views!(%s)>::new()).unwrap(); use2(a1, ()); }\n    { let result!(a2) = entry.query(Query::<Views!(%s)>::new()).unwrap(); use2(a2, ()); }\n}\n' % (sub[k1], sub[k2])
        two_overlap = head + '    let a1 = { let mut e1 = qr.entries.entry(id).unwrap(); let result!(a1) = e1.query(Query::<Views!(%s)>::new()).unwrap(); a1 };\n    let a2 = { let mut e2 = qr.entries.entry(id).unwrap(); let result!(a2) = e2.query(Query::<Views!(%s)>::new()).unwrap(); a2 };\n    use2(a1, a2);\n}\n' % (sub[k1], sub[k2])
        if conflict(k1, k2):
            ws.append(W('d.%s.%s.same-entry' % (kname(k1), kname(k2)), same_overlap, 'fail', 'borrow', 'two live results of repeated queries on one entry, at least one mutable'))
            ws.append(W('d.%s.%s.two-entries' % (kname(k1), kname(k2)), two_overlap, 'fail', 'borrow', 'two live results from two entries of one Entries handle, at least one mutable'))
        ws.append(W('d.%s.%s.sequential' % (kname(k1), kname(k2)), same_seq, 'compile', None, 'repeated entry queries whose results do not overlap'))
    # (d') World::entry repeated queries
    for k1, k2 in itertools.product(KINDS, KINDS):
        head = PRELUDE + 'pub fn w(world: &mut World<R, Res>, id: ent::Identifier) {\n    let mut entry = world.entry(id).unwrap();\n'
        overlap = head + '    let result!(a1) = entry.query(Query::<Views!(%s)>::new()).unwrap();\n    let result!(a2) = entry.query(Query::<Views!(%s)>::new()).unwrap();\n    use2(a1, a2);\n}\n' % (sub[k1], sub[k2])
        seq = head + '    { let result!(a1) = entry.query(Query::<Views!(%s)>::new()).unwrap(); use2(a1, ()); }\n    { let result!(a2) = entry.query(Query::<Views!(%s)>::new()).unwrap(); use2(a2, ()); }\n}\n' % (sub[k1], sub[k2])
        if conflict(k1, k2):
            ws.append(W('dw.%s.%s.overlap' % (kname(k1), kname(k2)), overlap, 'fail', 'borrow', 'two live results of repeated World::entry queries'))
        if tier == 'thorough' or (k1, k2) in ((KINDS[1], KINDS[1]), (KINDS[0], KINDS[1])):
            ws.append(W('dw.%s.%s.sequential' % (kname(k1), kname(k2)), seq, 'compile', None, 'sequential World::entry queries'))
    # (g) results keep the world borrowed: two live results of separate calls, or a result kept across a mutation
    def g(key, code, expect, note):
        ws.append(W('g.' + key, PRELUDE + code, expect, 'borrow' if expect == 'fail' else None, note))
    for m1, m2 in ((True, True), (False, True), (True, False)):
        v1, v2 = '&%sA' % ('mut ' if m1 else ''), '&%sA' % ('mut ' if m2 else '')
        n = '%s.%s' % ('mut' if m1 else 'ref', 'mut' if m2 else 'ref')
        g('query2.' + n, 'pub fn w(world: &mut World<R, Res>) {\n    let mut r1 = world.query(Query::<Views!(%s)>::new());\n    let mut r2 = world.query(Query::<Views!(%s)>::new());\n    use2(r1.iter.next(), r2.iter.next());\n}\n' % (v1, v2), 'fail', 'two live World::query results')
    g('query2.sequential', 'pub fn w(world: &mut World<R, Res>) {\n    { let mut r1 = world.query(Query::<Views!(&mut A)>::new()); use2(r1.iter.next(), ()); }\n    { let mut r2 = world.query(Query::<Views!(&mut A)>::new()); use2(r2.iter.next(), ()); }\n}\n', 'compile', 'sequential World::query results')
    g('query.then-clear', 'pub fn w(world: &mut World<R, Res>) {\n    let mut r1 = world.query(Query::<Views!(&A)>::new());\n    let a = r1.iter.next();\n    world.clear();\n    use2(a, ());\n}\n', 'fail', 'a view kept across World::clear')
    g('query.res2', 'pub fn w(world: &mut World<R, Res>) {\n    let r1 = world.query(Query::<Views!(), filter::None, Views!(&mut RA)>::new());\n    let r2 = world.query(Query::<Views!(), filter::None, Views!(&mut RA)>::new());\n    use2(r1.resources, r2.resources);\n}\n', 'fail', 'two live mutable resource views from two World::query calls')
    g('view_resources2', 'pub fn w(world: &mut World<R, Res>) {\n    let a = world.view_resources::<Views!(&mut RA), _>();\n    let b = world.view_resources::<Views!(&mut RA), _>();\n    use2(a, b);\n}\n', 'fail', 'two live results of World::view_resources')
    g('entry.then-clear', 'pub fn w(world: &mut World<R, Res>, id: ent::Identifier) {\n    let mut entry = world.entry(id).unwrap();\n    world.clear();\n    let _ = entry.query(Query::<Views!(&A)>::new());\n}\n', 'fail', 'a World::entry kept across World::clear')
    g('get_mut2', 'pub fn w(world: &mut World<R, Res>) {\n    let a = world.get_mut::<RA, _>();\n    let b = world.get_mut::<RA, _>();\n    use2(a, b);\n}\n', 'fail', 'two live World::get_mut results')
    # (e) resource views
    RK = [False, True]
    for m1, m2 in itertools.product(RK, RK):
        t = lambda m, c: '&%s%s' % ('mut ' if m else '', c)
        q = lambda c2: PRELUDE + 'pub fn w(world: &mut World<R, Res>) { let _ = world.query(Query::<Views!(), filter::None, Views!(%s, %s)>::new()); }\n' % (t(m1, 'RA'), t(m2, c2))
        v = lambda c2: PRELUDE + 'pub fn w(world: &mut World<R, Res>) { let _ = world.view_resources::<Views!(%s, %s), _>(); }\n' % (t(m1, 'RA'), t(m2, c2))
        n = '%s.%s' % ('mut' if m1 else 'ref', 'mut' if m2 else 'ref')
        if m1 or m2:
            ws.append(W('e.query.' + n, q('RA'), 'fail', 'trait', 'two resource views of one resource, at least one mutable'))
            ws.append(W('e.view.' + n, v('RA'), 'fail', 'trait', 'two resource views of one resource, at least one mutable'))
        ws.append(W('e.query.' + n + '.twin', q('RB'), 'compile', None, 'resource views of two resources'))
        ws.append(W('e.view.' + n + '.twin', v('RB'), 'compile', None, 'resource views of two resources'))
    # (f) thread crossing
    TP = PRELUDE + '''use std::rc::Rc; use std::cell::Cell;
pub struct NS(pub Rc<u32>);      // !Send, !Sync
pub struct NSy(pub Cell<u32>);   // Send, !Sync
'''
    def f(key, code, expect, note, cls='trait'):
        ws.append(W('f.' + key, TP + code, expect, cls if expect == 'fail' else None, note))
    for comp, send_ok, sync_ok in (('NS', False, False), ('NSy', True, False), ('A', True, True)):
        f('world.send.' + comp, 'pub fn w(world: World<Registry!(%s)>) { assert_send(&world); }\n' % comp, 'compile' if send_ok else 'fail', 'World is Send iff its components are')
        f('world.sync.' + comp, 'pub fn w(world: World<Registry!(%s)>) { assert_sync(&world); }\n' % comp, 'compile' if sync_ok else 'fail', 'World is Sync iff its components are')
        f('world.res.send.' + comp, 'pub fn w(world: World<Registry!(), Resources!(%s)>) { assert_send(&world); }\n' % comp, 'compile' if send_ok else 'fail', 'World is Send iff its resources are')
        f('world.res.sync.' + comp, 'pub fn w(world: World<Registry!(), Resources!(%s)>) { assert_sync(&world); }\n' % comp, 'compile' if sync_ok else 'fail', 'World is Sync iff its resources are')
        # &T is Send iff T: Sync ; &mut T is Send iff T: Send
        for mut in (False, True):
            ok = send_ok if mut else sync_ok
            v = '&%s%s' % ('mut ' if mut else '', comp)
            n = '%s.%s' % ('mut' if mut else 'ref', comp)
            f('iter.send.' + n, 'pub fn w(world: &mut World<Registry!(%s)>) { let it = world.query(Query::<Views!(%s)>::new()).iter; assert_send(&it); }\n' % (comp, v),
              'compile' if ok else 'fail', 'query iterator may move to another thread only if its views are Send')
            f('entries.send.' + n, 'pub fn w(world: &mut World<Registry!(%s)>) { let e = world.query(Query::<Views!(), filter::None, Views!(), Views!(%s)>::new()).entries; assert_send(&e); }\n' % (comp, v),
              'compile' if ok else 'fail', 'entries handle may move to another thread only if its views are Send')
            f('result.send.' + n, 'pub fn w(world: &mut World<Registry!(%s)>) { let r = world.query(Query::<Views!(%s)>::new()); assert_send(&r); }\n' % (comp, v),
              'compile' if ok else 'fail', 'query result may move to another thread only if its views are Send')
            f('parquery.' + n, 'pub fn w(world: &mut World<Registry!(%s)>) { let _ = world.par_query(Query::<Views!(%s)>::new()); }\n' % (comp, v),
              'compile' if ok else 'fail', 'parallel query hands views to other threads')
    # schedules / par systems with non-Send pieces
    SYS = '''use brood::{registry, query::Result, system::{System, ParSystem, schedule, schedule::task}};
use rayon::iter::ParallelIterator;
pub struct S%(n)s(%(state)s);
impl System for S%(n)s {
    type Views<'a> = Views!(%(views)s);
    type Filter = filter::None;
    type ResourceViews<'a> = Views!(%(rviews)s);
    type EntryViews<'a> = Views!(%(eviews)s);
    fn run<'a, R_, S_, I_, E_>(&mut self, _q: Result<R_, S_, I_, Self::ResourceViews<'a>, Self::EntryViews<'a>, E_>) where R_: registry::Registry, I_: Iterator<Item = Self::Views<'a>> {}
}
pub struct P%(n)s(%(state)s);
impl ParSystem for P%(n)s {
    type Views<'a> = Views!(%(views)s);
    type Filter = filter::None;
    type ResourceViews<'a> = Views!(%(rviews)s);
    type EntryViews<'a> = Views!(%(eviews)s);
    fn run<'a, R_, S_, I_, E_>(&mut self, _q: Result<R_, S_, I_, Self::ResourceViews<'a>, Self::EntryViews<'a>, E_>) where R_: registry::Registry, I_: ParallelIterator<Item = Self::Views<'a>> {}
}
'''
    for piece, bad in (('views', "&'a NSy"), ('rviews', "&'a NSy"), ('eviews', "&'a NSy"), ('state', 'Rc<u32>'), ('views', "&'a mut NS"), ('rviews', "&'a mut NS")):
        for good in (False, True):
            d = {'n': '', 'state': 'u32', 'views': '', 'rviews': '', 'eviews': ''}
            val = bad if not good else bad.replace('NSy', 'A').replace('NS', 'A').replace('Rc<u32>', 'u32')
            d[piece] = val
            sysdef = SYS % d
            reg = 'Registry!(A, NS, NSy)'
            res = 'Resources!(A, NS, NSy)'
            tag = '%s.%s%s' % (piece, val.replace("'a ", '').replace('&', 'r').replace(' ', '').replace('<', '').replace('>', ''), '.twin' if good else '')
            for task, ctor in (('System', 'task::System(S(%s))'), ('ParSystem', 'task::ParSystem(P(%s))')):
                init = 'Rc::new(0)' if (piece == 'state' and not good) else '0'
                code = sysdef + 'pub fn w(world: &mut World<%s, %s>) { let mut s = schedule!(%s); world.run_schedule(&mut s); }\n' % (reg, res, ctor % init)
                f('sched.%s.%s' % (task, tag), code, 'compile' if good else 'fail', 'a task runs on another thread: its %s must be Send' % piece)
            if piece != 'state':
                code = sysdef + 'pub fn w(world: &mut World<%s, %s>) { let mut p = P(0); world.run_par_system(&mut p); }\n' % (reg, res)
                if piece == 'views':
                    f('run_par_system.' + tag, code, 'compile' if good else 'fail', 'run_par_system hands views to other threads')
    # (g) membership
    ws.append(W('g.insert.foreign', PRELUDE + 'pub fn w(world: &mut World<R, Res>) { world.insert(entity!(C(1))); }\n', 'fail', 'trait', 'inserting a component outside the registry'))
    ws.append(W('g.insert.twin', PRELUDE + 'pub fn w(world: &mut World<R, Res>) { world.insert(entity!(B(1), A(2))); }\n', 'compile', None, 'inserting registry components in any order'))
    ws.append(W('g.view.foreign', PRELUDE + 'pub fn w(world: &mut World<R, Res>) { let _ = world.query(Query::<Views!(&C)>::new()); }\n', 'fail', 'trait', 'viewing a component outside the registry'))
    ws.append(W('g.add.foreign', PRELUDE + 'pub fn w(world: &mut World<R, Res>, id: ent::Identifier) { world.entry(id).unwrap().add(C(1)); }\n', 'fail', 'trait', 'Entry::add of a component outside the registry'))
    ws.append(W('g.add.twin', PRELUDE + 'pub fn w(world: &mut World<R, Res>, id: ent::Identifier) { world.entry(id).unwrap().add(B(1)); }\n', 'compile', None, 'Entry::add of a registry component'))
    ws.append(W('g.resource.foreign', PRELUDE + 'pub fn w(world: &World<R, Res>) { let _: &C = world.get::<C, _>(); }\n', 'fail', 'trait', 'getting a resource that is not in the resource list'))
    ws.append(W('g.resource.twin', PRELUDE + 'pub fn w(world: &World<R, Res>) { let _: &RB = world.get::<RB, _>(); }\n', 'compile', None, 'getting a listed resource'))
    if tier == 'thorough':
        # sub-view / super-view kind pairs for query-time entries (T5 cross-check): a sub-view may not strengthen
        for sup, subk in itertools.product(KINDS, KINDS):
            code = PRELUDE + 'pub fn w(world: &mut World<R, Res>, id: ent::Identifier) {\n    let mut qr = world.query(Query::<Views!(), filter::None, Views!(), Views!(%s)>::new());\n    let mut entry = qr.entries.entry(id).unwrap();\n    let _ = entry.query(Query::<Views!(%s)>::new());\n}\n' % (ktxt(sup, 'A'), sub[subk])
            ok = (not subk[1]) or sup[1]
            ws.append(W('h.sub.%s.from.%s' % (kname(subk), kname(sup)), code, 'compile' if ok else 'fail', 'trait' if not ok else None, 'sub-view %s of declared entry view %s' % (kname(subk), kname(sup))))
    return ws, True


# -------------------------------------------------------------------------------------------------
# V-SCHED: the compile-time stage partition equals the reference greedy partition

SCHED_PRELUDE = '''use brood::{entity, Registry, Resources, World, query::{Views, filter, Result}, registry, system::{System, ParSystem, schedule, schedule::task}};
use brood::verif::{StageNull, StagesNull, StagesOf};
use rayon::iter::ParallelIterator;
use core::marker::PhantomData;
pub struct A(pub u32);
pub struct B(pub u32);
pub struct RA(pub u32);
type R = Registry!(A, B);
type Res = Resources!(RA);
fn stages_of<'a, S, Reg, Rs, I>(_s: &'a mut S, _w: &World<Reg, Rs>) -> PhantomData<StagesOf<'a, S, Reg, Rs, I>>
where S: schedule::Schedule<'a, Reg, Rs, I>, Reg: registry::Registry, Rs: brood::resource::Resources { PhantomData }
'''


class Task:
    """views/entry: dict component -> kind; res: None|False|True (mutable); par: bool"""

    def __init__(self, views, entry, res, par):
        self.views, self.entry, self.res, self.par = views, entry, res, par

    def access(self):
        acc = {}
        for src in (self.views, self.entry):
            for c, k in src.items():
                acc[c] = acc.get(c, False) or k[1]
        if self.res is not None:
            acc['RA'] = self.res
        return acc

    def name(self):
        s = 'P' if self.par else 'S'
        for tag, src in (('v', self.views), ('e', self.entry)):
            for c in sorted(src):
                s += '_%s%s%s' % (tag, c, kname(src[c]))
        if self.res is not None:
            s += '_r' + ('mut' if self.res else 'ref')
        return s

    def decl(self, idx):
        ty = 'T%d' % idx
        views = ', '.join(ktxt(self.views[c], c, 'a') for c in sorted(self.views))
        entry = ', '.join(ktxt(self.entry[c], c, 'a') for c in sorted(self.entry))
        res = '' if self.res is None else ("&'a mut RA" if self.res else "&'a RA")
        tr, it = ('ParSystem', 'ParallelIterator') if self.par else ('System', 'Iterator')
        return '''pub struct %s;
impl %s for %s {
    type Views<'a> = Views!(%s);
    type Filter = filter::None;
    type ResourceViews<'a> = Views!(%s);
    type EntryViews<'a> = Views!(%s);
    fn run<'a, R_, S_, I_, E_>(&mut self, _q: Result<R_, S_, I_, Self::ResourceViews<'a>, Self::EntryViews<'a>, E_>) where R_: registry::Registry, I_: %s<Item = Self::Views<'a>> {}
}
''' % (ty, tr, ty, views, res, entry, it)

    def wrap(self, idx):
        return 'task::%s(T%d)' % ('ParSystem' if self.par else 'System', idx)

    def wrap_ty(self, idx):
        return '&mut task::%s<T%d>' % ('ParSystem' if self.par else 'System', idx)

    def valid(self):
        # a task's own views and entry views must be disjoint (otherwise it does not compile at all)
        for c in self.views:
            if c in self.entry and (self.views[c][1] or self.entry[c][1]):
                return False
        return True


def tasks_conflict(t, u):
    a, b = t.access(), u.access()
    return any(c in b and (a[c] or b[c]) for c in a)


def reference_stages(tasks):
    stages, cur = [], []
    for i, t in enumerate(tasks):
        if any(tasks_conflict(t, tasks[j]) for j in cur):
            stages.append(cur)
            cur = [i]
        else:
            cur.append(i)
    stages.append(cur)
    return stages


def sched_witness(tasks):
    stages = reference_stages(tasks)
    exp = 'StagesNull'
    for st in reversed(stages):
        s = 'StageNull'
        for i in reversed(st):
            s = '(%s, %s)' % (tasks[i].wrap_ty(i), s)
        exp = '(%s, %s)' % (s, exp)
    code = SCHED_PRELUDE + ''.join(t.decl(i) for i, t in enumerate(tasks))
    code += 'pub fn w(world: &World<R, Res>) {\n    let mut s = schedule!(%s);\n    let _: PhantomData<%s> = stages_of(&mut s, world);\n}\n' % (', '.join(t.wrap(i) for i, t in enumerate(tasks)), exp)
    key = '+'.join(t.name() for t in tasks)
    note = 'reference greedy partition: %s' % ' | '.join(','.join(tasks[i].name() for i in st) for st in stages)
    return W(key, code, 'compile', None, note)


@family('V-SCHED', props=['C12', 'C07', 'C08'], quick_props=['C12'], floor={'quick': 80, 'thorough': 80},
        doc='for every schedule of the family the compile-time Stages type equals the reference greedy partition by declared access (both directions: conflicting tasks are never grouped, independent adjacent tasks are grouped)')
def v_sched(tier, seed, pid=None):
    K5 = [None] + KINDS
    alpha = []
    # the full product is the primary decider of C12 only; C07/C08 use the reduced family in both tiers
    if tier == 'quick' or pid not in (None, 'C12'):
        for k in K5:
            alpha.append(Task({'A': k} if k else {}, {}, None, False))
        for k in KINDS:
            alpha.append(Task({}, {'A': k}, None, False))
        alpha.append(Task({}, {}, False, False))
        alpha.append(Task({}, {}, True, False))
        pairs = [(a, b) for a in alpha for b in alpha]
        ws = [sched_witness([a, b]) for a, b in pairs]
        # a few mixed System/ParSystem and 3-task chains (cut then re-append)
        ma, ia, mb = Task({'A': ('ref', True)}, {}, None, False), Task({'A': ('ref', False)}, {}, None, True), Task({'B': ('ref', True)}, {}, None, False)
        for chain in ([ma, ia, mb], [ia, ia, ma], [ma, mb, ia], [mb, ma, ma], [ia, mb, ia]):
            ws.append(sched_witness(list(chain)))
        # ParSystem tasks with entry views (sibling Stager impl), before and after a conflicting System
        pe_mut = Task({'B': ('ref', False)}, {'A': ('ref', True)}, None, True)
        pe_ref = Task({}, {'A': ('opt', False)}, None, True)
        sa_ref, sa_mut = Task({'A': ('ref', False)}, {}, None, False), Task({'A': ('ref', True)}, {}, None, False)
        for pair in ([pe_mut, sa_ref], [sa_ref, pe_mut], [pe_mut, sa_mut], [pe_ref, sa_ref], [pe_ref, sa_mut], [sa_mut, pe_ref], [pe_mut, pe_mut], [pe_ref, pe_ref]):
            ws.append(sched_witness(list(pair)))
        return ws, True
    # thorough: full 2-task product over a richer alphabet + systematic 3-task chains
    for ka in K5:
        for ea in [None, ('ref', False), ('ref', True), ('opt', True)]:
            for res in (None, False, True):
                for kb in (None, ('ref', True)):
                    t = Task(({'A': ka} if ka else {}) | ({'B': kb} if kb else {}), {'A': ea} if ea else {}, res, False)
                    if t.valid():
                        alpha.append(t)
    ws = [sched_witness([a, b]) for a in alpha for b in alpha]
    rnd = random.Random(seed or 1)
    small = [Task({'A': k} if k else {}, {}, r, p) for k in K5 for r in (None, True) for p in (False, True)]
    small += [Task({'B': ('ref', True)}, {'A': e}, None, par) for e in (('ref', False), ('ref', True)) for par in (False, True)]
    for ea in (('ref', False), ('ref', True), ('opt', True)):
        for t in alpha[:]:
            if not t.par and not t.entry and t.res is None and len(t.views) <= 1 and 'B' not in t.views:
                pt = Task(dict(t.views), {'A': ea}, None, True)
                if pt.valid():
                    ws.append(sched_witness([pt, t]))
                    ws.append(sched_witness([t, pt]))
    triples = [(a, b, c) for a in small for b in small for c in small]
    rnd.shuffle(triples)
    for tr in triples[:400]:
        ws.append(sched_witness(list(tr)))
    quads = [rnd.sample(small, 4) for _ in range(60)]
    for q in quads:
        ws.append(sched_witness(q))
    return ws, False


# -------------------------------------------------------------------------------------------------
@family('V-C18', props=['C18'], floor={'quick': 16, 'thorough': 16},
        doc='unchecked constructors of Batch/World are unreachable from safe code; ragged entities! rows are rejected')
def v_c18(tier, seed):
    P = '''use brood::{entity, entities, Registry, Resources, World, entities::Batch};
#[derive(Clone)] pub struct A(pub u32);
#[derive(Clone)] pub struct B(pub u32);
type R = Registry!(A, B);
'''
    ws = []
    ws.append(W('batch.literal', P + 'pub fn w() { let _ = Batch { entities: (vec![A(1)], (vec![B(1), B(2)], brood::entities::Null)), len: 1 }; }\n', 'fail', 'privacy', 'building a Batch with a struct literal bypasses the length check'))
    ws.append(W('batch.field.entities', P + 'pub fn w(mut b: Batch<(Vec<A>, brood::entities::Null)>) { b.entities.0.push(A(1)); }\n', 'fail', 'privacy', 'mutating the columns of a checked Batch'))
    ws.append(W('batch.field.len', P + 'pub fn w(mut b: Batch<(Vec<A>, brood::entities::Null)>) { b.len = 7; }\n', 'fail', 'privacy', 'changing the recorded length of a checked Batch'))
    ws.append(W('batch.new_unchecked.safe', P + 'pub fn w() { let _ = Batch::new_unchecked((vec![A(1)], (vec![B(1), B(2)], brood::entities::Null))); }\n', 'fail', 'unsafe', 'Batch::new_unchecked must be unsafe'))
    ws.append(W('batch.new_unchecked.twin', P + 'pub fn w() { let _ = unsafe { Batch::new_unchecked((vec![A(1)], (vec![B(1)], brood::entities::Null))) }; }\n', 'compile', None, 'unsafe caller takes the obligation'))
    ws.append(W('batch.new.twin', P + 'pub fn w() { let _ = Batch::new((vec![A(1)], (vec![B(1)], brood::entities::Null))); }\n', 'compile', None, 'checked constructor is public'))
    ws.append(W('world.literal', P + 'pub fn w(x: World<R>) { let World { .. } = x; let _ = World::<R> { len: 0, ..x }; }\n', 'fail', 'privacy', 'building a World with a struct literal bypasses the duplicate-component assertion'))
    ws.append(W('world.field.len', P + 'pub fn w(mut x: World<R>) { x.len = 3; }\n', 'fail', 'privacy', 'World.len is private'))
    ws.append(W('world.from_raw_parts', P + 'pub fn w() { let _ = World::<R>::from_raw_parts; }\n', 'fail', 'privacy', 'World::from_raw_parts is not public'))
    ws.append(W('world.new.twin', P + 'pub fn w() { let _ = World::<R>::new(); let _ = World::<R, Resources!(A)>::with_resources(brood::resources!(A(1))); let _ = World::<R>::default(); }\n', 'compile', None, 'public constructors'))
    ws.append(W('entities.ragged.long-first', P + 'pub fn w() { let _ = entities!((A(1), B(1)), (A(2))); }\n', 'fail', 'macro', 'ragged rows in entities!'))
    ws.append(W('entities.ragged.short-first', P + 'pub fn w() { let _ = entities!((A(1)), (A(2), B(2))); }\n', 'fail', 'macro', 'ragged rows in entities!'))
    ws.append(W('entities.rect.twin', P + 'pub fn w() { let _ = entities!((A(1), B(1)), (A(2), B(2))); let _ = entities!((A(1), B(1)); 3); }\n', 'compile', None, 'rectangular entities!'))
    ws.append(W('entities.count-evaluated-once', P + 'pub struct Token;\nfn consume(_t: Token) -> usize { 3 }\npub fn w() { let t = Token; let _ = entities!((A(1), B(2)); consume(t)); }\n', 'compile', None,
                'the length expression of entities!((..); n) is evaluated exactly once (a move-only argument compiles): evaluating it once per column lets a side-effecting expression build ragged columns through the unchecked constructor in safe code'))
    ws.append(W('entities.component-evaluated-once', P + '#[derive(Clone)] pub struct M(pub u8);\npub struct Token;\nfn make(_t: Token) -> A { A(1) }\npub fn w() { let t = Token; let _ = entities!((make(t), B(2)); 2); }\n', 'compile', None,
                'each component expression of entities!((..); n) is evaluated exactly once'))
    ws.append(W('archetype.private', P + 'pub fn w() { let _: Option<brood::archetype::Archetype<R>> = None; }\n', 'fail', 'privacy', 'archetype storage is not reachable from outside'))
    return ws, True


# -------------------------------------------------------------------------------------------------
@family('V-CANON', props=['C01'], floor={'quick': 20, 'thorough': 80},
        doc='for every subset and permutation of the registry components the canonical entity/entities type is the registry-ordered list')
def v_canon(tier, seed):
    P = '''use brood::{entity, entities, Registry, registry};
use brood::verif::{CanonicalEntity, CanonicalEntities};
use core::marker::PhantomData;
#[derive(Clone)] pub struct C0(pub u8); #[derive(Clone)] pub struct C1(pub u16); #[derive(Clone)] pub struct C2(pub u32); #[derive(Clone)] pub struct C3(pub u64);
fn canon<R, E, I>(_e: &E) -> PhantomData<CanonicalEntity<R, E, I>> where R: registry::ContainsEntity<E, I> { PhantomData }
fn canons<R, E, I>(_b: &brood::entities::Batch<E>) -> PhantomData<CanonicalEntities<R, E, I>> where R: registry::ContainsEntities<E, I> { PhantomData }
'''
    ws = []
    maxn = 4 if tier == 'thorough' else 3
    for n in range(1, maxn + 1):
        comps = ['C%d' % i for i in range(n)]
        reg = 'Registry!(%s)' % ', '.join(comps)
        for r in range(0, n + 1):
            for subset in itertools.combinations(range(n), r):
                for perm in itertools.permutations(subset):
                    exp = 'brood::entity::Null'
                    for i in reversed(sorted(subset)):
                        exp = '(C%d, %s)' % (i, exp)
                    expv = 'brood::entities::Null'
                    for i in reversed(sorted(subset)):
                        expv = '(Vec<C%d>, %s)' % (i, expv)
                    ent = 'entity!(%s)' % ', '.join('C%d(0)' % i for i in perm)
                    code = P + 'pub fn w() {\n    let e = %s;\n    let _: PhantomData<%s> = canon::<%s, _, _>(&e);\n' % (ent, exp, reg)
                    if perm:
                        code += '    let b = entities!((%s); 2);\n    let _: PhantomData<%s> = canons::<%s, _, _>(&b);\n' % (', '.join('C%d(0)' % i for i in perm), expv, reg)
                    code += '}\n'
                    ws.append(W('n%d.%s' % (n, ''.join(map(str, perm)) or 'empty'), code, 'compile', None, 'canonical form of components %s in registry of %d' % (list(perm), n)))
    return ws, True


# -------------------------------------------------------------------------------------------------
@family('V-RES', props=['C15'], floor={'quick': 20, 'thorough': 90},
        doc='resource lookup is by type: get/get_mut/view_resources have the requested types for every position, subset and order')
def v_res(tier, seed):
    P = '''use brood::{Registry, Resources, resources, World, query::{Views, result}};
pub struct R0(pub u8); pub struct R1(pub u16); pub struct R2(pub u32); pub struct R3(pub u64);
'''
    ws = []
    maxn = 4 if tier == 'thorough' else 3
    for n in range(1, maxn + 1):
        rl = 'Resources!(%s)' % ', '.join('R%d' % i for i in range(n))
        for i in range(n):
            code = P + 'pub fn w(world: &mut World<Registry!(), %s>) {\n    { let _: &R%d = world.get::<R%d, _>(); }\n    { let _: &mut R%d = world.get_mut::<R%d, _>(); }\n}\n' % (rl, i, i, i, i)
            ws.append(W('get.n%d.%d' % (n, i), code, 'compile', None, 'get/get_mut by type at position %d of %d' % (i, n)))
        for r in range(1, n + 1):
            for subset in itertools.combinations(range(n), r):
                perms = list(itertools.permutations(subset))
                if tier == 'quick' and len(perms) > 3:
                    perms = [perms[0], perms[len(perms) // 2], perms[-1]]   # identity, a 3-cycle, reverse
                for perm in perms:
                    muts = [(j + len(perm)) % 2 == 0 for j in range(len(perm))]
                    views = ', '.join('&%sR%d' % ('mut ' if m else '', i) for i, m in zip(perm, muts))
                    names = ', '.join('v%d' % j for j in range(len(perm)))
                    checks = ''.join('    let _: &%sR%d = v%d;\n' % ('mut ' if m else '', i, j) for j, (i, m) in enumerate(zip(perm, muts)))
                    code = P + 'pub fn w(world: &mut World<Registry!(), %s>) {\n    let result!(%s) = world.view_resources::<Views!(%s), _>();\n%s}\n' % (rl, names, views, checks)
                    ws.append(W('view.n%d.%s' % (n, ''.join(map(str, perm))), code, 'compile', None, 'view_resources of %s in %d resources' % (list(perm), n)))
                    if len(perm) >= 2 and (tier == 'thorough' or len(perm) == n):
                        lviews = ', '.join("&'a %sR%d" % ('mut ' if m else '', i) for i, m in zip(perm, muts))
                        code = P + '''use brood::{registry, query::{filter, Result}, system::System};
pub struct S;
impl System for S {
    type Views<'a> = Views!();
    type Filter = filter::None;
    type ResourceViews<'a> = Views!(%s);
    type EntryViews<'a> = Views!();
    fn run<'a, R_, S_, I_, E_>(&mut self, q: Result<R_, S_, I_, Self::ResourceViews<'a>, Self::EntryViews<'a>, E_>) where R_: registry::Registry, I_: Iterator<Item = Self::Views<'a>> {
        let result!(%s) = q.resources;
%s    }
}
pub fn w(world: &mut World<Registry!(), %s>) { world.run_system(&mut S); }
''' % (lviews, names, checks.replace('    let', '        let'), rl)
                        ws.append(W('system.n%d.%s' % (n, ''.join(map(str, perm))), code, 'compile', None, 'system resource views of %s in %d resources' % (list(perm), n)))
    return ws, True


# -------------------------------------------------------------------------------------------------
@family('V-VIEWS', props=['C03', 'C14'], floor={'quick': 30, 'thorough': 150},
        doc='conflict-free views compile for every subset and order of the registry components, in every position (query views, entry views, sub-views of entries, World::entry), and yield items of the requested types')
def v_views(tier, seed):
    P = '''use brood::{entity, Registry, Resources, World, Query, query::{Views, result, filter}};
use brood::entity as ent;
pub struct C0(pub u8); pub struct C1(pub u16); pub struct C2(pub u32); pub struct C3(pub u64);
'''
    ws = []
    maxn = 4 if tier == 'thorough' else 3
    for n in range(2, maxn + 1):
        reg = 'Registry!(%s)' % ', '.join('C%d' % i for i in range(n))
        for r in range(1, n + 1):
            for subset in itertools.combinations(range(n), r):
                perms = list(itertools.permutations(subset))
                if tier == 'quick' and len(perms) > 3:
                    perms = [perms[0], perms[len(perms) // 2], perms[-1]]
                for perm in perms:
                    kinds = [KINDS[(i + j) % 4] for j, i in enumerate(perm)]
                    views = ', '.join(ktxt(k, 'C%d' % i) for k, i in zip(kinds, perm))
                    names = ', '.join('v%d' % j for j in range(len(perm)))
                    checks = ''.join('        let _: %s = v%d;\n' % (ktxt(k, 'C%d' % i), j) for j, (k, i) in enumerate(zip(kinds, perm)))
                    tag = 'n%d.%s' % (n, ''.join(map(str, perm)))
                    code = P + 'pub fn w(world: &mut World<%s>) {\n    for result!(%s) in world.query(Query::<Views!(%s)>::new()).iter {\n%s    }\n}\n' % (reg, names, views, checks)
                    ws.append(W('query.' + tag, code, 'compile', None, 'query views %s over %d components' % (views, n)))
                    code = P + 'pub fn w(world: &mut World<%s>, id: ent::Identifier) {\n    let mut e = world.entry(id).unwrap();\n    if let Some(result!(%s)) = e.query(Query::<Views!(%s)>::new()) {\n%s    }\n}\n' % (reg, names, views, checks)
                    ws.append(W('entry.' + tag, code, 'compile', None, 'World::entry query views %s' % views))
                    code = P + 'pub fn w(world: &mut World<%s>) {\n    use rayon::iter::ParallelIterator;\n    world.par_query(Query::<Views!(%s)>::new()).iter.for_each(|result!(%s)| {\n%s    });\n}\n' % (reg, views, names, checks)
                    ws.append(W('parquery.' + tag, code, 'compile', None, 'parallel query views %s over %d components' % (views, n)))
                    if tier == 'thorough' or len(perm) == n:
                        # entry views: declare all mutable, ask sub-views in this order with these kinds
                        sup = ', '.join('&mut C%d' % i for i in sorted(subset))
                        code = P + 'pub fn w(world: &mut World<%s>, id: ent::Identifier) {\n    let mut qr = world.query(Query::<Views!(), filter::None, Views!(), Views!(%s)>::new());\n    let mut e = qr.entries.entry(id).unwrap();\n    if let Some(result!(%s)) = e.query(Query::<Views!(%s)>::new()) {\n%s    }\n}\n' % (reg, sup, names, views, checks)
                        ws.append(W('subviews.' + tag, code, 'compile', None, 'sub-views %s of entry views %s' % (views, sup)))
    return ws, True


# -------------------------------------------------------------------------------------------------
def _filters(depth, comps):
    base = ['filter::None'] + ['filter::Has<%s>' % c for c in comps] + ['&%s' % comps[0], '&mut %s' % comps[-1], 'Option<&%s>' % comps[0], 'ent::Identifier']
    if depth == 0:
        return base
    sub = _filters(depth - 1, comps)
    out = list(base)
    picks = sub[:6]
    for a in picks:
        out.append('filter::Not<%s>' % a)
        for b in picks[:4]:
            out.append('filter::And<%s, %s>' % (a, b))
            out.append('filter::Or<%s, %s>' % (a, b))
    return out


@family('V-FILTER', props=['C03'], floor={'quick': 20, 'thorough': 60},
        doc='every filter expression (Has / Not / And / Or / None, views used as filters, nested) over components anywhere in the registry is accepted for sequential queries, parallel queries and systems')
def v_filter(tier, seed):
    P = '''use brood::{entity, Registry, Resources, World, Query, query::{Views, result, filter}};
use brood::entity as ent;
pub struct C0(pub u8); pub struct C1(pub u16); pub struct C2(pub u32);
type R = Registry!(C0, C1, C2);
'''
    ws = []
    fl = _filters(1 if tier == 'quick' else 2, ['C0', 'C1', 'C2'])
    if tier == 'quick':
        fl = fl[:8] + fl[8::5]
    else:
        fl = fl[:400]
    for i, f in enumerate(fl):
        code = P + 'pub fn w(world: &mut World<R>) {\n    let _ = world.query(Query::<Views!(&C1), %s>::new()).iter.count();\n}\n' % f
        ws.append(W('query.%03d.%s' % (i, f.replace('filter::', '').replace(' ', '')[:60]), code, 'compile', None, 'filter %s' % f))
        if i % 3 == 0:
            code = P + 'pub fn w(world: &mut World<R>) {\n    use rayon::iter::ParallelIterator;\n    let _ = world.par_query(Query::<Views!(&C1), %s>::new()).iter.count();\n}\n' % f
            ws.append(W('parquery.%03d.%s' % (i, f.replace('filter::', '').replace(' ', '')[:60]), code, 'compile', None, 'filter %s (parallel)' % f))
    return ws, tier == 'thorough'
