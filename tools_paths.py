#!/usr/bin/env python3
"""dev tool: print pathsem paths of functions matching the arguments"""
import sys
sys.path.insert(0, '/verif')
from vlib import engine, mir, pathsem
args = sys.argv[1:]
repo = None
cfg = 'all'
if args and args[0].startswith('/'):
    repo = args.pop(0)
if args and args[0] in ('all', 'default'):
    cfg = args.pop(0)
ctx = engine.Ctx(repo)
P = ctx.prog(cfg)
for fn in P.fns.values():
    if fn.kind == 'Closure':
        continue
    if all(a in fn.path or a in fn.dp for a in args):
        E = pathsem.analyse(P, fn)
        print('=====', fn.path, fn.loc(), 'paths=%d truncated=%s' % (len(E.paths), E.truncated))
        for p in E.paths:
            print('  --', p.ended, 'ret=', pathsem.tstr(p.ret) if p.ret else None)
            for a, v in p.conds:
                print('       if', pathsem.tstr(a), '=', v)
            for e in p.events:
                if e['k'] == 'call':
                    print('       call', e['name'], [pathsem.tstr(x) for x in e['args']], 'L%s' % e.get('ln'))
                elif e['k'] == 'store':
                    print('       store', pathsem.tstr(e['loc']), ':=', pathsem.tstr(e['value']))
                else:
                    print('       ', e['k'])
