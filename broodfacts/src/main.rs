//! broodfacts — rustc_private driver that exports the resolved program of the crate named in
//! `BROODFACTS_CRATE` (default `brood`) as one JSON fact file (`BROODFACTS_OUT`).
//!
//! Used as `RUSTC_WORKSPACE_WRAPPER`: argv[1] is the real rustc path and is dropped.
//! For every other crate (and for build scripts) it behaves exactly like rustc.

#![feature(rustc_private)]
#![allow(rustc::internal)]

extern crate rustc_abi;
extern crate rustc_driver;
extern crate rustc_hir;
extern crate rustc_interface;
extern crate rustc_middle;
extern crate rustc_session;
extern crate rustc_span;
extern crate rustc_type_ir;

mod json;

use json::J;
use rustc_driver::Compilation;
use rustc_hir::def::DefKind;
use rustc_hir::def_id::{DefId, LocalDefId};
use rustc_middle::mir::{
    self, AggregateKind, BasicBlockData, Body, Operand, Place, ProjectionElem, Rvalue,
    StatementKind, TerminatorKind, UnwindAction,
};
use rustc_middle::ty::{self, GenericArgKind, GenericArgsRef, Instance, Ty, TyCtxt, TypingEnv};
use rustc_span::Span;

struct Cb;

impl rustc_driver::Callbacks for Cb {
    fn after_analysis<'tcx>(
        &mut self,
        _compiler: &rustc_interface::interface::Compiler,
        tcx: TyCtxt<'tcx>,
    ) -> Compilation {
        let want = std::env::var("BROODFACTS_CRATE").unwrap_or_else(|_| "brood".to_string());
        let name = tcx.crate_name(rustc_hir::def_id::LOCAL_CRATE).to_string();
        if name != want {
            return Compilation::Continue;
        }
        // Skip build-script / proc-macro style invocations of the same name.
        let out = match std::env::var("BROODFACTS_OUT") {
            Ok(o) => o,
            Err(_) => return Compilation::Continue,
        };
        let facts = ty::print::with_no_trimmed_paths!(export(tcx));
        let mut s = String::with_capacity(64 << 20);
        facts.write(&mut s);
        let tmp = format!("{}.tmp{}", out, std::process::id());
        std::fs::write(&tmp, s).expect("write facts");
        std::fs::rename(&tmp, &out).expect("rename facts");
        Compilation::Continue
    }
}

fn main() -> std::process::ExitCode {
    let mut args: Vec<String> = std::env::args().collect();
    // RUSTC_WORKSPACE_WRAPPER passes the real rustc as argv[1].
    if args.len() > 1 && (args[1].ends_with("rustc") || args[1].contains("/rustc")) {
        args.remove(1);
    }
    rustc_driver::catch_with_exit_code(|| {
        rustc_driver::run_compiler(&args, &mut Cb);
    })
}

// -------------------------------------------------------------------------------------------------

struct Cx<'tcx> {
    tcx: TyCtxt<'tcx>,
}

fn export<'tcx>(tcx: TyCtxt<'tcx>) -> J {
    let cx = Cx { tcx };
    let mut adts = Vec::new();
    let mut impls = Vec::new();
    let mut traits = Vec::new();
    let mut fns = Vec::new();
    let mut consts = Vec::new();

    let items = tcx.hir_crate_items(());
    for ld in items.definitions() {
        let def = ld.to_def_id();
        match tcx.def_kind(def) {
            DefKind::Struct | DefKind::Enum | DefKind::Union => adts.push(cx.adt(ld)),
            DefKind::Impl { .. } => impls.push(cx.imp(ld)),
            DefKind::Trait => traits.push(cx.tr(ld)),
            _ => {}
        }
    }
    for ld in tcx.hir_body_owners() {
        let def = ld.to_def_id();
        match tcx.def_kind(def) {
            DefKind::Fn | DefKind::AssocFn | DefKind::Closure => {
                fns.push(cx.func(ld));
            }
            DefKind::Const { .. } | DefKind::AssocConst { .. } => {
                consts.push(cx.konst(ld));
            }
            _ => {}
        }
    }
    let features: Vec<J> = std::env::var("BROODFACTS_LABEL")
        .ok()
        .map(|l| vec![J::s(l)])
        .unwrap_or_default();
    J::Obj(vec![
        ("crate", J::s(tcx.crate_name(rustc_hir::def_id::LOCAL_CRATE).to_string())),
        ("label", J::Arr(features)),
        ("adts", J::Arr(adts)),
        ("traits", J::Arr(traits)),
        ("impls", J::Arr(impls)),
        ("fns", J::Arr(fns)),
        ("consts", J::Arr(consts)),
    ])
}

impl<'tcx> Cx<'tcx> {
    fn dp(&self, def: DefId) -> String {
        // Stable, unique identity: crate name + def path data.
        let krate = self.tcx.crate_name(def.krate).to_string();
        format!("{}{}", krate, self.tcx.def_path(def).to_string_no_crate_verbose())
    }

    fn name(&self, def: DefId) -> String {
        match self.tcx.opt_item_name(def) {
            Some(n) => n.to_string(),
            None => String::from("<anon>"),
        }
    }

    fn path(&self, def: DefId) -> String {
        self.tcx.def_path_str(def)
    }

    fn span(&self, sp: Span) -> J {
        let sm = self.tcx.sess.source_map();
        let sp2 = if sp.from_expansion() { sp.source_callsite() } else { sp };
        let lo = sm.lookup_char_pos(sp2.lo());
        let file = match &lo.file.name {
            rustc_span::FileName::Real(r) => match r.local_path() {
                Some(p) => p.to_string_lossy().to_string(),
                None => format!("{:?}", r),
            },
            other => format!("{:?}", other),
        };
        J::Obj(vec![("file", J::s(file)), ("line", J::Num(lo.line as i128))])
    }

    fn line(&self, sp: Span) -> i128 {
        let sm = self.tcx.sess.source_map();
        let sp2 = if sp.from_expansion() { sp.source_callsite() } else { sp };
        sm.lookup_char_pos(sp2.lo()).line as i128
    }

    fn vis(&self, def: DefId) -> J {
        match self.tcx.visibility(def) {
            ty::Visibility::Public => J::s("pub"),
            ty::Visibility::Restricted(m) => J::s(format!("in:{}", self.path(m))),
        }
    }

    // ---- types ---------------------------------------------------------------------------------

    fn ty(&self, t: Ty<'tcx>) -> J {
        use rustc_type_ir::TyKind::*;
        match t.kind() {
            Bool | Char | Int(_) | Uint(_) | Float(_) | Str | Never => {
                J::Obj(vec![("k", J::s("prim")), ("name", J::s(t.to_string()))])
            }
            Param(p) => J::Obj(vec![
                ("k", J::s("param")),
                ("name", J::s(p.name.to_string())),
                ("idx", J::Num(p.index as i128)),
            ]),
            Tuple(ts) => J::Obj(vec![
                ("k", J::s("tuple")),
                ("e", J::Arr(ts.iter().map(|t| self.ty(t)).collect())),
            ]),
            Ref(r, inner, m) => J::Obj(vec![
                ("k", J::s("ref")),
                ("mut", J::Bool(m.is_mut())),
                ("r", J::s(r.to_string())),
                ("t", self.ty(*inner)),
            ]),
            RawPtr(inner, m) => J::Obj(vec![
                ("k", J::s("ptr")),
                ("mut", J::Bool(m.is_mut())),
                ("t", self.ty(*inner)),
            ]),
            Slice(inner) => J::Obj(vec![("k", J::s("slice")), ("t", self.ty(*inner))]),
            Array(inner, len) => J::Obj(vec![
                ("k", J::s("array")),
                ("t", self.ty(*inner)),
                ("len", J::s(len.to_string())),
            ]),
            Adt(adt, args) => J::Obj(vec![
                ("k", J::s("adt")),
                ("path", J::s(self.path(adt.did()))),
                ("args", self.args(args)),
            ]),
            Alias(alias) => {
                let def = alias.kind.def_id();
                let trait_def = self.tcx.opt_parent(def);
                J::Obj(vec![
                    ("k", J::s("alias")),
                    ("kind", J::s(format!("{:?}", alias.kind).split('{').next().unwrap_or("").trim().to_string())),
                    ("def", J::s(self.path(def))),
                    ("name", J::s(self.name(def))),
                    ("trait", J::opt_s(trait_def.map(|d| self.path(d)))),
                    ("args", self.args(alias.args)),
                ])
            }
            FnDef(def, args) => J::Obj(vec![
                ("k", J::s("fndef")),
                ("path", J::s(self.path(*def))),
                ("dp", J::s(self.dp(*def))),
                ("args", self.args(args)),
            ]),
            Closure(def, args) => J::Obj(vec![
                ("k", J::s("closure")),
                ("dp", J::s(self.dp(*def))),
                ("upvars", J::Arr(
                    args.as_closure().upvar_tys().iter().map(|t| self.ty(t)).collect(),
                )),
            ]),
            FnPtr(..) => J::Obj(vec![("k", J::s("fnptr")), ("s", J::s(t.to_string()))]),
            Dynamic(..) => J::Obj(vec![("k", J::s("dyn")), ("s", J::s(t.to_string()))]),
            _ => J::Obj(vec![("k", J::s("other")), ("s", J::s(t.to_string()))]),
        }
    }

    fn args(&self, args: GenericArgsRef<'tcx>) -> J {
        J::Arr(
            args.iter()
                .map(|a| match a.kind() {
                    GenericArgKind::Type(t) => self.ty(t),
                    GenericArgKind::Lifetime(r) => {
                        J::Obj(vec![("k", J::s("region")), ("s", J::s(r.to_string()))])
                    }
                    GenericArgKind::Const(c) => {
                        J::Obj(vec![("k", J::s("const")), ("s", J::s(c.to_string()))])
                    }
                })
                .collect(),
        )
    }

    fn generics(&self, def: DefId) -> J {
        let g = self.tcx.generics_of(def);
        let mut out = Vec::new();
        let mut stack = vec![g];
        let mut cur = g;
        while let Some(p) = cur.parent {
            cur = self.tcx.generics_of(p);
            stack.push(cur);
        }
        for g in stack.iter().rev() {
            for p in &g.own_params {
                out.push(J::Obj(vec![
                    ("name", J::s(p.name.to_string())),
                    ("idx", J::Num(p.index as i128)),
                    ("kind", J::s(match p.kind {
                        ty::GenericParamDefKind::Lifetime => "lifetime",
                        ty::GenericParamDefKind::Type { .. } => "type",
                        ty::GenericParamDefKind::Const { .. } => "const",
                    })),
                ]));
            }
        }
        J::Arr(out)
    }

    fn clause(&self, c: ty::Clause<'tcx>) -> J {
        let kind = c.kind();
        let bound = !kind.bound_vars().is_empty();
        match kind.skip_binder() {
            ty::ClauseKind::Trait(tp) => J::Obj(vec![
                ("k", J::s("trait")),
                ("trait", J::s(self.path(tp.trait_ref.def_id))),
                ("self", self.ty(tp.trait_ref.self_ty())),
                ("args", self.args(tp.trait_ref.args)),
                ("neg", J::Bool(tp.polarity == ty::PredicatePolarity::Negative)),
                ("hr", J::Bool(bound)),
            ]),
            ty::ClauseKind::Projection(pp) => J::Obj(vec![
                ("k", J::s("proj")),
                ("def", J::s(self.path(pp.projection_term.def_id()))),
                ("name", J::s(self.name(pp.projection_term.def_id()))),
                ("args", self.args(pp.projection_term.args)),
                ("term", match pp.term.kind() {
                    ty::TermKind::Ty(t) => self.ty(t),
                    ty::TermKind::Const(c) => J::Obj(vec![("k", J::s("const")), ("s", J::s(c.to_string()))]),
                }),
                ("hr", J::Bool(bound)),
            ]),
            ty::ClauseKind::TypeOutlives(o) => J::Obj(vec![
                ("k", J::s("ty_outlives")),
                ("ty", self.ty(o.0)),
                ("r", J::s(o.1.to_string())),
            ]),
            ty::ClauseKind::RegionOutlives(o) => J::Obj(vec![
                ("k", J::s("region_outlives")),
                ("a", J::s(o.0.to_string())),
                ("b", J::s(o.1.to_string())),
            ]),
            other => J::Obj(vec![("k", J::s("other")), ("s", J::s(format!("{:?}", other)))]),
        }
    }

    fn predicates(&self, def: DefId) -> J {
        let preds = self.tcx.predicates_of(def).instantiate_identity(self.tcx);
        J::Arr(
            preds
                .predicates
                .into_iter()
                .map(|c| self.clause(c.skip_normalization()))
                .collect(),
        )
    }

    // ---- items ---------------------------------------------------------------------------------

    fn adt(&self, ld: LocalDefId) -> J {
        let def = ld.to_def_id();
        let adt = self.tcx.adt_def(def);
        let variants: Vec<J> = adt
            .variants()
            .iter()
            .map(|v| {
                J::Obj(vec![
                    ("name", J::s(v.name.to_string())),
                    (
                        "fields",
                        J::Arr(
                            v.fields
                                .iter()
                                .map(|f| {
                                    J::Obj(vec![
                                        ("name", J::s(f.name.to_string())),
                                        (
                                            "ty",
                                            self.ty(
                                                self.tcx
                                                    .type_of(f.did)
                                                    .instantiate_identity()
                                                    .skip_normalization(),
                                            ),
                                        ),
                                        ("vis", self.vis(f.did)),
                                    ])
                                })
                                .collect(),
                        ),
                    ),
                ])
            })
            .collect();
        let ev = self.tcx.effective_visibilities(());
        J::Obj(vec![
            ("dp", J::s(self.dp(def))),
            ("path", J::s(self.path(def))),
            ("kind", J::s(format!("{:?}", self.tcx.def_kind(def)))),
            ("vis", self.vis(def)),
            ("exported", J::Bool(ev.is_reachable(ld))),
            ("generics", self.generics(def)),
            ("predicates", self.predicates(def)),
            ("variants", J::Arr(variants)),
            ("span", self.span(self.tcx.def_span(def))),
        ])
    }

    fn tr(&self, ld: LocalDefId) -> J {
        let def = ld.to_def_id();
        let supers = self.tcx.explicit_super_predicates_of(def).skip_binder();
        let items: Vec<J> = self
            .tcx
            .associated_item_def_ids(def)
            .iter()
            .map(|d| {
                let it = self.tcx.associated_item(*d);
                J::Obj(vec![
                    ("name", J::s(it.name().to_string())),
                    ("kind", J::s(format!("{:?}", self.tcx.def_kind(*d)))),
                    ("dp", J::s(self.dp(*d))),
                    ("has_default", J::Bool(it.defaultness(self.tcx).has_value())),
                ])
            })
            .collect();
        let ev = self.tcx.effective_visibilities(());
        J::Obj(vec![
            ("dp", J::s(self.dp(def))),
            ("path", J::s(self.path(def))),
            ("vis", self.vis(def)),
            ("exported", J::Bool(ev.is_reachable(ld))),
            ("unsafe", J::Bool(self.tcx.trait_def(def).safety.is_unsafe())),
            ("generics", self.generics(def)),
            ("supers", J::Arr(supers.iter().map(|(c, _)| self.clause(*c)).collect())),
            ("predicates", self.predicates(def)),
            ("items", J::Arr(items)),
            ("span", self.span(self.tcx.def_span(def))),
        ])
    }

    fn imp(&self, ld: LocalDefId) -> J {
        let def = ld.to_def_id();
        let self_ty = self.tcx.type_of(def).instantiate_identity().skip_normalization();
        let (tr, neg, unsafe_) = match self.tcx.impl_opt_trait_ref(def) {
            Some(tr) => {
                let h = self.tcx.impl_trait_header(def);
                let tr = tr.instantiate_identity().skip_normalization();
                (
                    J::Obj(vec![
                        ("path", J::s(self.path(tr.def_id))),
                        ("args", self.args(tr.args)),
                    ]),
                    h.polarity == ty::ImplPolarity::Negative,
                    h.safety.is_unsafe(),
                )
            }
            None => (J::Null, false, false),
        };
        let mut items = Vec::new();
        for d in self.tcx.associated_item_def_ids(def) {
            let kind = self.tcx.def_kind(*d);
            let mut o = vec![
                ("name", J::s(self.name(*d))),
                ("kind", J::s(format!("{:?}", kind))),
                ("dp", J::s(self.dp(*d))),
            ];
            if matches!(kind, DefKind::AssocTy) {
                o.push((
                    "ty",
                    self.ty(self.tcx.type_of(*d).instantiate_identity().skip_normalization()),
                ));
                o.push(("generics", self.generics(*d)));
            }
            items.push(J::Obj(o));
        }
        J::Obj(vec![
            ("dp", J::s(self.dp(def))),
            ("trait", tr),
            ("self", self.ty(self_ty)),
            ("neg", J::Bool(neg)),
            ("unsafe", J::Bool(unsafe_)),
            ("generics", self.generics(def)),
            ("predicates", self.predicates(def)),
            ("items", J::Arr(items)),
            ("span", self.span(self.tcx.def_span(def))),
        ])
    }

    fn konst(&self, ld: LocalDefId) -> J {
        let def = ld.to_def_id();
        let body = self.tcx.mir_for_ctfe(def);
        let parent = self.tcx.opt_parent(def);
        J::Obj(vec![
            ("dp", J::s(self.dp(def))),
            ("path", J::s(self.path(def))),
            ("name", J::s(self.name(def))),
            ("parent", J::opt_s(parent.map(|p| self.dp(p)))),
            ("span", self.span(self.tcx.def_span(def))),
            ("mir", self.body(def, body)),
        ])
    }

    fn func(&self, ld: LocalDefId) -> J {
        let def = ld.to_def_id();
        let kind = self.tcx.def_kind(def);
        let body = self.tcx.optimized_mir(def);
        let parent = self.tcx.opt_parent(def);
        let is_fn = matches!(kind, DefKind::Fn | DefKind::AssocFn);
        let mut o = vec![
            ("dp", J::s(self.dp(def))),
            ("path", J::s(self.path(def))),
            ("kind", J::s(format!("{:?}", kind))),
            ("parent", J::opt_s(parent.map(|p| self.dp(p)))),
            ("generics", self.generics(def)),
            ("span", self.span(self.tcx.def_span(def))),
            ("expn", J::Bool(self.tcx.def_span(def).from_expansion())),
        ];
        if is_fn {
            let sig = self.tcx.fn_sig(def).instantiate_identity().skip_normalization();
            let ev = self.tcx.effective_visibilities(());
            o.push(("name", J::s(self.name(def))));
            o.push(("unsafe", J::Bool(sig.safety().is_unsafe())));
            o.push(("vis", self.vis(def)));
            o.push(("exported", J::Bool(ev.is_reachable(ld))));
            o.push(("predicates", self.predicates(def)));
            let sig = sig.skip_binder();
            o.push(("inputs", J::Arr(sig.inputs().iter().map(|t| self.ty(*t)).collect())));
            o.push(("output", self.ty(sig.output())));
            // For an impl method of a trait impl: which trait item does it implement?
            if let Some(ai) = self.tcx.opt_associated_item(def) {
                if let Some(ti) = ai.trait_item_def_id() {
                    o.push(("trait_item", J::s(self.path(ti))));
                }
            }
        }
        o.push(("mir", self.body(def, body)));
        // promoted constants (e.g. `&Claim::Mutable` in `x != Claim::Mutable`)
        let promoted = self.tcx.promoted_mir(def);
        if !promoted.is_empty() {
            o.push(("promoted", J::Arr(promoted.iter().map(|b| self.body(def, b)).collect())));
        }
        J::Obj(o)
    }

    // ---- MIR -----------------------------------------------------------------------------------

    fn body(&self, def: DefId, body: &Body<'tcx>) -> J {
        let env = TypingEnv::post_analysis(self.tcx, def);
        let mut names: Vec<Option<String>> = vec![None; body.local_decls.len()];
        let mut upvars = Vec::new();
        for vdi in &body.var_debug_info {
            if let mir::VarDebugInfoContents::Place(p) = &vdi.value {
                if p.projection.is_empty() {
                    names[p.local.as_usize()] = Some(vdi.name.to_string());
                } else {
                    upvars.push(J::Obj(vec![
                        ("name", J::s(vdi.name.to_string())),
                        ("place", self.place(p)),
                    ]));
                }
            }
        }
        let locals: Vec<J> = body
            .local_decls
            .iter_enumerated()
            .map(|(l, d)| {
                J::Obj(vec![
                    ("ty", self.ty(d.ty)),
                    ("name", J::opt_s(names[l.as_usize()].clone())),
                ])
            })
            .collect();
        let blocks: Vec<J> = body
            .basic_blocks
            .iter()
            .map(|b| self.block(env, body, b))
            .collect();
        J::Obj(vec![
            ("argc", J::Num(body.arg_count as i128)),
            ("locals", J::Arr(locals)),
            ("upvars", J::Arr(upvars)),
            ("blocks", J::Arr(blocks)),
        ])
    }

    fn place(&self, p: &Place<'tcx>) -> J {
        let proj: Vec<J> = p
            .projection
            .iter()
            .map(|e| match e {
                ProjectionElem::Deref => J::s("*"),
                ProjectionElem::Field(f, t) => {
                    J::Obj(vec![("f", J::Num(f.as_usize() as i128)), ("ty", self.ty(t))])
                }
                ProjectionElem::Index(l) => J::Obj(vec![("idx", J::Num(l.as_usize() as i128))]),
                ProjectionElem::ConstantIndex { offset, from_end, .. } => J::Obj(vec![
                    ("cidx", J::Num(offset as i128)),
                    ("from_end", J::Bool(from_end)),
                ]),
                ProjectionElem::Subslice { from, to, from_end } => J::Obj(vec![
                    ("sub_from", J::Num(from as i128)),
                    ("sub_to", J::Num(to as i128)),
                    ("from_end", J::Bool(from_end)),
                ]),
                ProjectionElem::Downcast(name, v) => J::Obj(vec![
                    ("variant", J::Num(v.as_usize() as i128)),
                    ("vname", J::opt_s(name.map(|n| n.to_string()))),
                ]),
                ProjectionElem::OpaqueCast(t) => J::Obj(vec![("opaque", self.ty(t))]),
                ProjectionElem::UnwrapUnsafeBinder(t) => J::Obj(vec![("unwrap_binder", self.ty(t))]),
            })
            .collect();
        J::Obj(vec![("l", J::Num(p.local.as_usize() as i128)), ("p", J::Arr(proj))])
    }

    fn fn_ref(&self, env: TypingEnv<'tcx>, def: DefId, args: GenericArgsRef<'tcx>) -> Vec<(&'static str, J)> {
        let mut o = vec![
            ("path", J::s(self.path(def))),
            ("dp", J::s(self.dp(def))),
            ("name", J::s(self.name(def))),
            ("args", self.args(args)),
            ("local", J::Bool(def.is_local())),
        ];
        if let Some(t) = self.tcx.trait_of_assoc(def) {
            o.push(("trait", J::s(self.path(t))));
        }
        if let Some(i) = self.tcx.impl_of_assoc(def) {
            o.push(("impl_self", self.ty(self.tcx.type_of(i).instantiate_identity().skip_normalization())));
        }
        // Try to resolve trait-method calls to the impl method they dispatch to.
        if self.tcx.trait_of_assoc(def).is_some() {
            if let Ok(Some(inst)) = Instance::try_resolve(self.tcx, env, def, args) {
                let rd = inst.def_id();
                if rd != def {
                    let mut r = vec![
                        ("path", J::s(self.path(rd))),
                        ("dp", J::s(self.dp(rd))),
                        ("args", self.args(inst.args)),
                        ("local", J::Bool(rd.is_local())),
                        ("kind", J::s(format!("{:?}", inst.def).split('(').next().unwrap_or("").to_string())),
                    ];
                    if let Some(i) = self.tcx.impl_of_assoc(rd) {
                        r.push(("impl_self", self.ty(self.tcx.type_of(i).instantiate_identity().skip_normalization())));
                    }
                    o.push(("res", J::Obj(r)));
                }
            }
        }
        o
    }

    fn konst_op(&self, env: TypingEnv<'tcx>, c: &mir::ConstOperand<'tcx>) -> J {
        let t = c.const_.ty();
        let mut o = vec![("ty", self.ty(t))];
        if let ty::FnDef(def, args) = t.kind() {
            o.push(("fn", J::Obj(self.fn_ref(env, *def, args))));
            return J::Obj(vec![("const", J::Obj(o))]);
        }
        match c.const_ {
            mir::Const::Unevaluated(u, _) => {
                o.push(("uneval", J::s(self.path(u.def))));
                o.push(("uneval_name", J::s(self.name(u.def))));
                o.push(("uneval_args", self.args(u.args)));
                if let Some(p) = u.promoted {
                    o.push(("promoted", J::Num(p.as_usize() as i128)));
                }
            }
            mir::Const::Ty(_, ct) => {
                if let ty::ConstKind::Unevaluated(u) = ct.kind() {
                    o.push(("uneval", J::s(self.path(u.def))));
                    o.push(("uneval_name", J::s(self.name(u.def))));
                    o.push(("uneval_args", self.args(u.args)));
                } else {
                    o.push(("s", J::s(ct.to_string())));
                }
            }
            mir::Const::Val(..) => {}
        }
        if t.is_integral() || t.is_bool() || t.is_char() {
            if let mir::Const::Val(..) = c.const_ {
                if let Some(si) = c.const_.try_eval_scalar_int(self.tcx, env) {
                    let bits = si.to_bits(si.size());
                    let v: i128 = if t.is_signed() {
                        si.size().sign_extend(bits) as i128
                    } else {
                        bits as i128
                    };
                    o.push(("val", J::Num(v)));
                }
            }
        }
        if !o.iter().any(|(k, _)| *k == "val" || *k == "uneval" || *k == "s") {
            o.push(("s", J::s(c.const_.to_string())));
        }
        J::Obj(vec![("const", J::Obj(o))])
    }

    fn operand(&self, env: TypingEnv<'tcx>, op: &Operand<'tcx>) -> J {
        match op {
            Operand::Copy(p) => J::Obj(vec![("copy", self.place(p))]),
            Operand::Move(p) => J::Obj(vec![("move", self.place(p))]),
            Operand::Constant(c) => self.konst_op(env, c),
            Operand::RuntimeChecks(r) => J::Obj(vec![("runtime_checks", J::s(format!("{:?}", r)))]),
        }
    }

    fn rvalue(&self, env: TypingEnv<'tcx>, rv: &Rvalue<'tcx>) -> J {
        match rv {
            Rvalue::Use(op, _) => J::Obj(vec![("k", J::s("use")), ("op", self.operand(env, op))]),
            Rvalue::Repeat(op, n) => J::Obj(vec![
                ("k", J::s("repeat")),
                ("op", self.operand(env, op)),
                ("n", J::s(n.to_string())),
            ]),
            Rvalue::Ref(_, bk, p) => J::Obj(vec![
                ("k", J::s("ref")),
                ("mut", J::Bool(matches!(bk, mir::BorrowKind::Mut { .. }))),
                ("bk", J::s(format!("{:?}", bk))),
                ("place", self.place(p)),
            ]),
            Rvalue::RawPtr(kind, p) => J::Obj(vec![
                ("k", J::s("rawptr")),
                ("mut", J::Bool(matches!(kind, mir::RawPtrKind::Mut))),
                ("place", self.place(p)),
            ]),
            Rvalue::Cast(kind, op, t) => J::Obj(vec![
                ("k", J::s("cast")),
                ("cast", J::s(format!("{:?}", kind))),
                ("op", self.operand(env, op)),
                ("ty", self.ty(*t)),
            ]),
            Rvalue::BinaryOp(bop, ops) => J::Obj(vec![
                ("k", J::s("binop")),
                ("op", J::s(format!("{:?}", bop))),
                ("a", self.operand(env, &ops.0)),
                ("b", self.operand(env, &ops.1)),
            ]),
            Rvalue::UnaryOp(uop, op) => J::Obj(vec![
                ("k", J::s("unop")),
                ("op", J::s(format!("{:?}", uop))),
                ("a", self.operand(env, op)),
            ]),
            Rvalue::Discriminant(p) => {
                J::Obj(vec![("k", J::s("discr")), ("place", self.place(p))])
            }
            Rvalue::Aggregate(kind, ops) => {
                let mut o = vec![("k", J::s("agg"))];
                match &**kind {
                    AggregateKind::Array(t) => {
                        o.push(("agg", J::s("array")));
                        o.push(("ty", self.ty(*t)));
                    }
                    AggregateKind::Tuple => o.push(("agg", J::s("tuple"))),
                    AggregateKind::Adt(def, variant, args, _, _) => {
                        o.push(("agg", J::s("adt")));
                        o.push(("path", J::s(self.path(*def))));
                        o.push(("variant", J::Num(variant.as_usize() as i128)));
                        let adt = self.tcx.adt_def(*def);
                        o.push(("vname", J::s(adt.variant(*variant).name.to_string())));
                        o.push(("args", self.args(args)));
                    }
                    AggregateKind::Closure(def, _args) => {
                        o.push(("agg", J::s("closure")));
                        o.push(("dp", J::s(self.dp(*def))));
                    }
                    AggregateKind::RawPtr(t, m) => {
                        o.push(("agg", J::s("rawptr")));
                        o.push(("ty", self.ty(*t)));
                        o.push(("mut", J::Bool(m.is_mut())));
                    }
                    other => {
                        o.push(("agg", J::s("other")));
                        o.push(("s", J::s(format!("{:?}", other))));
                    }
                }
                o.push(("ops", J::Arr(ops.iter().map(|op| self.operand(env, op)).collect())));
                J::Obj(o)
            }
            Rvalue::CopyForDeref(p) => J::Obj(vec![
                ("k", J::s("use")),
                ("op", J::Obj(vec![("copy", self.place(p))])),
                ("for_deref", J::Bool(true)),
            ]),
            other => J::Obj(vec![("k", J::s("other")), ("s", J::s(format!("{:?}", other)))]),
        }
    }

    fn unwind(&self, u: &UnwindAction) -> J {
        match u {
            UnwindAction::Continue => J::s("continue"),
            UnwindAction::Unreachable => J::s("unreachable"),
            UnwindAction::Terminate(_) => J::s("terminate"),
            UnwindAction::Cleanup(b) => J::Num(b.as_usize() as i128),
        }
    }

    fn block(&self, env: TypingEnv<'tcx>, body: &Body<'tcx>, b: &BasicBlockData<'tcx>) -> J {
        let mut stmts = Vec::new();
        for s in &b.statements {
            let ln = self.line(s.source_info.span);
            match &s.kind {
                StatementKind::Assign(bx) => {
                    let (p, rv) = &**bx;
                    stmts.push(J::Obj(vec![
                        ("k", J::s("assign")),
                        ("place", self.place(p)),
                        ("rv", self.rvalue(env, rv)),
                        ("ln", J::Num(ln)),
                        ("x", J::Bool(s.source_info.span.from_expansion())),
                    ]));
                }
                StatementKind::SetDiscriminant { place, variant_index } => {
                    stmts.push(J::Obj(vec![
                        ("k", J::s("setdiscr")),
                        ("place", self.place(place)),
                        ("variant", J::Num(variant_index.as_usize() as i128)),
                        ("ln", J::Num(ln)),
                    ]));
                }
                StatementKind::Intrinsic(i) => {
                    stmts.push(J::Obj(vec![
                        ("k", J::s("intrinsic")),
                        ("s", J::s(format!("{:?}", i))),
                        ("ln", J::Num(ln)),
                    ]));
                }
                _ => {}
            }
        }
        let t = b.terminator();
        let ln = self.line(t.source_info.span);
        let x = t.source_info.span.from_expansion();
        let term = match &t.kind {
            TerminatorKind::Goto { target } => {
                J::Obj(vec![("k", J::s("goto")), ("target", J::Num(target.as_usize() as i128))])
            }
            TerminatorKind::SwitchInt { discr, targets } => {
                let mut vals = Vec::new();
                let mut tgts = Vec::new();
                for (v, t) in targets.iter() {
                    vals.push(J::Num(v as i128));
                    tgts.push(J::Num(t.as_usize() as i128));
                }
                let discr_ty = discr.ty(&body.local_decls, self.tcx);
                J::Obj(vec![
                    ("k", J::s("switch")),
                    ("discr", self.operand(env, discr)),
                    ("discr_ty", self.ty(discr_ty)),
                    ("values", J::Arr(vals)),
                    ("targets", J::Arr(tgts)),
                    ("otherwise", J::Num(targets.otherwise().as_usize() as i128)),
                ])
            }
            TerminatorKind::UnwindResume => J::Obj(vec![("k", J::s("resume"))]),
            TerminatorKind::UnwindTerminate(_) => J::Obj(vec![("k", J::s("terminate"))]),
            TerminatorKind::Return => J::Obj(vec![("k", J::s("return"))]),
            TerminatorKind::Unreachable => J::Obj(vec![("k", J::s("unreachable"))]),
            TerminatorKind::Drop { place, target, unwind, .. } => {
                let pty = place.ty(&body.local_decls, self.tcx).ty;
                J::Obj(vec![
                    ("k", J::s("drop")),
                    ("place", self.place(place)),
                    ("ty", self.ty(pty)),
                    ("target", J::Num(target.as_usize() as i128)),
                    ("unwind", self.unwind(unwind)),
                ])
            }
            TerminatorKind::Call { func, args, destination, target, unwind, .. } => {
                let fty = func.ty(&body.local_decls, self.tcx);
                let f = match fty.kind() {
                    ty::FnDef(def, gargs) => J::Obj(self.fn_ref(env, *def, gargs)),
                    _ => J::Obj(vec![("indirect", self.operand(env, func)), ("ty", self.ty(fty))]),
                };
                J::Obj(vec![
                    ("k", J::s("call")),
                    ("f", f),
                    ("args", J::Arr(args.iter().map(|a| self.operand(env, &a.node)).collect())),
                    ("dest", self.place(destination)),
                    ("target", match target {
                        Some(t) => J::Num(t.as_usize() as i128),
                        None => J::Null,
                    }),
                    ("unwind", self.unwind(unwind)),
                ])
            }
            TerminatorKind::TailCall { func, args, .. } => {
                let fty = func.ty(&body.local_decls, self.tcx);
                let f = match fty.kind() {
                    ty::FnDef(def, gargs) => J::Obj(self.fn_ref(env, *def, gargs)),
                    _ => J::Obj(vec![("indirect", self.operand(env, func))]),
                };
                J::Obj(vec![
                    ("k", J::s("tailcall")),
                    ("f", f),
                    ("args", J::Arr(args.iter().map(|a| self.operand(env, &a.node)).collect())),
                ])
            }
            TerminatorKind::Assert { cond, expected, target, unwind, msg } => J::Obj(vec![
                ("k", J::s("assert")),
                ("cond", self.operand(env, cond)),
                ("expected", J::Bool(*expected)),
                ("msg", J::s(format!("{:?}", msg).chars().take(80).collect::<String>())),
                ("target", J::Num(target.as_usize() as i128)),
                ("unwind", self.unwind(unwind)),
            ]),
            TerminatorKind::FalseEdge { real_target, .. } => J::Obj(vec![
                ("k", J::s("goto")),
                ("target", J::Num(real_target.as_usize() as i128)),
            ]),
            TerminatorKind::FalseUnwind { real_target, .. } => J::Obj(vec![
                ("k", J::s("goto")),
                ("target", J::Num(real_target.as_usize() as i128)),
            ]),
            other => J::Obj(vec![("k", J::s("other")), ("s", J::s(format!("{:?}", other)))]),
        };
        let mut term = term;
        if let J::Obj(ref mut v) = term {
            v.push(("ln", J::Num(ln)));
            v.push(("x", J::Bool(x)));
        }
        J::Obj(vec![
            ("stmts", J::Arr(stmts)),
            ("term", term),
            ("cleanup", J::Bool(b.is_cleanup)),
        ])
    }
}
